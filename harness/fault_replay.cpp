// C03 replay harness: malformed or hostile input never causes memory errors, aborts or hangs.
//
// Cases (NDJSON on stdin) are the faulty-file descriptions exported by TLC from specs/FaultModel.tla,
// materialised into bytes by tools/fault_enc.py (hex in the case).  Every case is read with the REAL
// osmium::io::Reader (from memory or from a temporary file, plain or through the gzip/bzip2
// decompressors).  Oracle, per case:
//   * the read terminates (per-case watchdog: SIGALRM -> result line "hang", exit 95)
//   * the outcome is data or an exception derived from std::exception (anything else, std::terminate,
//     abort(), a failed assert() or a signal is reported; SIGABRT handler -> result line "abort", exit 94)
//   * every delivered item is WELL-FORMED: a bounds-checking walker re-derives every position the
//     library's iterators would visit (item sizes, user/role/comment sizes, NUL terminators of all
//     strings, tag pairs, sub-item chain) and verifies that each stays inside the item, and the item
//     inside the committed part of the buffer, BEFORE the natural traversal (the one a user would do:
//     all tags, node refs, members incl. roles, discussion comments user+text, strlen on every string)
//     runs under ASan+UBSan.  ASan alone cannot see a traversal that runs off an item but stays inside
//     the buffer's capacity - the walker can.
//   * no thread and no file descriptor is left behind when the Reader is gone
//   * memory stays bounded: peak live heap during the case (ASan malloc/free hooks) and the number of
//     delivered bytes are bounded by a linear function of the UNCOMPRESSED input size
//   * if the spec determines the outcome (XML handler model, unfaulted base files): accept/reject and
//     the shape of every committed object (sub-item sequence with counts) equal the spec's.
#include "common/vh.hpp"

#include <osmium/io/bzip2_compression.hpp>
#include <osmium/io/gzip_compression.hpp>
#include <osmium/io/o5m_input.hpp>
#include <osmium/io/opl_input.hpp>
#include <osmium/io/pbf_input.hpp>
#include <osmium/io/xml_input.hpp>
#include <osmium/io/reader.hpp>
#include <osmium/memory/buffer.hpp>
#include <osmium/osm.hpp>
#include <osmium/thread/pool.hpp>

#if defined(__SANITIZE_ADDRESS__)
// (no sanitizer headers installed here: declare the two interface functions of libasan ourselves)
extern "C" int __sanitizer_install_malloc_and_free_hooks(void (*malloc_hook)(const volatile void*, size_t), void (*free_hook)(const volatile void*));
extern "C" size_t __sanitizer_get_allocated_size(const volatile void* p);
# define HAVE_ASAN_HOOKS 1
#endif

#include <atomic>
#include <csignal>
#include <cstdint>
#include <cstdio>
#include <cstring>
#include <dirent.h>
#include <exception>
#include <fcntl.h>
#include <string>
#include <sys/stat.h>
#include <typeinfo>
#include <vector>

using vh::json;
using uchar = unsigned char;

// ------------------------------------------------------------------------------------------------
// process-level observers

static std::atomic<long long> g_live{0};
static std::atomic<long long> g_peak{0};

#ifdef HAVE_ASAN_HOOKS
static void hook_malloc(const volatile void* p, size_t n) {
    (void)p;
    const long long v = g_live.fetch_add(static_cast<long long>(n)) + static_cast<long long>(n);
    long long pk = g_peak.load(std::memory_order_relaxed);
    while (v > pk && !g_peak.compare_exchange_weak(pk, v)) {
    }
}
static void hook_free(const volatile void* p) {
    if (p) {
        g_live.fetch_sub(static_cast<long long>(__sanitizer_get_allocated_size(p)));
    }
}
#endif

static char g_pending[512];                  // result line for the case in flight (watchdog / abort)
static std::atomic<int> g_pending_len{0};

// Every process that dies (hang / abort / terminate) leaves one byte in this file; once it holds more than
// g_died_limit bytes the remaining cases are skipped: the check has failed anyway and 60 s per hanging case add up.
static char g_budget_path[512];
static long g_died_limit = 48;

static void die_with(const char* tag, int code) {
    if (g_budget_path[0]) {
        const int fd = ::open(g_budget_path, O_WRONLY | O_CREAT | O_APPEND, 0600);
        if (fd >= 0) {
            (void)!::write(fd, "x", 1);
            ::close(fd);
        }
    }
    const int n = g_pending_len.load();
    if (n > 0) {
        char buf[700];
        const int m = std::snprintf(buf, sizeof(buf), "%.*s,\"ok\":false,\"died\":\"%s\"}\n", n, g_pending, tag);
        (void)!::write(1, buf, static_cast<size_t>(m));
    }
    _exit(code);
}
static void on_alarm(int) { die_with("hang", 95); }
static void on_abort(int) { die_with("abort", 94); }
static void on_terminate() {
    // an exception escaped a thread or a noexcept function: the process would abort
    die_with("terminate", 93);
}

static int count_dir(const char* path) {
    int n = 0;
    DIR* d = opendir(path);
    if (!d) return -1;
    while (struct dirent* e = readdir(d)) {
        if (e->d_name[0] != '.') ++n;
    }
    closedir(d);
    return n - (std::strcmp(path, "/proc/self/fd") == 0 ? 1 : 0);   // the DIR's own fd
}

// ------------------------------------------------------------------------------------------------
// bounds-checking walker

struct IllFormed {
    std::string why;
};

static inline size_t padded(size_t n) { return osmium::memory::padded_length(n); }

#define REQ(cond, msg) do { if (!(cond)) throw IllFormed{std::string(msg)}; } while (0)

static const uchar* find_nul(const uchar* s, const uchar* e) {
    return s < e ? static_cast<const uchar*>(std::memchr(s, 0, static_cast<size_t>(e - s))) : nullptr;
}

static json walk_entity(const uchar* p, const uchar* limit, int depth);

// returns [kind, count / flags]
static json walk_subitem(const uchar* q, const uchar* end, int depth) {
    REQ(q + sizeof(osmium::memory::Item) <= end, "sub-item header crosses the end of its parent");
    const auto* it = reinterpret_cast<const osmium::memory::Item*>(q);
    const size_t ssz = it->byte_size();
    REQ(ssz >= sizeof(osmium::memory::Item), "sub-item size smaller than an item header");
    REQ(q + padded(ssz) <= end, "sub-item (padded) crosses the end of its parent");
    const uchar* const e = q + ssz;
    switch (it->type()) {
        case osmium::item_type::tag_list: {
            int n = 0;
            const uchar* s = q + sizeof(osmium::TagList);
            while (s != e) {
                REQ(s < e, "tag iteration stepped over the end of the tag list");
                const uchar* k0 = find_nul(s, e);
                REQ(k0, "tag key not terminated inside the tag list");
                const uchar* v = k0 + 1;
                const uchar* v0 = find_nul(v, e);
                REQ(v0, "tag value missing or not terminated inside the tag list (odd number of strings)");
                s = v0 + 1;
                ++n;
            }
            return json::array({"T", n});
        }
        case osmium::item_type::way_node_list: {
            REQ((ssz - sizeof(osmium::WayNodeList)) % sizeof(osmium::NodeRef) == 0, "way node list size is not a multiple of sizeof(NodeRef)");
            return json::array({"N", (ssz - sizeof(osmium::WayNodeList)) / sizeof(osmium::NodeRef)});
        }
        case osmium::item_type::relation_member_list:
        case osmium::item_type::relation_member_list_with_full_members: {
            int n = 0;
            const uchar* m = q + sizeof(osmium::RelationMemberList);
            while (m != e) {
                REQ(m < e, "member iteration stepped over the end of the member list");
                REQ(m + sizeof(osmium::RelationMember) <= e, "member header crosses the end of the member list");
                const auto* rm = reinterpret_cast<const osmium::RelationMember*>(m);
                const size_t rs = rm->m_role_size;
                REQ(rs >= 1, "member role size 0 (no terminator)");
                REQ(m + sizeof(osmium::RelationMember) + rs <= e, "member role crosses the end of the member list");
                REQ(m[sizeof(osmium::RelationMember) + rs - 1] == 0, "member role not NUL-terminated at role_size");
                const auto t = rm->type();
                REQ(t == osmium::item_type::node || t == osmium::item_type::way || t == osmium::item_type::relation, "member type is not node/way/relation");
                const uchar* nm = m + padded(sizeof(osmium::RelationMember) + rs);
                if (rm->full_member()) {
                    REQ(depth < 3, "full members nested too deep");
                    walk_entity(nm, e, depth + 1);
                    nm += reinterpret_cast<const osmium::memory::Item*>(nm)->byte_size();
                }
                REQ(nm <= e, "member (padded) crosses the end of the member list");
                m = nm;
                ++n;
            }
            return json::array({"M", n});
        }
        case osmium::item_type::changeset_discussion: {
            std::string flags;
            const uchar* c = q + sizeof(osmium::ChangesetDiscussion);
            while (c != e) {
                REQ(c < e, "comment iteration stepped over the end of the discussion");
                REQ((reinterpret_cast<uintptr_t>(c) % osmium::memory::align_bytes) == 0, "comment is not aligned");
                REQ(c + sizeof(osmium::ChangesetComment) <= e, "comment header crosses the end of the discussion");
                const auto* cc = reinterpret_cast<const osmium::ChangesetComment*>(c);
                const size_t us = cc->m_user_size;
                const size_t ts = cc->m_text_size;
                REQ(us >= 1, "comment user size 0 (no terminator)");
                const uchar* user = c + sizeof(osmium::ChangesetComment);
                REQ(user + us + ts <= e, "comment user+text cross the end of the discussion");
                REQ(user[us - 1] == 0, "comment user not NUL-terminated at user_size");
                const uchar* text = user + us;
                const uchar* cn = c + padded(sizeof(osmium::ChangesetComment) + us + ts);
                REQ(cn <= q + padded(ssz), "comment (padded) crosses the end of the discussion");
                // text() must be a C string that ends inside this comment
                REQ(find_nul(text, cn), "comment text not terminated inside its comment (comment without text and without padding)");
                if (ts >= 1) {
                    REQ(text[ts - 1] == 0, "comment text not NUL-terminated at text_size");
                }
                flags += (ts > 1 ? '1' : '0');
                c = cn;
                REQ(c <= e, "comment (padded) stepped over the end of the discussion");
            }
            return json::array({"D", flags});
        }
        default:
            REQ(false, "unexpected sub-item type " + std::to_string(static_cast<int>(it->type())));
    }
    return json();
}

static json walk_entity(const uchar* p, const uchar* limit, int depth) {
    REQ(p + sizeof(osmium::memory::Item) <= limit, "item header crosses the committed end of the buffer");
    REQ((reinterpret_cast<uintptr_t>(p) % osmium::memory::align_bytes) == 0, "item is not aligned");
    const auto* it = reinterpret_cast<const osmium::memory::Item*>(p);
    const size_t sz = it->byte_size();
    REQ(sz >= sizeof(osmium::memory::Item), "item size smaller than an item header");
    REQ(p + padded(sz) <= limit, "item (padded) crosses the committed end of the buffer");
    const uchar* const end = p + padded(sz);
    size_t so = 0;
    size_t us = 0;
    const char* code = "?";
    switch (it->type()) {
        case osmium::item_type::node: code = "n"; break;
        case osmium::item_type::way: code = "w"; break;
        case osmium::item_type::relation: code = "r"; break;
        case osmium::item_type::changeset: code = "c"; break;
        default:
            REQ(false, "unexpected top-level item type " + std::to_string(static_cast<int>(it->type())));
    }
    if (it->type() == osmium::item_type::changeset) {
        so = sizeof(osmium::Changeset);
        REQ(sz >= so + 1, "changeset smaller than its fixed part");
        us = reinterpret_cast<const osmium::Changeset*>(p)->user_size();
    } else {
        const auto* obj = reinterpret_cast<const osmium::OSMObject*>(p);
        so = obj->sizeof_object();
        REQ(sz >= so + 1, "object smaller than its fixed part");
        us = obj->user_size();
    }
    REQ(us >= 1, "user size 0 (no terminator)");
    REQ(so + us <= sz, "user name crosses the end of the item");
    REQ(p[so + us - 1] == 0, "user name not NUL-terminated at user_size");
    const uchar* q = p + padded(so + us);
    REQ(q <= end, "sub-item start lies behind the end of the item");
    json shape = json::array({code});
    while (q != end) {
        REQ(q < end, "sub-item iteration stepped over the end of the item");
        shape.push_back(walk_subitem(q, end, depth));
        q += padded(reinterpret_cast<const osmium::memory::Item*>(q)->byte_size());
    }
    return shape;
}

// ------------------------------------------------------------------------------------------------
// the traversal a user of the library would do (runs under ASan/UBSan after the walker passed)

static volatile size_t g_sink;

static void touch(const char* s) { g_sink += std::strlen(s); }

static void natural_traversal(const osmium::OSMEntity& e) {
    if (e.type() == osmium::item_type::changeset) {
        const auto& c = static_cast<const osmium::Changeset&>(e);
        g_sink += c.id() + c.uid() + c.num_changes() + c.num_comments() + c.created_at().seconds_since_epoch() + c.closed_at().seconds_since_epoch();
        g_sink += c.bounds().valid() ? 1 : 0;
        touch(c.user());
        for (const auto& t : c.tags()) {
            touch(t.key());
            touch(t.value());
        }
        for (const auto& cm : c.discussion()) {
            g_sink += cm.uid() + cm.date().seconds_since_epoch();
            touch(cm.user());
            touch(cm.text());
        }
        // every discussion / tag list, not only the first one of its kind
        for (const auto& sub : c) {
            g_sink += sub.byte_size();
        }
        return;
    }
    const auto& o = static_cast<const osmium::OSMObject&>(e);
    g_sink += static_cast<size_t>(o.id()) + o.version() + o.uid() + o.changeset() + o.timestamp().seconds_since_epoch() + (o.visible() ? 1 : 0);
    touch(o.user());
    for (const auto& t : o.tags()) {
        touch(t.key());
        touch(t.value());
    }
    for (const auto& sub : o) {
        switch (sub.type()) {
            case osmium::item_type::tag_list:
                for (const auto& t : static_cast<const osmium::TagList&>(sub)) {
                    touch(t.key());
                    touch(t.value());
                }
                break;
            case osmium::item_type::way_node_list:
                for (const auto& nr : static_cast<const osmium::WayNodeList&>(sub)) {
                    g_sink += static_cast<size_t>(nr.ref()) + static_cast<size_t>(nr.location().x()) + static_cast<size_t>(nr.location().y());
                }
                break;
            case osmium::item_type::relation_member_list:
            case osmium::item_type::relation_member_list_with_full_members:
                for (const auto& m : static_cast<const osmium::RelationMemberList&>(sub)) {
                    g_sink += static_cast<size_t>(m.ref()) + static_cast<size_t>(m.type());
                    touch(m.role());
                }
                break;
            default:
                break;
        }
    }
    if (o.type() == osmium::item_type::node) {
        const auto& n = static_cast<const osmium::Node&>(o);
        g_sink += static_cast<size_t>(n.location().x()) + static_cast<size_t>(n.location().y());
    }
}

// ------------------------------------------------------------------------------------------------

static std::string unhex(const std::string& h) {
    std::string out;
    out.reserve(h.size() / 2);
    auto v = [](char c) -> int { return c <= '9' ? c - '0' : (c | 0x20) - 'a' + 10; };
    for (size_t i = 0; i + 1 < h.size(); i += 2) {
        out.push_back(static_cast<char>(v(h[i]) * 16 + v(h[i + 1])));
    }
    return out;
}

static std::string g_tmpdir;
static int g_base_threads = -1;
static int g_base_fds = -1;
static int g_watchdog = 60;

struct Outcome {
    std::string outcome;     // "data" | "error"
    std::string exc;         // typeid name
    std::string msg;
    json shapes = json::array();
    size_t nobj = 0;
    size_t delivered = 0;
    size_t nbuf = 0;
};

static void run_case(const json& c, json& r) {
    const std::string fmt = c.at("fmt").get<std::string>();
    const std::string comp = c.value("comp", std::string{"none"});
    const std::string via = c.value("via", std::string{"mem"});
    const std::string bytes = unhex(c.at("hex").get<std::string>());
    const long long rawlen = c.value("rawlen", static_cast<long long>(bytes.size()));
    std::string fstr = fmt;
    if (comp == "gzip") fstr += ".gz";
    if (comp == "bzip2") fstr += ".bz2";

    // which entity types / whether metadata is read (separate code paths in all four parsers)
    osmium::osm_entity_bits::type types = osmium::osm_entity_bits::nothing;
    for (const char t : c.value("types", std::string{"nwrc"})) {
        switch (t) {
            case 'n': types |= osmium::osm_entity_bits::node; break;
            case 'w': types |= osmium::osm_entity_bits::way; break;
            case 'r': types |= osmium::osm_entity_bits::relation; break;
            case 'c': types |= osmium::osm_entity_bits::changeset; break;
            default: break;
        }
    }
    const osmium::io::read_meta meta = c.value("meta", true) ? osmium::io::read_meta::yes : osmium::io::read_meta::no;

    std::string path;
    if (via == "file") {
        path = g_tmpdir + "/c03_" + std::to_string(::getpid()) + "." + fstr;
        int fd = ::open(path.c_str(), O_WRONLY | O_CREAT | O_TRUNC, 0600);
        if (fd < 0) {                                   // scratch directory removed under our feet: recreate once
            ::mkdir(g_tmpdir.c_str(), 0700);
            fd = ::open(path.c_str(), O_WRONLY | O_CREAT | O_TRUNC, 0600);
        }
        if (fd < 0) throw std::runtime_error("harness: cannot create " + path + ": " + std::strerror(errno));
        size_t off = 0;
        while (off < bytes.size()) {
            const ssize_t n = ::write(fd, bytes.data() + off, bytes.size() - off);
            if (n <= 0) throw std::runtime_error("harness: short write");
            off += static_cast<size_t>(n);
        }
        ::close(fd);
    }

    Outcome o;
    std::string illformed;
    bool nonstd = false;
    const long long live0 = g_live.load();
    g_peak.store(live0);
    vh::step_marker(0);
    try {
        osmium::io::File file = (via == "file") ? osmium::io::File{path, fstr} : osmium::io::File{bytes.data(), bytes.size(), fstr};
        osmium::io::Reader reader{file, types, meta};
        const osmium::io::Header header = reader.header();
        for (const auto& kv : header) {
            g_sink += kv.first.size() + kv.second.size();
        }
        for (const auto& b : header.boxes()) {
            g_sink += b.valid() ? 1 : 0;
        }
        vh::step_marker(1);
        while (osmium::memory::Buffer buffer = reader.read()) {
            ++o.nbuf;
            o.delivered += buffer.committed();
            const uchar* p = buffer.data();
            const uchar* const limit = buffer.data() + buffer.committed();
            while (p != limit) {
                json shape;
                try {
                    REQ(p < limit, "buffer iteration stepped over the committed end");
                    shape = walk_entity(p, limit, 0);
                } catch (const IllFormed& bad) {
                    illformed = bad.why + " (object #" + std::to_string(o.nobj) + ")";
                    break;
                }
                natural_traversal(*reinterpret_cast<const osmium::OSMEntity*>(p));
                if (o.shapes.size() < 64) {
                    o.shapes.push_back(shape);
                }
                ++o.nobj;
                p += padded(reinterpret_cast<const osmium::memory::Item*>(p)->byte_size());
            }
            if (!illformed.empty()) {
                break;
            }
        }
        vh::step_marker(2);
        reader.close();
        o.outcome = "data";
    } catch (const std::exception& e) {
        o.outcome = "error";
        o.exc = typeid(e).name();
        o.msg = e.what();
    } catch (...) {
        nonstd = true;
    }
    vh::step_marker(3);
    const long long peak = g_peak.load() - live0;
    if (!path.empty()) {
        ::unlink(path.c_str());
    }

    r["outcome"] = o.outcome;
    r["nobj"] = o.nobj;
    r["delivered"] = o.delivered;
    r["peak"] = peak;
    if (!o.exc.empty()) {
        r["exc"] = o.exc;
        r["msg"] = o.msg.substr(0, 160);
    }
    if (c.value("want_shapes", false)) {
        r["shapes"] = o.shapes;
    }

    if (nonstd) {
        throw vh::Mismatch(1, "data or exception derived from std::exception", "exception NOT derived from std::exception", "outcome");
    }
    if (!illformed.empty()) {
        throw vh::Mismatch(2, "every delivered item is well-formed (traversal stays inside the item)", illformed, "illformed");
    }
    // leaks
    // a joined thread can stay visible in /proc for a moment after pthread_join() returned
    int th = count_dir("/proc/self/task");
    for (int i = 0; i < 200 && th > g_base_threads; ++i) {
        ::usleep(5000);
        th = count_dir("/proc/self/task");
    }
    const int fds = count_dir("/proc/self/fd");
    if (th > g_base_threads) {
        throw vh::Mismatch(3, g_base_threads, th, "threads left behind after the Reader is gone");
    }
    if (fds > g_base_fds) {
        throw vh::Mismatch(3, g_base_fds, fds, "file descriptors left behind after the Reader is gone");
    }
    // bounded memory
    const long long cap_delivered = 64LL * rawlen + 65536;
    if (static_cast<long long>(o.delivered) > cap_delivered) {
        throw vh::Mismatch(4, cap_delivered, o.delivered, "delivered bytes not bounded by the (uncompressed) input size");
    }
#ifdef HAVE_ASAN_HOOKS
    const long long cap_peak = 64LL * rawlen + (96LL << 20);
    if (peak > cap_peak) {
        throw vh::Mismatch(4, cap_peak, peak, "peak live heap not bounded by the (uncompressed) input size");
    }
#endif
    // spec-determined outcome
    if (c.contains("exp")) {
        const json& exp = c["exp"];
        const std::string want = exp.value("outcome", std::string{"any"});
        if (want != "any" && want != o.outcome) {
            throw vh::Mismatch(5, want, o.outcome + (o.exc.empty() ? "" : " " + o.exc + ": " + o.msg.substr(0, 120)), "outcome differs from the spec");
        }
        if (exp.contains("objs") && (o.outcome == "data" || exp.value("objs_on_error", false))) {
            if (exp["objs"] != o.shapes) {
                throw vh::Mismatch(5, exp["objs"], o.shapes, "committed objects differ from the spec");
            }
        }
        if (exp.contains("nobj") && o.outcome == "data" && exp["nobj"].get<size_t>() != o.nobj) {
            throw vh::Mismatch(5, exp["nobj"], o.nobj, "number of delivered objects differs from the spec");
        }
    }
}

int main(int argc, char** argv) {
    g_tmpdir = argc > 1 ? argv[1] : "/tmp";
    if (argc > 2) g_watchdog = std::atoi(argv[2]);
    ::mkdir(g_tmpdir.c_str(), 0700);
    std::snprintf(g_budget_path, sizeof(g_budget_path), "%s/died", g_tmpdir.c_str());
    // create the process-wide worker pool up front so that its threads are part of the baseline
    osmium::thread::Pool::default_instance();
    std::signal(SIGALRM, on_alarm);
    std::signal(SIGABRT, on_abort);
    std::set_terminate(on_terminate);
#ifdef HAVE_ASAN_HOOKS
    __sanitizer_install_malloc_and_free_hooks(hook_malloc, hook_free);
#endif
    g_base_threads = count_dir("/proc/self/task");
    g_base_fds = count_dir("/proc/self/fd");

    std::string line;
    while (std::getline(std::cin, line)) {
        if (line.empty()) continue;
        json c = json::parse(line);
        json r;
        r["id"] = c["id"];
        {
            struct stat st;
            if (::stat(g_budget_path, &st) == 0 && st.st_size > g_died_limit) {
                r["ok"] = true;
                r["skipped"] = true;
                vh::emit(r);
                continue;
            }
        }
        {
            std::string head = r.dump();
            head.pop_back();     // strip '}'
            std::snprintf(g_pending, sizeof(g_pending), "%s", head.c_str());
            g_pending_len.store(static_cast<int>(std::strlen(g_pending)));
        }
        ::alarm(static_cast<unsigned>(g_watchdog));
        try {
            run_case(c, r);
            r["ok"] = true;
        } catch (const vh::Mismatch& m) {
            r["ok"] = false;
            r["step"] = m.step;
            r["exp"] = m.exp;
            r["got"] = m.got;
            r["note"] = m.note;
        } catch (const std::exception& e) {
            r["ok"] = false;
            r["step"] = -1;
            r["note"] = std::string("harness: ") + typeid(e).name() + ": " + e.what();
        }
        ::alarm(0);
        g_pending_len.store(0);
        vh::emit(r);
    }
    return 0;
}
