// C12 (extension) replay.  Histories exported by TLC from
//   specs/MemoryMapping.tla        (kind "mm")    -> osmium::MemoryMapping / AnonymousMemoryMapping / TypedMemoryMapping<T> /
//                                                    AnonymousTypedMemoryMapping<T> on real temporary files,
//   specs/MemoryMappingVector.tla  (kind "vec")   -> osmium::detail::mmap_vector_anon<T> / mmap_vector_file<T>,
//   specs/IndexMultimap.tla        (kind "multi") -> every class in osmium/index/multimap/*.hpp
// are executed step by step; after every step everything the spec's A-layer says about the object (window length,
// every byte of the window, every byte of the file, the file size, errors; size/capacity/at()/raw slots; the bag of
// values of every probe id, the dumped list) is compared with the exported values.
#include "common/vh.hpp"

#include <osmium/index/detail/mmap_vector_anon.hpp>
#include <osmium/index/detail/mmap_vector_file.hpp>
#include <osmium/index/multimap/all.hpp>
#include <osmium/index/multimap/hybrid.hpp>
#include <osmium/osm/location.hpp>
#include <osmium/util/file.hpp>
#include <osmium/util/memory_mapping.hpp>

#include <algorithm>
#include <cstdint>
#include <cstring>
#include <fcntl.h>
#include <memory>
#include <stdexcept>
#include <string>
#include <sys/stat.h>
#include <system_error>
#include <unistd.h>
#include <utility>
#include <vector>

using vh::json;

static std::string tmp_dir() {
    const char* d = std::getenv("VH_TMPDIR");
    return d ? d : "/tmp";
}

static std::string fresh_path() {
    static int counter = 0;
    std::string p = tmp_dir() + "/c12x_" + std::to_string(::getpid()) + "_" + std::to_string(++counter) + ".dat";
    ::unlink(p.c_str());
    return p;
}

static std::size_t fd_size(int fd) {
    struct stat st{};
    if (::fstat(fd, &st) != 0) throw std::runtime_error{"harness: fstat failed"};
    return static_cast<std::size_t>(st.st_size);
}

static std::vector<unsigned char> read_all(int fd) {
    std::vector<unsigned char> data(fd_size(fd));
    std::size_t off = 0;
    while (off < data.size()) {
        const ssize_t n = ::pread(fd, data.data() + off, data.size() - off, static_cast<off_t>(off));
        if (n <= 0) throw std::runtime_error{"harness: pread failed"};
        off += static_cast<std::size_t>(n);
    }
    return data;
}

static void write_all(int fd, const void* p, std::size_t n, off_t at) {
    const char* c = static_cast<const char*>(p);
    while (n > 0) {
        const ssize_t w = ::pwrite(fd, c, n, at);
        if (w <= 0) throw std::runtime_error{"harness: pwrite failed"};
        c += w;
        at += w;
        n -= static_cast<std::size_t>(w);
    }
}

// ================================================================ kind "mm": MemoryMapping

using MM = osmium::MemoryMapping;

static MM::mapping_mode mode_of(const std::string& m) {
    if (m == "readonly") return MM::mapping_mode::readonly;
    if (m == "private") return MM::mapping_mode::write_private;
    return MM::mapping_mode::write_shared;
}

struct MapObj {
    virtual ~MapObj() = default;
    virtual bool valid() const = 0;
    virtual std::size_t elems() const = 0;
    virtual std::size_t span() = 0;          // end() - begin() in elements
    virtual unsigned char* addr() = 0;
    virtual void resize(std::size_t n) = 0;
    virtual void unmap() = 0;
    virtual bool writable() const = 0;
    virtual int fd() const = 0;
    // returns the object the window moved to; *this must be invalid afterwards
    virtual std::unique_ptr<MapObj> moved(bool assign) = 0;
};

struct RawMap : MapObj {
    MM m;
    explicit RawMap(MM&& x) : m(std::move(x)) {}
    bool valid() const override { return !!m; }
    std::size_t elems() const override { return m.size(); }
    std::size_t span() override { return m.size(); }
    unsigned char* addr() override { return m.get_addr<unsigned char>(); }
    void resize(std::size_t n) override { m.resize(n); }
    void unmap() override { m.unmap(); }
    bool writable() const override { return m.writable(); }
    int fd() const override { return m.fd(); }
    std::unique_ptr<MapObj> moved(bool assign) override {
        if (!assign) return std::unique_ptr<MapObj>(new RawMap{std::move(m)});
        std::unique_ptr<RawMap> t{new RawMap{MM{100, MM::mapping_mode::write_private}}};
        t->m = std::move(m);
        return std::unique_ptr<MapObj>(t.release());
    }
};

template <typename T>
struct TypedMap : MapObj {
    osmium::TypedMemoryMapping<T> m;
    explicit TypedMap(osmium::TypedMemoryMapping<T>&& x) : m(std::move(x)) {}
    bool valid() const override { return !!m; }
    std::size_t elems() const override { return m.size(); }
    std::size_t span() override {
        const auto& c = m;
        if (c.begin() != m.begin() || c.cbegin() != m.begin() || c.end() != m.end() || c.cend() != m.end()) return static_cast<std::size_t>(-1);
        return static_cast<std::size_t>(m.end() - m.begin());
    }
    unsigned char* addr() override { return reinterpret_cast<unsigned char*>(m.begin()); }
    void resize(std::size_t n) override { m.resize(n); }
    void unmap() override { m.unmap(); }
    bool writable() const override { return m.writable(); }
    int fd() const override { return m.fd(); }
    std::unique_ptr<MapObj> moved(bool assign) override {
        if (!assign) return std::unique_ptr<MapObj>(new TypedMap<T>{std::move(m)});
        std::unique_ptr<TypedMap<T>> t{new TypedMap<T>{osmium::TypedMemoryMapping<T>{3}}};
        t->m = std::move(m);
        return std::unique_ptr<MapObj>(t.release());
    }
};

template <typename T>
static std::unique_ptr<MapObj> make_typed(bool anon, std::size_t n, MM::mapping_mode mode, int fd, std::size_t off) {
    if (anon) {
        osmium::AnonymousTypedMemoryMapping<T> a{n};
        return std::unique_ptr<MapObj>(new TypedMap<T>{std::move(a)});
    }
    return std::unique_ptr<MapObj>(new TypedMap<T>{osmium::TypedMemoryMapping<T>{n, mode, fd, static_cast<off_t>(off)}});
}

static std::unique_ptr<MapObj> make_map(int esz, bool anon, std::size_t n, const std::string& mode, int fd, std::size_t off) {
    const auto mm = mode_of(mode);
    if (esz == 1) {
        if (anon && mode == "private") {
            osmium::AnonymousMemoryMapping a{n};
            return std::unique_ptr<MapObj>(new RawMap{std::move(a)});
        }
        if (anon) return std::unique_ptr<MapObj>(new RawMap{MM{n, mm}});
        return std::unique_ptr<MapObj>(new RawMap{MM{n, mm, fd, static_cast<off_t>(off)}});
    }
    if (esz == 8) return make_typed<uint64_t>(anon, n, mm, fd, off);
    if (esz == 16) return make_typed<std::pair<uint64_t, uint64_t>>(anon, n, mm, fd, off);
    if (esz == 2) return make_typed<uint16_t>(anon, n, mm, fd, off);
    throw vh::Mismatch(-1, "known element size", esz);
}

static void run_mm(const json& c) {
    const json& steps = c["steps"];
    const std::string fdk = steps[0]["fdk"];
    const bool is_file = fdk == "rw" || fdk == "ro";
    std::string path;
    int hfd = -1;        // the harness' own read/write descriptor of the file
    int fd = -1;         // the descriptor the mappings get
    struct Cleanup {
        int& a;
        int& b;
        std::string& p;
        ~Cleanup() {
            if (b >= 0 && b != a && b < 900) ::close(b);
            if (a >= 0) ::close(a);
            if (!p.empty()) ::unlink(p.c_str());
        }
    } cleanup{hfd, fd, path};
    std::unique_ptr<MapObj> obj;
    int k = 0;
    for (const auto& st : steps) {
        vh::step_marker(k);
        const std::string a = st["a"];
        const bool exp_err = st["err"];
        const std::string who = "mm " + a;
        bool threw = false;
        std::string msg;
        if (a == "file") {
            if (is_file) {
                path = fresh_path();
                hfd = ::open(path.c_str(), O_CREAT | O_RDWR | O_TRUNC, 0644);
                if (hfd < 0) throw std::runtime_error{"harness: can not create " + path};
                const std::size_t f0 = st["fsize"];
                if (::ftruncate(hfd, static_cast<off_t>(f0)) != 0) throw std::runtime_error{"harness: ftruncate"};
                for (const auto& cell : st["fcells"]) {
                    const unsigned char b = static_cast<unsigned char>(cell[1].get<int>());
                    write_all(hfd, &b, 1, static_cast<off_t>(cell[0].get<std::size_t>()));
                }
                fd = fdk == "rw" ? hfd : ::open(path.c_str(), O_RDONLY);
                if (fd < 0) throw std::runtime_error{"harness: can not open read-only"};
            } else if (fdk == "bad") {
                fd = 987;                       // a descriptor number that is not open
                ::close(fd);
            }
        } else if (a == "ctor") {
            const int esz = st["esz"];
            try {
                obj = make_map(esz, fdk == "anon", st["n"], st["mode"], fd, st["off"]);
            } catch (const std::system_error& e) {
                threw = true;
                msg = e.what();
                obj.reset();
            }
            VH_EXPECT(k, exp_err, threw, who + ": constructor throws std::system_error exactly in the documented cases" + (msg.empty() ? "" : " (" + msg + ")"));
        } else if (a == "write") {
            if (!obj || !obj->valid()) throw vh::Mismatch(k, "a valid mapping to write to", "none", who);
            // the value written is the ordinal of the write = the value the spec lists for this position
            int val = -1;
            for (const auto& cell : st["cells"]) if (cell[0] == st["p"]) val = cell[1];
            if (val < 0) throw vh::Mismatch(k, "the written position among the cells of the step", st["p"], who);
            obj->addr()[st["p"].get<std::size_t>()] = static_cast<unsigned char>(val);
        } else if (a == "resize") {
            try {
                obj->resize(st["n"]);
            } catch (const std::system_error& e) {
                threw = true;
                msg = e.what();
            }
            VH_EXPECT(k, exp_err, threw, who + ": resize throws std::system_error exactly in the documented cases" + (msg.empty() ? "" : " (" + msg + ")"));
        } else if (a == "unmap") {
            obj->unmap();
        } else if (a == "dtor") {
            obj.reset();
        } else if (a == "move_ctor" || a == "move_assign") {
            std::unique_ptr<MapObj> n = obj->moved(a == "move_assign");
            VH_EXPECT(k, false, obj->valid(), who + ": the moved-from mapping is invalid");
            obj->unmap();                       // does nothing on an invalid mapping
            obj = std::move(n);                 // destructor of the moved-from object runs here
        } else {
            throw vh::Mismatch(k, "known action", a);
        }
        // ---- what the A-layer says after the step
        const bool win = st["win"];
        if (obj) {
            VH_EXPECT(k, win, obj->valid(), who + ": operator bool");
        } else if (win) {
            throw vh::Mismatch(k, "a mapping object", "none", who);
        }
        if (win) {
            const std::size_t len = st["len"];
            const std::size_t esz = st["esz"];
            VH_EXPECT(k, st["elems"].get<std::size_t>(), obj->elems(), who + ": size()");
            VH_EXPECT(k, st["elems"].get<std::size_t>(), obj->span(), who + ": end() - begin() (and the const / c variants)");
            VH_EXPECT(k, st["mode"] != "readonly", obj->writable(), who + ": writable()");
            VH_EXPECT(k, fdk == "anon" ? -1 : fd, obj->fd(), who + ": fd()");
            if (len != st["elems"].get<std::size_t>() * esz) throw vh::Mismatch(k, len, st["elems"].get<std::size_t>() * esz, who + ": exported length is not elems * esz");
            // every byte of the window
            std::vector<int> want(len, 0);
            for (const auto& cell : st["cells"]) want[cell[0].get<std::size_t>()] = cell[1].get<int>();
            for (const auto& p : st["unspec"]) want[p.get<std::size_t>()] = -1;
            const unsigned char* base = obj->addr();
            for (std::size_t i = 0; i < len; ++i) {
                if (want[i] < 0) continue;
                if (base[i] != static_cast<unsigned char>(want[i])) {
                    throw vh::Mismatch(k, want[i], static_cast<int>(base[i]), who + ": byte " + std::to_string(i) + " of the window (length " + std::to_string(len) + ")");
                }
            }
        }
        if (is_file) {
            const std::size_t fs = st["fsize"];
            if (st["fchk"].get<bool>()) {
                VH_EXPECT(k, fs, fd_size(hfd), who + ": size of the file (extended to offset + size when too small, never shrunk)");
            } else if (fd_size(hfd) != fs) {
                // unspecified after a refused call: continue from the model's value
                if (::ftruncate(hfd, static_cast<off_t>(fs)) != 0) throw std::runtime_error{"harness: ftruncate"};
            }
            const std::vector<unsigned char> data = read_all(hfd);
            std::vector<int> want(data.size(), 0);
            for (const auto& cell : st["fcells"]) {
                const std::size_t p = cell[0];
                if (p >= want.size()) throw vh::Mismatch(k, "file cell inside the file", p, who);
                want[p] = cell[1].get<int>();
            }
            for (std::size_t i = 0; i < data.size(); ++i) {
                if (data[i] != static_cast<unsigned char>(want[i])) {
                    throw vh::Mismatch(k, want[i], static_cast<int>(data[i]), who + ": byte " + std::to_string(i) + " of the file");
                }
            }
        }
        ++k;
    }
}

// ================================================================ kind "vec": mmap_vector_anon / mmap_vector_file

template <typename T> T make_val(int64_t v);
template <> uint64_t make_val<uint64_t>(int64_t v) {
    return v == 0 ? osmium::index::empty_value<uint64_t>() : static_cast<uint64_t>(v);
}
template <> osmium::Location make_val<osmium::Location>(int64_t v) {
    return v == 0 ? osmium::index::empty_value<osmium::Location>() : osmium::Location{static_cast<int32_t>(v), static_cast<int32_t>(v + 1)};
}
static json show(uint64_t v) { return v; }
static json show(const osmium::Location& l) { return json::array({l.x(), l.y()}); }

template <typename T>
struct FileVec : osmium::detail::mmap_vector_file<T> {
    FileVec() : osmium::detail::mmap_vector_file<T>() {}
    explicit FileVec(int fd) : osmium::detail::mmap_vector_file<T>(fd) {}
    int fd() const { return this->m_mapping.fd(); }
};

template <typename T, typename V>
static void check_vec(V& v, const json& st, int k, const std::string& who, bool full, int fd) {
    const std::size_t size = st["size"];
    const std::size_t cap = st["cap"];
    VH_EXPECT(k, size, v.size(), who + ": size()");
    VH_EXPECT(k, cap, v.capacity(), who + ": capacity() (mmap_vector_size_increment arithmetic)");
    VH_EXPECT(k, size == 0, v.empty(), who + ": empty()");
    VH_EXPECT(k, size, static_cast<std::size_t>(v.end() - v.begin()), who + ": end() - begin()");
    VH_EXPECT(k, size, static_cast<std::size_t>(v.cend() - v.cbegin()), who + ": cend() - cbegin()");
    const V& cv = v;
    for (const auto& pr : st["tab"]) {
        const std::size_t i = pr[0];
        const int64_t exp = pr[1];
        bool oor = false;
        T got{};
        try {
            got = cv.at(i);
        } catch (const std::out_of_range&) {
            oor = true;
        }
        if (exp == -2) {
            VH_EXPECT(k, true, oor, who + ": at(" + std::to_string(i) + ") throws std::out_of_range");
            continue;
        }
        if (oor) throw vh::Mismatch(k, show(make_val<T>(exp)), "out_of_range", who + ": at(" + std::to_string(i) + ")");
        if (!(got == make_val<T>(exp))) throw vh::Mismatch(k, show(make_val<T>(exp)), show(got), who + ": at(" + std::to_string(i) + ")");
        if (!(cv[i] == got) || !(v.data()[i] == got) || !(*(v.begin() + i) == got)) throw vh::Mismatch(k, show(got), show(cv[i]), who + ": operator[] / data() / begin() at " + std::to_string(i));
    }
    // raw slots: every slot of the mapping reads Empty unless it is listed (unset slots read as empty after every growth)
    std::vector<std::pair<std::size_t, int64_t>> cells;
    for (const auto& c : st["cells"]) cells.emplace_back(c[0].get<std::size_t>(), c[1].get<int64_t>());
    auto want_at = [&](std::size_t i) {
        for (const auto& c : cells) if (c.first == i) return make_val<T>(c.second);
        return make_val<T>(0);
    };
    const T* d = v.data();
    if (full) {
        const T empty = make_val<T>(0);
        for (std::size_t i = 0; i < cap; ++i) {
            if (d[i] == empty) continue;
            if (!(d[i] == want_at(i))) throw vh::Mismatch(k, show(want_at(i)), show(d[i]), who + ": raw slot " + std::to_string(i) + " of " + std::to_string(cap));
        }
        for (const auto& c : cells) {
            if (c.first < cap && !(d[c.first] == make_val<T>(c.second))) throw vh::Mismatch(k, show(make_val<T>(c.second)), show(d[c.first]), who + ": raw slot " + std::to_string(c.first));
        }
    } else {
        for (const auto& pr : st["tab"]) {
            const std::size_t i = pr[0];
            if (i < cap && !(d[i] == want_at(i))) throw vh::Mismatch(k, show(want_at(i)), show(d[i]), who + ": raw slot " + std::to_string(i) + " of " + std::to_string(cap));
        }
    }
    if (fd >= 0) {
        VH_EXPECT(k, st["fsize"].get<std::size_t>() * sizeof(T), fd_size(fd), who + ": size of the file in bytes");
    }
}

template <typename T, typename V>
static void apply_vec(V& v, const json& st, int k, const std::string& who) {
    const std::string a = st["a"];
    if (a == "resize") {
        v.resize(st["n"].get<std::size_t>());
    } else if (a == "reserve") {
        v.reserve(st["n"].get<std::size_t>());
    } else if (a == "push_back") {
        v.push_back(make_val<T>(st["v"]));
    } else if (a == "set_at") {
        v[st["n"].get<std::size_t>()] = make_val<T>(st["v"]);
    } else if (a == "shrink_to_fit") {
        v.shrink_to_fit();
    } else if (a == "clear") {
        v.clear();
    } else {
        throw vh::Mismatch(k, "known action", a, who);
    }
}

template <typename T>
static void run_vec_t(const json& c, const std::string& tname) {
    const std::string backing = c["backing"];
    const json& steps = c["steps"];
    const std::string who0 = "vec " + backing + "<" + tname + ">";
    std::string path;
    int fd = -1;
    std::unique_ptr<osmium::detail::mmap_vector_anon<T>> av;
    std::unique_ptr<FileVec<T>> fv;
    struct Cleanup {
        int& fd;
        std::string& p;
        ~Cleanup() {
            if (fd >= 0) ::close(fd);
            if (!p.empty()) ::unlink(p.c_str());
        }
    } cleanup{fd, path};
    int k = 0;
    std::size_t last_cap = 0;
    for (const auto& st : steps) {
        vh::step_marker(k);
        const std::string a = st["a"];
        const std::string who = who0 + " " + a;
        bool full = false;
        if (a == "open") {
            full = true;
            if (backing == "anon") {
                av.reset(new osmium::detail::mmap_vector_anon<T>{});
            } else if (backing == "tmpfile") {
                fv.reset(new FileVec<T>{});
                fd = fv->fd();
            } else {
                path = fresh_path();
                fd = ::open(path.c_str(), O_CREAT | O_RDWR | O_TRUNC, 0644);
                if (fd < 0) throw std::runtime_error{"harness: can not create " + path};
                const bool odd = st["err"];
                const std::size_t f = odd ? 5 : st["n"].get<std::size_t>();
                std::vector<T> content(f, make_val<T>(0));
                if (f > 0) content[0] = make_val<T>(7);
                if (f >= 3) content[f - 3] = make_val<T>(7);
                if (f > 0) write_all(fd, content.data(), f * sizeof(T), 0);
                if (odd) write_all(fd, "xyz", 3, static_cast<off_t>(f * sizeof(T)));
                bool threw = false;
                try {
                    fv.reset(new FileVec<T>{fd});
                } catch (const std::runtime_error& e) {
                    if (dynamic_cast<const std::system_error*>(&e)) throw;
                    threw = true;
                }
                VH_EXPECT(k, odd, threw, who + ": std::runtime_error iff the file size is not a multiple of sizeof(T)");
                if (odd) {
                    ++k;
                    continue;
                }
            }
        } else if (a == "reopen") {
            full = true;
            fv->close();
            fv.reset();
            fv.reset(new FileVec<T>{fd});
        } else if (av) {
            apply_vec<T>(*av, st, k, who);
        } else if (fv) {
            apply_vec<T>(*fv, st, k, who);
        } else {
            throw vh::Mismatch(k, "an open vector", "none", who);
        }
        const std::size_t cap = st["cap"];
        if (cap != last_cap) full = true;
        last_cap = cap;
        if (av) check_vec<T>(*av, st, k, who, full, -1);
        else check_vec<T>(*fv, st, k, who, full, fd);
        ++k;
    }
}

static void run_vec(const json& c) {
    for (const auto& t : c["etypes"]) {
        if (t == "u64") run_vec_t<uint64_t>(c, "uint64_t");
        else if (t == "loc") run_vec_t<osmium::Location>(c, "Location");
        else throw vh::Mismatch(-1, "known element type", t);
    }
}

// ================================================================ kind "multi": osmium::index::multimap::*

static const uint64_t ID_TAB[] = {0ULL, 1ULL, 2ULL, 65536ULL, 4294967295ULL, 4294967296ULL, 1ULL << 40, (1ULL << 63) + 5};
static uint64_t real_id(int64_t mid) {
    if (mid < 0 || mid >= static_cast<int64_t>(sizeof(ID_TAB) / sizeof(ID_TAB[0]))) throw vh::Mismatch(-1, "known id token", mid);
    return ID_TAB[mid];
}
template <typename V> V real_val(int64_t v) { return static_cast<V>(v * 100 + 7); }

namespace mmns = osmium::index::multimap;

template <typename V>
struct Multi {
    virtual ~Multi() = default;
    virtual void set(uint64_t id, V v) = 0;
    virtual void uset(uint64_t id, V v) = 0;
    virtual void sort() = 0;
    virtual void remove(uint64_t id, V v) = 0;
    virtual void erase() = 0;
    virtual void consolidate() = 0;
    virtual void dump(int fd) = 0;
    virtual std::vector<V> get_all(uint64_t id, int k) = 0;
};

template <typename C> void do_erase(C&, std::false_type) { throw vh::Mismatch(-1, "a class with erase_removed()", "none"); }
template <typename C> void do_erase(C& c, std::true_type) { c.erase_removed(); }

// raw: get_all() hands out iterators into the container, removed pairs are still there (value = empty value) and are
// no entries; Hybrid's iterator claims to skip them itself, so nothing is filtered for it.
template <typename C, typename V, bool CanErase, bool Raw>
struct MultiImpl : Multi<V> {
    C c;
    MultiImpl() : c() {}
    explicit MultiImpl(int fd) : c(fd) {}
    mmns::Multimap<uint64_t, V>& base() { return c; }
    void set(uint64_t id, V v) override { base().set(id, v); }          // through the virtual interface
    void uset(uint64_t id, V v) override { c.unsorted_set(id, v); }
    void sort() override { base().sort(); }
    void remove(uint64_t id, V v) override { c.remove(id, v); }
    void erase() override { do_erase(c, std::integral_constant<bool, CanErase>{}); }
    void consolidate() override { c.consolidate(); }
    void dump(int fd) override { base().dump_as_list(fd); }
    std::vector<V> get_all(uint64_t id, int k) override {
        std::vector<V> out;
        auto r = c.get_all(id);
        for (auto it = r.first; it != r.second; ++it) {
            if (it->first != id) throw vh::Mismatch(k, id, static_cast<uint64_t>(it->first), "get_all(" + std::to_string(id) + "): id of a pair in the range");
            const V val = (*it).second;
            if (Raw && val == osmium::index::empty_value<V>()) continue;
            out.push_back(val);
        }
        std::sort(out.begin(), out.end());
        return out;
    }
};

template <typename V>
static std::unique_ptr<Multi<V>> make_multi(const std::string& b) {
    if (b == "vector") return std::unique_ptr<Multi<V>>(new MultiImpl<mmns::SparseMemArray<uint64_t, V>, V, true, true>{});
    if (b == "mmap") return std::unique_ptr<Multi<V>>(new MultiImpl<mmns::SparseMmapArray<uint64_t, V>, V, false, true>{});
    if (b == "file") return std::unique_ptr<Multi<V>>(new MultiImpl<mmns::SparseFileArray<uint64_t, V>, V, false, true>{});
    if (b == "stdmm") return std::unique_ptr<Multi<V>>(new MultiImpl<mmns::SparseMemMultimap<uint64_t, V>, V, false, true>{});
    if (b == "hybrid") return std::unique_ptr<Multi<V>>(new MultiImpl<mmns::Hybrid<uint64_t, V>, V, false, false>{});
    throw vh::Mismatch(-1, "known multimap class", b);
}

template <typename V>
static void run_multi_t(const json& c, const std::string& vname) {
    const json& steps = c["steps"];
    std::unique_ptr<Multi<V>> m;
    std::vector<std::string> files;
    std::vector<int> fds;
    struct Cleanup {
        std::vector<std::string>& files;
        std::vector<int>& fds;
        ~Cleanup() {
            for (int fd : fds) ::close(fd);
            for (const auto& f : files) ::unlink(f.c_str());
        }
    } cleanup{files, fds};
    std::string b;
    int k = 0;
    for (const auto& st : steps) {
        vh::step_marker(k);
        const std::string a = st["a"];
        const std::string who = "type=" + (a == "new" ? st["b"].get<std::string>() : b) + "<" + vname + "> " + a;
        if (a == "new") {
            b = st["b"];
            m = make_multi<V>(b);
        } else if (a == "set") {
            m->set(real_id(st["id"]), real_val<V>(st["v"]));
        } else if (a == "uset") {
            m->uset(real_id(st["id"]), real_val<V>(st["v"]));
        } else if (a == "sort") {
            m->sort();
        } else if (a == "remove") {
            m->remove(real_id(st["id"]), real_val<V>(st["v"]));
        } else if (a == "erase") {
            m->erase();
        } else if (a == "consolidate") {
            m->consolidate();
        } else if (a == "reload") {
            const std::string path = fresh_path();
            files.push_back(path);
            const int fd = ::open(path.c_str(), O_CREAT | O_RDWR | O_TRUNC, 0644);
            if (fd < 0) throw std::runtime_error{"harness: can not create " + path};
            fds.push_back(fd);
            m->dump(fd);
            // the list: pairs <id, value>; pairs holding the empty value are no entries
            using P = std::pair<uint64_t, V>;
            const std::vector<unsigned char> data = read_all(fd);
            if (data.size() % sizeof(P) != 0) throw vh::Mismatch(k, "a multiple of the pair size", data.size(), who + ": size of the dumped list");
            std::vector<std::pair<uint64_t, uint64_t>> got;
            for (std::size_t i = 0; i < data.size() / sizeof(P); ++i) {
                P p;
                std::memcpy(static_cast<void*>(&p), data.data() + i * sizeof(P), sizeof(P));
                if (p.second == osmium::index::empty_value<V>()) continue;
                got.emplace_back(p.first, static_cast<uint64_t>(p.second));
            }
            std::sort(got.begin(), got.end());
            std::vector<std::pair<uint64_t, uint64_t>> want;
            for (const auto& pr : st["dump"]) want.emplace_back(real_id(pr[0]), static_cast<uint64_t>(real_val<V>(pr[1])));
            std::sort(want.begin(), want.end());
            if (got != want) throw vh::Mismatch(k, json(want), json(got), who + ": pairs written by dump_as_list");
            // (fds of the old object, if any, are closed at the end of the case)
            m.reset();
            m.reset(new MultiImpl<mmns::SparseFileArray<uint64_t, V>, V, false, true>{fd});
            b = "file";
        } else {
            throw vh::Mismatch(k, "known action", a);
        }
        VH_EXPECT(k, st["b"].get<std::string>(), b, who + ": class the history continues on");
        if (st["def"].get<bool>()) {
            for (const auto& pr : st["tab"]) {
                const uint64_t id = real_id(pr[0]);
                std::vector<V> want;
                for (const auto& v : pr[1]) want.push_back(real_val<V>(v));
                std::sort(want.begin(), want.end());
                const std::vector<V> got = m->get_all(id, k);
                if (got != want) throw vh::Mismatch(k, json(want), json(got), who + ": values of get_all(" + std::to_string(id) + ")");
            }
        }
        ++k;
    }
}

static void run_multi(const json& c) {
    for (const auto& t : c["vtypes"]) {
        if (t == "u64") run_multi_t<uint64_t>(c, "uint64_t");
        else if (t == "u32") run_multi_t<uint32_t>(c, "uint32_t");
        else throw vh::Mismatch(-1, "known value type", t);
    }
}

int main() {
    const int first_fd = ::dup(0);                  // lowest descriptor an object under test can get
    ::close(first_fd);
    return vh::run_cases([first_fd](const json& c) {
        // mmap_vector_file never closes its descriptor (a leak the property does not talk about)
        struct CloseFds {
            int from;
            ~CloseFds() { for (int fd = from; fd < from + 64; ++fd) ::close(fd); }
        } close_fds{first_fd};
        const std::string kind = c["kind"];
        if (kind == "mm") run_mm(c);
        else if (kind == "vec") run_vec(c);
        else if (kind == "multi") run_multi(c);
        else throw vh::Mismatch(-1, "known kind", kind);
    });
}
