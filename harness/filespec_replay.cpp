// C01 extension replay: cases exported by TLC from specs/FileSpec.tla (osmium::io::File), FileSpecMd.tla
// (osmium::metadata_options), FileSpecHeader.tla (osmium::io::Header, osmium::Options, osmium::Box::extend) and
// FileSpecCrc.tla (osmium::CRC<>) are replayed on the real classes; the expected observation after every step comes
// from the spec.  Strings are token sequences in the specs; they are joined here ('.' file name / format part,
// ',' format string, '+' option value).
//
// usage: filespec_replay <scratch dir>      (NDJSON cases on stdin, one NDJSON result per case on stdout)
#include "common/vh.hpp"

#include <osmium/builder/attr.hpp>
#include <osmium/builder/osm_object_builder.hpp>
#include <osmium/io/opl_input.hpp>
#include <osmium/io/opl_output.hpp>
#include <osmium/io/pbf_input.hpp>
#include <osmium/io/pbf_output.hpp>
#include <osmium/io/xml_input.hpp>
#include <osmium/io/xml_output.hpp>
#include <osmium/io/file.hpp>
#include <osmium/io/header.hpp>
#include <osmium/memory/buffer.hpp>
#include <osmium/osm.hpp>
#include <osmium/osm/crc.hpp>
#include <osmium/osm/crc_zlib.hpp>
#include <osmium/osm/metadata_options.hpp>

#include <zlib.h>

#include <cstdint>
#include <cstring>
#include <map>
#include <memory>
#include <set>
#include <sstream>
#include <string>
#include <typeinfo>
#include <vector>

using vh::json;

namespace {

std::string g_dir;

struct CaseError : public std::runtime_error {
    explicit CaseError(const std::string& w) : std::runtime_error("case: " + w) {}
};

std::string join(const json& toks, char sep, const char* forbidden) {
    std::string s;
    bool first = true;
    for (const auto& t : toks) {
        const std::string v = t.get<std::string>();
        if (v.find_first_of(forbidden) != std::string::npos) throw CaseError{"token '" + v + "' contains a separator"};
        if (!first) s += sep;
        s += v;
        first = false;
    }
    return s;
}

std::string value_str(const json& v) { return join(v, '+', "+,"); }
std::string name_str(const json& n) { return join(n, '.', "."); }

std::string part_str(const json& p) {
    if (p.at("t") == "fmt") return join(p.at("sfx"), '.', ".,=");
    const std::string k = p.at("k").get<std::string>();
    if (k.find_first_of(",=") != std::string::npos) throw CaseError{"option key contains a separator"};
    if (!p.at("eq").get<bool>()) return k;
    return k + "=" + value_str(p.at("v"));
}

std::string fs_str(const json& fs) {
    std::string s;
    bool first = true;
    for (const auto& p : fs) {
        if (!first) s += ',';
        s += part_str(p);
        first = false;
    }
    return s;
}

// option part [k, eq, v] without the "t" field (Options::set(data))
std::string data_str(const json& p) {
    const std::string k = p.at("k").get<std::string>();
    if (k.find('=') != std::string::npos) throw CaseError{"option key contains '='"};
    return p.at("eq").get<bool>() ? k + "=" + value_str(p.at("v")) : k;
}

json sorted_set(const json& arr) {
    std::set<std::string> s;
    for (const auto& x : arr) s.insert(x.get<std::string>());
    return json(s);
}

// ------------------------------------------------------------------ osmium::Options (base of File and Header)

json opts_exp(const json& e) {      // {key: [tokens]} (or [] when empty) -> {key: "text"}
    json o = json::object();
    if (e.is_array()) {
        if (!e.empty()) throw CaseError{"options exported as a non-empty array"};
        return o;
    }
    for (auto it = e.begin(); it != e.end(); ++it) o[it.key()] = value_str(it.value());
    return o;
}

json opts_got(const osmium::Options& o) {
    json g = json::object();
    std::size_t n = 0;
    std::string prev;
    for (auto it = o.begin(); it != o.end(); ++it, ++n) {
        if (n > 0 && !(prev < it->first)) throw vh::Mismatch(-1, "keys ascending and unique", it->first, "Options iteration");
        prev = it->first;
        g[it->first] = it->second;
    }
    std::size_t m = 0;
    for (auto it = o.cbegin(); it != o.cend(); ++it) ++m;
    if (m != n) throw vh::Mismatch(-1, n, m, "Options cbegin/cend");
    if (o.size() != n) throw vh::Mismatch(-1, n, o.size(), "Options::size()");
    if (o.empty() != (n == 0)) throw vh::Mismatch(-1, n == 0, o.empty(), "Options::empty()");
    return g;
}

void check_probes(int step, const osmium::Options& o, const json& probes) {
    for (auto it = probes.begin(); it != probes.end(); ++it) {
        const std::string& k = it.key();
        const json& p = it.value();
        const std::string note = "option '" + k + "' ";
        VH_EXPECT(step, value_str(p.at("get")), o.get(k), note + "get(key)");
        VH_EXPECT(step, value_str(p.at("dflt")), o.get(k, "dflt"), note + "get(key, default)");
        VH_EXPECT(step, p.at("t").get<bool>(), o.is_true(k), note + "is_true");
        VH_EXPECT(step, p.at("f").get<bool>(), o.is_false(k), note + "is_false");
        VH_EXPECT(step, p.at("nf").get<bool>(), o.is_not_false(k), note + "is_not_false");
    }
}

// ------------------------------------------------------------------ osmium::metadata_options

json md_fields(const osmium::metadata_options& m) {
    std::set<std::string> s;
    if (m.version()) s.insert("version");
    if (m.timestamp()) s.insert("timestamp");
    if (m.changeset()) s.insert("changeset");
    if (m.uid()) s.insert("uid");
    if (m.user()) s.insert("user");
    return json(s);
}

json md_of_string(const std::string& text) {
    try {
        const osmium::metadata_options m{text};
        return md_fields(m);
    } catch (const std::invalid_argument&) {
        return json(std::set<std::string>{"error"});
    }
}

void md_observe(int step, const osmium::metadata_options& m, const json& exp) {
    VH_EXPECT(step, sorted_set(exp.at("bits")), md_fields(m), "metadata_options field accessors");
    VH_EXPECT(step, exp.at("any").get<bool>(), m.any(), "any()");
    VH_EXPECT(step, exp.at("all").get<bool>(), m.all(), "all()");
    VH_EXPECT(step, exp.at("none").get<bool>(), m.none(), "none()");
    const std::string text = join(exp.at("str"), '+', "");
    VH_EXPECT(step, text, m.to_string(), "to_string()");
    std::ostringstream ss;
    ss << m;
    VH_EXPECT(step, text, ss.str(), "operator<<");
}

void run_md(const json& c) {
    const json& steps = c.at("steps");
    std::unique_ptr<osmium::metadata_options> m;
    int k = 0;
    for (const auto& s : steps) {
        vh::step_marker(k);
        const std::string a = s.at("a").get<std::string>();
        const json& exp = s.at("exp");
        if (a == "construct") {
            const bool dflt = s.at("x") == json::array({"(default)"});
            const std::string text = dflt ? std::string{} : join(s.at("x"), '+', "");
            if (exp.contains("error")) {
                try {
                    const osmium::metadata_options x{text};
                    throw vh::Mismatch(k, "std::invalid_argument", md_fields(x), "metadata_options(\"" + text + "\") accepted");
                } catch (const std::invalid_argument& e) {
                    if (typeid(e) != typeid(std::invalid_argument)) throw vh::Mismatch(k, "std::invalid_argument", typeid(e).name(), "exception class");
                    const std::string want = "Unknown OSM object metadata attribute: '" + exp.at("item").get<std::string>() + "'";
                    VH_EXPECT(k, want, std::string{e.what()}, "exception message of metadata_options(\"" + text + "\")");
                }
                return;
            }
            try {
                if (dflt) m = std::make_unique<osmium::metadata_options>();
                else m = std::make_unique<osmium::metadata_options>(text);
            } catch (const std::exception& e) {
                throw vh::Mismatch(k, exp.at("bits"), std::string{"exception: "} + e.what(), "metadata_options(\"" + text + "\")");
            }
        } else if (a == "set") {
            const std::string f = s.at("x").at("f").get<std::string>();
            const bool b = s.at("x").at("b").get<bool>();
            if (f == "version") m->set_version(b);
            else if (f == "timestamp") m->set_timestamp(b);
            else if (f == "changeset") m->set_changeset(b);
            else if (f == "uid") m->set_uid(b);
            else if (f == "user") m->set_user(b);
            else throw CaseError{"field " + f};
        } else if (a == "and" || a == "or") {
            const osmium::metadata_options other{join(s.at("x"), '+', "")};
            const osmium::metadata_options r = (a == "and") ? (*m &= other) : (*m |= other);
            VH_EXPECT(k, sorted_set(exp.at("bits")), md_fields(r), "value returned by operator" + std::string{a == "and" ? "&=" : "|="});
        } else if (a == "reparse") {
            m = std::make_unique<osmium::metadata_options>(m->to_string());
        } else {
            throw CaseError{"md action " + a};
        }
        md_observe(k, *m, exp);
        ++k;
    }
}

// ------------------------------------------------------------------ osmium::io::File

const char* format_token(osmium::io::file_format f) {
    switch (f) {
        case osmium::io::file_format::unknown: return "unknown";
        case osmium::io::file_format::xml: return "xml";
        case osmium::io::file_format::pbf: return "pbf";
        case osmium::io::file_format::opl: return "opl";
        case osmium::io::file_format::json: return "json";
        case osmium::io::file_format::o5m: return "o5m";
        case osmium::io::file_format::debug: return "debug";
        case osmium::io::file_format::blackhole: return "blackhole";
        case osmium::io::file_format::ids: return "ids";
    }
    return "?";
}

osmium::io::file_format format_of(const std::string& t) {
    for (int i = 0; i <= static_cast<int>(osmium::io::file_format::last); ++i) {
        if (t == format_token(static_cast<osmium::io::file_format>(i))) return static_cast<osmium::io::file_format>(i);
    }
    throw CaseError{"format token " + t};
}

const char* comp_token(osmium::io::file_compression c) {
    switch (c) {
        case osmium::io::file_compression::none: return "none";
        case osmium::io::file_compression::gzip: return "gzip";
        case osmium::io::file_compression::bzip2: return "bzip2";
    }
    return "?";
}

osmium::io::file_compression comp_of(const std::string& t) {
    if (t == "none") return osmium::io::file_compression::none;
    if (t == "gzip") return osmium::io::file_compression::gzip;
    if (t == "bzip2") return osmium::io::file_compression::bzip2;
    throw CaseError{"compression token " + t};
}

std::string upper(std::string s) {
    for (auto& ch : s) ch = static_cast<char>(std::toupper(static_cast<unsigned char>(ch)));
    return s;
}

void file_observe(int step, const osmium::io::File& f, const json& exp) {
    VH_EXPECT(step, name_str(exp.at("filename")), f.filename(), "filename()");
    const std::string ft = exp.at("format").get<std::string>();
    VH_EXPECT(step, ft, std::string{format_token(f.format())}, "format()");
    VH_EXPECT(step, ft == "unknown" ? std::string{"unknown"} : upper(ft), std::string{osmium::io::as_string(f.format())}, "as_string(format())");
    VH_EXPECT(step, exp.at("compression").get<std::string>(), std::string{comp_token(f.compression())}, "compression()");
    VH_EXPECT(step, exp.at("compression").get<std::string>(), std::string{osmium::io::as_string(f.compression())}, "as_string(compression())");
    {
        std::ostringstream ss;
        ss << f.format() << "/" << f.compression();
        VH_EXPECT(step, (ft == "unknown" ? std::string{"unknown"} : upper(ft)) + "/" + exp.at("compression").get<std::string>(), ss.str(), "operator<< of format and compression");
    }
    VH_EXPECT(step, exp.at("multi").get<bool>(), f.has_multiple_object_versions(), "has_multiple_object_versions()");
    json got;
    try {
        got = opts_got(f);
    } catch (vh::Mismatch& m) {
        m.step = step;
        throw;
    }
    VH_EXPECT(step, opts_exp(exp.at("opts")), got, "options (begin()..end())");
    check_probes(step, f, exp.at("probes"));
    // the option vector as the output formats read it
    const json& v = exp.at("view");
    const bool change = f.format() == osmium::io::file_format::xml && f.is_true("xml_change_format");
    VH_EXPECT(step, v.at("fmt").get<std::string>(), change ? std::string{"xmlchange"} : std::string{format_token(f.format())}, "view: format / xml_change_format");
    VH_EXPECT(step, v.at("dense").get<bool>(), f.is_not_false("pbf_dense_nodes"), "view: is_not_false(pbf_dense_nodes)");
    VH_EXPECT(step, v.at("low").get<bool>(), f.is_true("locations_on_ways"), "view: is_true(locations_on_ways)");
    VH_EXPECT(step, v.at("hist").get<bool>(), f.has_multiple_object_versions(), "view: history");
    VH_EXPECT(step, v.at("fcomp").get<std::string>(), std::string{comp_token(f.compression())}, "view: file compression");
    VH_EXPECT(step, sorted_set(v.at("md")), md_of_string(f.get("add_metadata")), "view: metadata_options{get(add_metadata)} for '" + f.get("add_metadata") + "'");
}

void run_file(const json& c) {
    static const char data[] = "<osm/>";
    const std::string ctor = c.at("ctor").get<std::string>();
    const std::string name = name_str(c.at("name"));
    const std::string fs = fs_str(c.at("fs"));
    const json& steps = c.at("steps");
    std::unique_ptr<osmium::io::File> f;
    std::string last_filename;
    int k = 0;
    for (const auto& s : steps) {
        vh::step_marker(k);
        const std::string a = s.at("a").get<std::string>();
        const json& exp = s.at("exp");
        if (a == "construct") {
            if (ctor == "buffer") {
                if (fs.empty() && c.at("fs").empty()) f = std::make_unique<osmium::io::File>(data, sizeof(data) - 1);
                else f = std::make_unique<osmium::io::File>(data, sizeof(data) - 1, fs);
                VH_EXPECT(k, true, f->buffer() == data && f->buffer_size() == sizeof(data) - 1, "buffer() / buffer_size()");
            } else {
                // the defaulted arguments are exercised where the strings are empty
                if (c.at("fs").empty() && c.at("name").empty()) f = std::make_unique<osmium::io::File>();
                else if (c.at("fs").empty()) f = std::make_unique<osmium::io::File>(name);
                else f = std::make_unique<osmium::io::File>(name, fs);
                VH_EXPECT(k, true, f->buffer() == nullptr && f->buffer_size() == 0, "buffer() / buffer_size() of a named file");
            }
            file_observe(k, *f, exp);
            // a copy is the same file
            const osmium::io::File copy{*f};
            file_observe(k, copy, exp);
            last_filename = name_str(exp.at("filename"));
        } else if (a == "setter") {
            const json& x = s.at("x");
            const std::string op = x.at("op").get<std::string>();
            osmium::io::File* r = f.get();
            if (op == "set_format") r = &f->set_format(format_of(x.at("f").get<std::string>()));
            else if (op == "set_compression") r = &f->set_compression(comp_of(x.at("f").get<std::string>()));
            else if (op == "set_multi") r = &f->set_has_multiple_object_versions(x.at("b").get<bool>());
            else if (op == "filename") r = &f->filename(name_str(x.at("n")));
            else if (op == "set") {
                if (k % 2 == 0) f->set(x.at("k").get<std::string>(), value_str(x.at("v")));
                else f->set(x.at("k").get<std::string>(), value_str(x.at("v")).c_str());
            } else if (op == "set_bool") f->set(x.at("k").get<std::string>(), x.at("b").get<bool>());
            else if (op == "set_data") f->set(data_str(x.at("p")));
            else throw CaseError{"setter " + op};
            VH_EXPECT(k, true, r == f.get(), op + " returns the file itself");
            file_observe(k, *f, exp);
            last_filename = name_str(exp.at("filename"));
        } else if (a == "check") {
            const bool ok = exp.at("ok").get<bool>();
            std::string want = "Could not detect file format";
            if (exp.at("withfs").get<bool>()) want += " from format string '" + fs + "'";
            if (exp.at("stdio").get<bool>()) want += " for stdin/stdout";
            else want += " for filename '" + last_filename + "'";
            want += ".";
            try {
                const osmium::io::File& r = f->check();
                if (!ok) throw vh::Mismatch(k, "osmium::io_error: " + want, "check() returned", "check() accepted a file of unknown format");
                VH_EXPECT(k, true, &r == f.get(), "check() returns the file itself");
            } catch (const vh::Mismatch&) {
                throw;
            } catch (const std::exception& e) {
                const std::string cls = typeid(e) == typeid(osmium::io_error) ? "osmium::io_error" : typeid(e).name();
                if (ok) throw vh::Mismatch(k, "check() returns", cls + ": " + e.what(), "check() rejected a file whose format is known");
                VH_EXPECT(k, std::string{"osmium::io_error"}, cls, "exception class of check()");
                VH_EXPECT(k, true, dynamic_cast<const std::runtime_error*>(&e) != nullptr, "io_error is a std::runtime_error");
                VH_EXPECT(k, want, std::string{e.what()}, "message of check()");
            }
        } else {
            throw CaseError{"file action " + a};
        }
        ++k;
    }
}

// ------------------------------------------------------------------ osmium::io::Header

int32_t coord_x(int t) {
    switch (t) {
        case -2: return -1800000000;
        case -1: return -1;
        case 0: return 0;
        case 1: return 1;
        case 2: return 1800000000;
        case 9: return 1800000001;
        case 99: return osmium::Location::undefined_coordinate;
        default: throw CaseError{"x coordinate token"};
    }
}

int32_t coord_y(int t) {
    switch (t) {
        case -2: return -900000000;
        case -1: return -1;
        case 0: return 0;
        case 1: return 1;
        case 2: return 900000000;
        case 9: return 900000001;
        case 99: return osmium::Location::undefined_coordinate;
        default: throw CaseError{"y coordinate token"};
    }
}

osmium::Location hloc(const json& l) { return osmium::Location{coord_x(l.at("x").get<int>()), coord_y(l.at("y").get<int>())}; }

osmium::Box hbox(const json& b) {
    osmium::Box box;
    box.bottom_left() = hloc(b.at("bl"));
    box.top_right() = hloc(b.at("tr"));
    return box;
}

json box_json(const osmium::Box& b) {
    return json::array({b.bottom_left().x(), b.bottom_left().y(), b.top_right().x(), b.top_right().y()});
}

json box_exp(const json& b) { return box_json(hbox(b)); }

void header_observe(int step, const osmium::io::Header& h, const json& exp) {
    json got;
    try {
        got = opts_got(h);
    } catch (vh::Mismatch& m) {
        m.step = step;
        throw;
    }
    VH_EXPECT(step, opts_exp(exp.at("opts")), got, "header options");
    VH_EXPECT(step, exp.at("size").get<std::size_t>(), h.size(), "size()");
    VH_EXPECT(step, exp.at("empty").get<bool>(), h.empty(), "empty()");
    check_probes(step, h, exp.at("probes"));
    json eb = json::array();
    for (const auto& b : exp.at("boxes")) eb.push_back(box_exp(b));
    json gb = json::array();
    for (const auto& b : h.boxes()) gb.push_back(box_json(b));
    VH_EXPECT(step, eb, gb, "boxes()");
    VH_EXPECT(step, box_exp(exp.at("box")), box_json(h.box()), "box()");
    VH_EXPECT(step, box_exp(exp.at("joined")), box_json(h.joined_boxes()), "joined_boxes()");
    VH_EXPECT(step, exp.at("multi").get<bool>(), h.has_multiple_object_versions(), "has_multiple_object_versions()");
}

void run_header(const json& c) {
    const json& steps = c.at("steps");
    std::unique_ptr<osmium::io::Header> h;
    int k = 0;
    for (const auto& s : steps) {
        vh::step_marker(k);
        const std::string a = s.at("a").get<std::string>();
        const json& x = s.at("x");
        if (a == "construct") {
            std::vector<std::pair<std::string, std::string>> kv;
            for (const auto& p : x) kv.emplace_back(p.at(0).get<std::string>(), value_str(p.at(1)));
            switch (kv.size()) {
                case 0: h = std::make_unique<osmium::io::Header>(); break;
                case 1: h.reset(new osmium::io::Header{{kv[0].first, kv[0].second}}); break;
                case 2: h.reset(new osmium::io::Header{{kv[0].first, kv[0].second}, {kv[1].first, kv[1].second}}); break;
                case 3: h.reset(new osmium::io::Header{{kv[0].first, kv[0].second}, {kv[1].first, kv[1].second}, {kv[2].first, kv[2].second}}); break;
                default: throw CaseError{"initializer list too long"};
            }
        } else if (a == "set") {
            if (k % 2 == 0) h->set(x.at("k").get<std::string>(), value_str(x.at("v")));
            else h->set(x.at("k").get<std::string>(), value_str(x.at("v")).c_str());
        } else if (a == "set_bool") {
            h->set(x.at("k").get<std::string>(), x.at("b").get<bool>());
        } else if (a == "set_data") {
            h->set(data_str(x));
        } else if (a == "add_box") {
            osmium::io::Header& r = h->add_box(hbox(x));
            VH_EXPECT(k, true, &r == h.get(), "add_box returns the header itself");
        } else if (a == "boxes") {
            std::vector<osmium::Box> v;
            for (const auto& b : x) v.push_back(hbox(b));
            osmium::io::Header& r = h->boxes(v);
            VH_EXPECT(k, true, &r == h.get(), "boxes(vector) returns the header itself");
        } else if (a == "set_multi") {
            osmium::io::Header& r = h->set_has_multiple_object_versions(x.at("b").get<bool>());
            VH_EXPECT(k, true, &r == h.get(), "set_has_multiple_object_versions returns the header itself");
        } else {
            throw CaseError{"header action " + a};
        }
        header_observe(k, *h, s.at("exp"));
        const osmium::io::Header copy{*h};
        header_observe(k, copy, s.at("exp"));
        ++k;
    }
}

// ------------------------------------------------------------------ osmium::CRC

struct Recorder {
    std::string bytes;
    void process_byte(unsigned char b) { bytes.push_back(static_cast<char>(b)); }
    void process_bytes(const void* p, std::size_t n) { bytes.append(static_cast<const char*>(p), n); }
    unsigned long checksum() const { return 0; }     // NOLINT
};

int64_t num(const std::string& cls, const std::string& t) {
    if (t == "0") return 0;
    if (cls == "id" || cls == "ref") return t == "a" ? 0x0102030405060708LL : -2;
    if (cls == "csid" || cls == "cs") return t == "a" ? 0x01020304LL : 4294967294LL;
    if (cls == "version") return t == "a" ? 0x01020304LL : 2147483647LL;
    if (cls == "time") return t == "a" ? 1000000000LL : 1709251199LL;
    if (cls == "uid") return t == "a" ? 0x0A0B0C0DLL : 2147483647LL;
    if (cls == "count") return t == "a" ? 0x01020304LL : 4294967294LL;
    if (cls == "coord") return t == "a" ? 123456789LL : t == "b" ? -456789012LL : t == "u" ? 2147483647LL : throw CaseError{"coord token " + t};
    if (cls == "mtype") return t == "node" ? 1 : t == "way" ? 2 : t == "relation" ? 3 : throw CaseError{"member type " + t};
    if (cls == "bool") return t == "true" ? 1 : t == "false" ? 0 : throw CaseError{"bool token " + t};
    throw CaseError{"field class " + cls};
}

std::string chars(const json& toks) {
    std::string s;
    for (const auto& t : toks) {
        const std::string v = t.get<std::string>();
        if (v == "L") s += std::string(300, 'L');
        else s += v;
    }
    return s;
}

// the bytes the spec's feed stands for: integers little-endian, characters as they are
std::string feed_bytes(const json& feed, std::vector<std::size_t>* starts = nullptr) {
    std::string out;
    for (const auto& it : feed) {
        if (starts) starts->push_back(out.size());
        const int w = it.at("w").get<int>();
        const std::string f = it.at("f").get<std::string>();
        const std::string v = it.at("v").get<std::string>();
        if (f == "char") {
            out += chars(json::array({v}));
            continue;
        }
        const uint64_t x = static_cast<uint64_t>(num(f, v));
        for (int i = 0; i < w / 8; ++i) out.push_back(static_cast<char>((x >> (8U * static_cast<unsigned>(i))) & 0xffU));
    }
    return out;
}

osmium::Location cloc(const json& l) {
    return osmium::Location{static_cast<int32_t>(num("coord", l.at("x").get<std::string>())), static_cast<int32_t>(num("coord", l.at("y").get<std::string>()))};
}

osmium::item_type mtype(const std::string& t) { return static_cast<osmium::item_type>(num("mtype", t)); }

template <typename TL>
void fill_tags(TL& tl, const json& tags) {
    int i = 0;
    for (const auto& t : tags) {
        const std::string k = chars(t.at("k"));
        const std::string v = chars(t.at("v"));
        switch (i++ % 4) {      // the overloads of add_tag
            case 0: tl.add_tag(k, v); break;
            case 1: tl.add_tag(k.c_str(), v.c_str()); break;
            case 2: tl.add_tag(k.data(), k.size(), v.data(), v.size()); break;
            default: tl.add_tag(std::pair<const char*, const char*>{k.c_str(), v.c_str()}); break;
        }
    }
}

template <typename NL>
void fill_nodes(NL& nl, const json& nodes) {
    int i = 0;
    for (const auto& n : nodes) {
        const int64_t ref = num("ref", n.at("ref").get<std::string>());
        if (i++ % 2 == 0) nl.add_node_ref(ref, cloc(n.at("loc")));
        else nl.add_node_ref(osmium::NodeRef{ref, cloc(n.at("loc"))});
    }
}

void fill_sub(osmium::builder::Builder& parent, const json& sub) {
    const std::string kind = sub.at("kind").get<std::string>();
    const json& d = sub.at("data");
    if (kind == "tags") {
        osmium::builder::TagListBuilder b{parent};
        fill_tags(b, d);
    } else if (kind == "nodes") {
        osmium::builder::WayNodeListBuilder b{parent};
        fill_nodes(b, d);
    } else if (kind == "outer") {
        osmium::builder::OuterRingBuilder b{parent};
        fill_nodes(b, d);
    } else if (kind == "inner") {
        osmium::builder::InnerRingBuilder b{parent};
        fill_nodes(b, d);
    } else if (kind == "members") {
        osmium::builder::RelationMemberListBuilder b{parent};
        int i = 0;
        for (const auto& m : d) {
            const std::string role = chars(m.at("role"));
            const int64_t ref = num("ref", m.at("ref").get<std::string>());
            switch (i++ % 3) {
                case 0: b.add_member(mtype(m.at("mt").get<std::string>()), ref, role); break;
                case 1: b.add_member(mtype(m.at("mt").get<std::string>()), ref, role.c_str()); break;
                default: b.add_member(mtype(m.at("mt").get<std::string>()), ref, role.data(), role.size()); break;
            }
        }
    } else if (kind == "disc") {
        osmium::builder::ChangesetDiscussionBuilder b{parent};
        for (const auto& cm : d) {
            b.add_comment(osmium::Timestamp{static_cast<uint32_t>(num("time", cm.at("date").get<std::string>()))},
                          static_cast<osmium::user_id_type>(num("uid", cm.at("uid").get<std::string>())), chars(cm.at("user")).c_str());
            b.add_comment_text(chars(cm.at("text")));
        }
    } else {
        throw CaseError{"sub-item kind " + kind};
    }
}

template <typename B>
void set_object_fields(B& b, const json& c, bool reverse) {
    const int64_t id = num("id", c.at("id").get<std::string>());
    const auto ver = static_cast<osmium::object_version_type>(num("version", c.at("ver").get<std::string>()));
    const osmium::Timestamp ts{static_cast<uint32_t>(num("time", c.at("ts").get<std::string>()))};
    const auto cs = static_cast<osmium::changeset_id_type>(num("cs", c.at("cs").get<std::string>()));
    const auto uid = static_cast<osmium::user_id_type>(num("uid", c.at("uid").get<std::string>()));
    const bool vis = c.at("vis").get<bool>();
    const std::string user = chars(c.at("user"));
    if (!reverse) {
        b.set_id(id).set_version(ver).set_timestamp(ts).set_changeset(cs).set_uid(uid).set_visible(vis);
        b.set_user(user);
    } else {
        b.set_user(user.data(), static_cast<osmium::string_size_type>(user.size()));
        b.set_visible(vis).set_uid(uid).set_changeset(cs).set_timestamp(ts).set_version(ver).set_id(id);
    }
}

osmium::Box cs_bounds(const json& cset) {
    osmium::Box box;
    box.bottom_left() = cloc(cset.at("bl"));
    box.top_right() = cloc(cset.at("tr"));
    return box;
}

void set_changeset_fields(osmium::builder::ChangesetBuilder& b, const json& c, bool reverse) {
    const json& cs = c.at("cset");
    const auto id = static_cast<osmium::changeset_id_type>(num("csid", c.at("id").get<std::string>()));
    const osmium::Timestamp created{static_cast<uint32_t>(num("time", cs.at("created").get<std::string>()))};
    const osmium::Timestamp closed{static_cast<uint32_t>(num("time", cs.at("closed").get<std::string>()))};
    const auto nch = static_cast<osmium::num_changes_type>(num("count", cs.at("nch").get<std::string>()));
    const auto ncm = static_cast<osmium::num_comments_type>(num("count", cs.at("ncm").get<std::string>()));
    const auto uid = static_cast<osmium::user_id_type>(num("uid", c.at("uid").get<std::string>()));
    const std::string user = chars(c.at("user"));
    if (!reverse) {
        b.set_id(id).set_created_at(created).set_closed_at(closed).set_num_changes(nch).set_num_comments(ncm).set_uid(uid).set_bounds(cs_bounds(cs));
        b.set_user(user);
    } else {
        b.set_user(user.c_str());
        b.set_bounds(cs_bounds(cs)).set_uid(uid).set_num_comments(ncm).set_num_changes(nch).set_closed_at(closed).set_created_at(created).set_id(id);
    }
}

// classic builders; sub-items in the order of the layout
void build_classic(osmium::memory::Buffer& buf, const json& c, const json& subs, bool reverse) {
    const std::string t = c.at("t").get<std::string>();
    if (t == "node") {
        osmium::builder::NodeBuilder b{buf};
        set_object_fields(b, c, reverse);
        b.set_location(cloc(c.at("loc")));
        for (const auto& s : subs) fill_sub(b, s);
    } else if (t == "way") {
        osmium::builder::WayBuilder b{buf};
        set_object_fields(b, c, reverse);
        for (const auto& s : subs) fill_sub(b, s);
    } else if (t == "relation") {
        osmium::builder::RelationBuilder b{buf};
        set_object_fields(b, c, reverse);
        for (const auto& s : subs) fill_sub(b, s);
    } else if (t == "area") {
        osmium::builder::AreaBuilder b{buf};
        set_object_fields(b, c, reverse);
        for (const auto& s : subs) fill_sub(b, s);
    } else if (t == "changeset") {
        osmium::builder::ChangesetBuilder b{buf};
        set_changeset_fields(b, c, reverse);
        for (const auto& s : subs) fill_sub(b, s);
    } else {
        throw CaseError{"type " + t};
    }
    buf.commit();
}

json canonical_subs(const json& c) {
    json subs = json::array();
    const std::string t = c.at("t").get<std::string>();
    if (!c.at("tags").empty()) subs.push_back({{"kind", "tags"}, {"data", c.at("tags")}});
    if (t == "way" && !c.at("nodes").empty()) subs.push_back({{"kind", "nodes"}, {"data", c.at("nodes")}});
    if (t == "relation" && !c.at("members").empty()) subs.push_back({{"kind", "members"}, {"data", c.at("members")}});
    if (t == "changeset" && !c.at("cset").at("disc").empty()) subs.push_back({{"kind", "disc"}, {"data", c.at("cset").at("disc")}});
    if (t == "area") for (const auto& r : c.at("rings")) subs.push_back({{"kind", r.at("outer").get<bool>() ? "outer" : "inner"}, {"data", r.at("nodes")}});
    return subs;
}

// the attribute-style builders of osmium/builder/attr.hpp (fixed sub-item order; a list is present iff its attribute is given)
bool build_attr(osmium::memory::Buffer& buf, const json& c, const json& subs) {
    using namespace osmium::builder::attr;      // NOLINT
    const std::string t = c.at("t").get<std::string>();
    if (t == "area") return false;
    bool want_tags = false, want_body = false;
    for (const auto& s : subs) {
        if (s.at("kind") == "tags") want_tags = true;
        else want_body = true;
    }
    std::vector<std::string> store;
    store.reserve(64);
    std::vector<std::pair<const char*, const char*>> tags;
    for (const auto& tg : c.at("tags")) {
        store.push_back(chars(tg.at("k")));
        store.push_back(chars(tg.at("v")));
        tags.emplace_back(store[store.size() - 2].c_str(), store[store.size() - 1].c_str());
    }
    const std::string user = chars(c.at("user"));
    const auto uid = static_cast<osmium::user_id_type>(num("uid", c.at("uid").get<std::string>()));
    if (t == "changeset") {
        const json& cs = c.at("cset");
        std::vector<comment_type> comments;
        for (const auto& cm : cs.at("disc")) {
            store.push_back(chars(cm.at("user")));
            store.push_back(chars(cm.at("text")));
            comments.emplace_back(osmium::Timestamp{static_cast<uint32_t>(num("time", cm.at("date").get<std::string>()))},
                                  static_cast<osmium::user_id_type>(num("uid", cm.at("uid").get<std::string>())),
                                  store[store.size() - 2].c_str(), store[store.size() - 1].c_str());
        }
        const auto id = _cid(static_cast<osmium::changeset_id_type>(num("csid", c.at("id").get<std::string>())));
        const auto a1 = _created_at(osmium::Timestamp{static_cast<uint32_t>(num("time", cs.at("created").get<std::string>()))});
        const auto a2 = _closed_at(osmium::Timestamp{static_cast<uint32_t>(num("time", cs.at("closed").get<std::string>()))});
        const auto a3 = _num_changes(static_cast<osmium::num_changes_type>(num("count", cs.at("nch").get<std::string>())));
        const auto a4 = _num_comments(static_cast<osmium::num_comments_type>(num("count", cs.at("ncm").get<std::string>())));
        std::size_t pos = 0;
        if (want_tags && want_body) pos = osmium::builder::add_changeset(buf, id, a1, a2, a3, a4, _uid(uid), _user(user.c_str()), _tags(tags), _comments(comments));
        else if (want_tags) pos = osmium::builder::add_changeset(buf, id, a1, a2, a3, a4, _uid(uid), _user(user.c_str()), _tags(tags));
        else if (want_body) pos = osmium::builder::add_changeset(buf, id, a1, a2, a3, a4, _uid(uid), _user(user.c_str()), _comments(comments));
        else pos = osmium::builder::add_changeset(buf, id, a1, a2, a3, a4, _uid(uid), _user(user.c_str()));
        buf.get<osmium::Changeset>(pos).bounds() = cs_bounds(cs);       // no attribute for the bounds: set on the finished object
        return true;
    }
    const auto id = _id(num("id", c.at("id").get<std::string>()));
    const auto ver = _version(static_cast<osmium::object_version_type>(num("version", c.at("ver").get<std::string>())));
    const auto ts = _timestamp(osmium::Timestamp{static_cast<uint32_t>(num("time", c.at("ts").get<std::string>()))});
    const auto cs = _cid(static_cast<osmium::changeset_id_type>(num("cs", c.at("cs").get<std::string>())));
    const auto vis = _visible(c.at("vis").get<bool>());
    const auto au = _uid(uid);
    const auto us = _user(user.c_str());
    if (t == "node") {
        const auto loc = _location(cloc(c.at("loc")));
        if (want_tags) osmium::builder::add_node(buf, id, ver, ts, cs, vis, au, us, loc, _tags(tags));
        else osmium::builder::add_node(buf, id, ver, ts, cs, vis, au, us, loc);
    } else if (t == "way") {
        std::vector<osmium::NodeRef> nodes;
        for (const auto& n : c.at("nodes")) nodes.emplace_back(num("ref", n.at("ref").get<std::string>()), cloc(n.at("loc")));
        if (want_tags && want_body) osmium::builder::add_way(buf, id, ver, ts, cs, vis, au, us, _tags(tags), _nodes(nodes));
        else if (want_tags) osmium::builder::add_way(buf, id, ver, ts, cs, vis, au, us, _tags(tags));
        else if (want_body) osmium::builder::add_way(buf, id, ver, ts, cs, vis, au, us, _nodes(nodes));
        else osmium::builder::add_way(buf, id, ver, ts, cs, vis, au, us);
    } else if (t == "relation") {
        std::vector<member_type> members;
        for (const auto& m : c.at("members")) {
            store.push_back(chars(m.at("role")));
            members.emplace_back(mtype(m.at("mt").get<std::string>()), num("ref", m.at("ref").get<std::string>()), store.back().c_str());
        }
        if (want_tags && want_body) osmium::builder::add_relation(buf, id, ver, ts, cs, vis, au, us, _tags(tags), _members(members));
        else if (want_tags) osmium::builder::add_relation(buf, id, ver, ts, cs, vis, au, us, _tags(tags));
        else if (want_body) osmium::builder::add_relation(buf, id, ver, ts, cs, vis, au, us, _members(members));
        else osmium::builder::add_relation(buf, id, ver, ts, cs, vis, au, us);
    }
    return true;
}

void add_dummy(osmium::memory::Buffer& buf, int64_t id) {
    osmium::builder::NodeBuilder b{buf};
    b.set_id(id).set_version(7).set_uid(9);
    b.set_user("someone else");
    osmium::builder::TagListBuilder tl{b};
    tl.add_tag("dummy", "yes");
}

template <typename TCRC>
void crc_update(osmium::CRC<TCRC>& crc, const osmium::memory::Item& item) {
    switch (item.type()) {
        case osmium::item_type::node: crc.update(static_cast<const osmium::Node&>(item)); break;
        case osmium::item_type::way: crc.update(static_cast<const osmium::Way&>(item)); break;
        case osmium::item_type::relation: crc.update(static_cast<const osmium::Relation&>(item)); break;
        case osmium::item_type::area: crc.update(static_cast<const osmium::Area&>(item)); break;
        case osmium::item_type::changeset: crc.update(static_cast<const osmium::Changeset&>(item)); break;
        default: throw CaseError{"item type"};
    }
}

std::string hex(const std::string& s, std::size_t from, std::size_t n) {
    static const char* d = "0123456789abcdef";
    std::string o;
    for (std::size_t i = from; i < s.size() && i < from + n; ++i) {
        o += d[(static_cast<unsigned char>(s[i]) >> 4U) & 0xfU];
        o += d[static_cast<unsigned char>(s[i]) & 0xfU];
    }
    return o;
}

// compare the checksum input of the real object with the spec's feed; returns the zlib CRC32
unsigned long check_crc(int step, const osmium::memory::Item& item, const json& feed, const std::string& how) {     // NOLINT
    std::vector<std::size_t> starts;
    const std::string want = feed_bytes(feed, &starts);
    osmium::CRC<Recorder> rec;
    crc_update(rec, item);
    const std::string& got = rec().bytes;
    if (got != want) {
        std::size_t i = 0;
        while (i < got.size() && i < want.size() && got[i] == want[i]) ++i;
        std::size_t fi = 0;
        while (fi + 1 < starts.size() && starts[fi + 1] <= i) ++fi;
        const std::string field = feed.empty() ? std::string{"(empty feed)"} : (feed[fi].at("f").get<std::string>() + "/" + std::to_string(feed[fi].at("w").get<int>()) + " #" + std::to_string(fi));
        json e = {{"length", want.size()}, {"at", i}, {"bytes", hex(want, i, 12)}};
        json g = {{"length", got.size()}, {"at", i}, {"bytes", hex(got, i, 12)}};
        throw vh::Mismatch(step, e, g, "checksum input of the " + std::string{osmium::item_type_to_name(item.type())} + " (" + how + ") differs from the feed of its content at field " + field);
    }
    osmium::CRC<osmium::CRC_zlib> z;
    crc_update(z, item);
    const unsigned long zw = ::crc32(::crc32(0, nullptr, 0), reinterpret_cast<const unsigned char*>(want.data()), static_cast<unsigned int>(want.size()));     // NOLINT
    VH_EXPECT(step, zw, z().checksum(), "CRC_zlib checksum (" + how + ")");
    return zw;
}

json run_crc_layout(const json& c) {
    const json& content = c.at("c");
    const json& subs = c.at("subs");
    const std::string mem = c.at("mem").get<std::string>();
    const json& feed = c.at("feed");
    std::string how = mem;
    vh::step_marker(0);
    unsigned long crc = 0;      // NOLINT
    std::unique_ptr<osmium::memory::Buffer> buf;
    std::vector<uint64_t> external;
    std::size_t off = 0;
    if (mem == "plain" || mem == "revset") {
        buf = std::make_unique<osmium::memory::Buffer>(1024UL * 64UL, osmium::memory::Buffer::auto_grow::yes);
        build_classic(*buf, content, subs, mem == "revset");
    } else if (mem == "grow") {
        // the smallest buffer there is: it has to grow (and move) while the object is under construction
        buf = std::make_unique<osmium::memory::Buffer>(64UL, osmium::memory::Buffer::auto_grow::yes);
        build_classic(*buf, content, subs, false);
    } else if (mem == "offset") {
        buf = std::make_unique<osmium::memory::Buffer>(1024UL, osmium::memory::Buffer::auto_grow::yes);
        for (int i = 0; i < 3; ++i) {
            add_dummy(*buf, 100 + i);
            off = buf->commit();
        }
        off = buf->committed();
        build_classic(*buf, content, subs, false);
    } else if (mem == "copy") {
        auto src = std::make_unique<osmium::memory::Buffer>(1024UL * 64UL, osmium::memory::Buffer::auto_grow::yes);
        build_classic(*src, content, subs, false);
        buf = std::make_unique<osmium::memory::Buffer>(128UL, osmium::memory::Buffer::auto_grow::yes);
        add_dummy(*buf, 5);
        buf->commit();
        off = buf->committed();
        buf->add_item(src->get<osmium::memory::Item>(0));
        buf->commit();
        // the source is overwritten and released before the copy is looked at
        std::memset(src->data(), 0x5a, src->committed());
        src.reset();
    } else if (mem == "dirty") {
        // memory that is not zero to begin with: padding is whatever the builders put there
        external.assign(1024UL * 8UL, 0xAAAAAAAAAAAAAAAAULL);
        buf = std::make_unique<osmium::memory::Buffer>(reinterpret_cast<unsigned char*>(external.data()), external.size() * 8UL, 0UL);
        build_classic(*buf, content, subs, false);
    } else if (mem == "attr") {
        buf = std::make_unique<osmium::memory::Buffer>(1024UL * 64UL, osmium::memory::Buffer::auto_grow::yes);
        if (!build_attr(*buf, content, subs)) {
            how = "attr n/a, classic";
            build_classic(*buf, content, subs, false);
        }
    } else {
        throw CaseError{"memory variant " + mem};
    }
    vh::step_marker(1);
    const auto& item = buf->get<osmium::memory::Item>(off);
    crc = check_crc(1, item, feed, how);
    // the abstract content is what the accessors say: spot checks that the layout really is the content asked for
    if (item.type() != osmium::item_type::changeset) {
        const auto& obj = static_cast<const osmium::OSMObject&>(item);
        VH_EXPECT(1, content.at("tags").size(), obj.tags().size(), "number of tags of the object built (" + how + ")");
        vh::step_marker(2);
        VH_EXPECT(2, sorted_set(c.at("avail")), md_fields(osmium::detect_available_metadata(obj)), "detect_available_metadata");
    }
    json info;
    info["crc"] = crc;
    info["how"] = how;
    return info;
}

json run_crc_roundtrip(const json& c) {
    const json& content = c.at("c");
    const json& opt = c.at("opt");
    const json& feed = c.at("feed");
    const std::string fmt = opt.at("fmt").get<std::string>();
    const bool hist = opt.at("hist").get<bool>();
    const bool low = opt.at("low").get<bool>();
    const int variant = c.value("n", 0);
    vh::step_marker(0);
    osmium::memory::Buffer buf{1024UL * 64UL, osmium::memory::Buffer::auto_grow::yes};
    build_classic(buf, content, canonical_subs(content), false);
    // the original has the checksum of its own content
    check_crc(0, buf.get<osmium::memory::Item>(0), c.at("feed0"), "original");

    std::string idpart = c.at("id").get<std::string>();
    for (auto& ch : idpart) if (!std::isalnum(static_cast<unsigned char>(ch))) ch = '_';
    // format, history flag (and for half of the cases the options) travel in the file NAME: File's suffix detection
    std::string path = g_dir + "/" + idpart + "_" + std::to_string(::getpid()) + (hist ? ".osh" : ".osm");
    if (fmt == "pbf") path += ".pbf";
    else if (fmt == "opl") path += ".opl";
    else if (variant % 2 == 1) path += ".xml";
    struct Cleanup {
        std::string p;
        ~Cleanup() { ::unlink(p.c_str()); }
    } cleanup{path};
    std::set<std::string> mdset;
    for (const auto& m : opt.at("md")) mdset.insert(m.get<std::string>());
    std::string md;
    for (const auto& m : opt.at("md")) md += (md.empty() ? "" : "+") + m.get<std::string>();
    if (mdset.empty()) md = variant % 2 ? "none" : "false";
    if (mdset.size() == 5) md = variant % 3 == 0 ? "all" : variant % 3 == 1 ? "true" : md;

    vh::step_marker(1);
    try {
        osmium::io::File file{path};
        if (variant % 2 == 0) {
            file.set("add_metadata", md);
            file.set("locations_on_ways", low);
        } else {
            file.set("add_metadata=" + md);
            file.set(std::string{"locations_on_ways="} + (low ? "yes" : "no"));
        }
        if (fmt == "pbf" && variant % 4 >= 2) file.set("pbf_dense_nodes", false);
        osmium::io::Header header;
        header.set("generator", "filespec_replay");
        osmium::io::Writer writer{file, header, osmium::io::overwrite::allow};
        writer(buf.get<osmium::memory::Item>(0));
        writer.close();
    } catch (const std::exception& e) {
        throw vh::Mismatch(1, "file written", std::string{"writer error: "} + e.what(), "Writer refused an object of the domain");
    }
    vh::step_marker(2);
    unsigned long crc = 0;      // NOLINT
    std::size_t n = 0;
    try {
        const osmium::io::File file{path};
        osmium::io::Reader reader{file, osmium::osm_entity_bits::all};
        while (osmium::memory::Buffer rb = reader.read()) {
            for (const auto& item : rb) {
                ++n;
                if (n > 1) throw vh::Mismatch(2, 1, n, "number of objects read back");
                crc = check_crc(2, item, feed, "read back from " + path.substr(path.find_last_of('/') + 1) + " add_metadata=" + md);
            }
        }
        reader.close();
    } catch (const vh::Mismatch&) {
        throw;
    } catch (const std::exception& e) {
        throw vh::Mismatch(2, "file read", std::string{"reader error: "} + e.what(), "Reader rejected a file the Writer produced");
    }
    VH_EXPECT(2, std::size_t{1}, n, "number of objects read back");
    json info;
    info["crc"] = crc;
    return info;
}

} // namespace

int main(int argc, char** argv) {
    g_dir = argc > 1 ? argv[1] : "/tmp";
    std::string line;
    while (std::getline(std::cin, line)) {
        if (line.empty()) continue;
        json c = json::parse(line);
        json r;
        r["id"] = c["id"];
        try {
            const std::string k = c.at("k").get<std::string>();
            if (k == "file") run_file(c);
            else if (k == "md") run_md(c);
            else if (k == "header") run_header(c);
            else if (k == "crc" && c.at("kind") == "layout") r["info"] = run_crc_layout(c);
            else if (k == "crc" && c.at("kind") == "roundtrip") r["info"] = run_crc_roundtrip(c);
            else throw CaseError{"kind " + k};
            r["ok"] = true;
        } catch (const vh::Mismatch& m) {
            r["ok"] = false;
            r["step"] = m.step;
            r["exp"] = m.exp;
            r["got"] = m.got;
            if (!m.note.empty()) r["note"] = m.note;
        } catch (const std::exception& e) {
            r["ok"] = false;
            r["step"] = -1;
            r["note"] = std::string("unexpected exception: ") + typeid(e).name() + ": " + e.what();
        }
        vh::emit(r);
    }
    return 0;
}
