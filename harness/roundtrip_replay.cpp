// C01 replay: cases exported by TLC from specs/RoundTrip.tla (option vector, structural shape of the input,
// expected projection) are instantiated with boundary values from a seeded pool, written with the real
// osmium::io::Writer, read back with the real osmium::io::Reader and compared field by field with the
// projection the spec computed.  The number of pool threads comes from OSMIUM_POOL_THREADS (set by the check).
//
// usage: roundtrip_replay <dir> [keep]      (NDJSON cases on stdin, one NDJSON result per case on stdout)
#include "common/vh.hpp"

#include <osmium/builder/osm_object_builder.hpp>
#include <osmium/io/any_input.hpp>
#include <osmium/io/any_output.hpp>
#include <osmium/io/header.hpp>
#include <osmium/memory/buffer.hpp>
#include <osmium/osm.hpp>
#include <osmium/osm/box.hpp>

#include <cstdint>
#include <cstring>
#include <limits>
#include <memory>
#include <string>
#include <vector>

using vh::json;

namespace {

// ---------------------------------------------------------------- seeded pool

struct Rng {
    uint64_t s;
    explicit Rng(uint64_t seed) : s(seed * 0x9E3779B97F4A7C15ULL + 0x1234567ULL) {}
    uint64_t next() {
        uint64_t z = (s += 0x9E3779B97F4A7C15ULL);
        z = (z ^ (z >> 30U)) * 0xBF58476D1CE4E5B9ULL;
        z = (z ^ (z >> 27U)) * 0x94D049BB133111EBULL;
        return z ^ (z >> 31U);
    }
    uint64_t below(uint64_t n) { return n ? next() % n : 0; }
    template <typename T, std::size_t N>
    T pick(const T (&a)[N]) { return a[below(N)]; }
};

constexpr int64_t I64MAX = std::numeric_limits<int64_t>::max();
constexpr int64_t I64MIN1 = std::numeric_limits<int64_t>::min() + 1;

// ids: both ends of the domain (INT64_MIN, INT64_MAX] and the varint / word borders
const int64_t ID_POS[] = {0, 1, 2, 63, 64, 127, 128, 16383, 16384, 2147483647LL, 2147483648LL, 4294967295LL, 4294967296LL,
                          (1LL << 53) - 1, 1LL << 53, (1LL << 62) - 1, 1LL << 62, I64MAX - 1, I64MAX};
const int64_t ID_NEG[] = {0, -1, -2, -63, -64, -65, -128, -129, -2147483648LL, -2147483649LL, -4294967296LL, -(1LL << 53), -(1LL << 62),
                          I64MIN1 + 1, I64MIN1};
const int64_t ID_MID[] = {0, 1, -1, 2, -2, 127, -128, 128, -129, 2147483647LL, -2147483648LL, 4294967296LL, -4294967296LL,
                          (1LL << 53), -(1LL << 53), (1LL << 61), -(1LL << 61), (1LL << 62) - 1, -(1LL << 62)};
const uint32_t VERSION[] = {1, 2, 127, 128, 255, 256, 65535, 65536, 2147483646U, 2147483647U};
const uint32_t UID[] = {1, 2, 127, 128, 16384, 1000000, 2147483646U, 2147483647U};
const uint32_t TSTAMP[] = {1, 59, 86399, 86400, 951782400U /* 2000-02-29 */, 1000000000U, 1709251199U, 2147483647U, 2147483648U,
                           4102444800U /* 2100-01-01 */, 4107542399U /* 2100-02-28 */, 4107542400U /* 2100-03-01 */, 4294967294U, 4294967295U};
const uint32_t CHANGESET[] = {1, 2, 127, 128, 2147483647U, 2147483648U, 4294967293U, 4294967294U};
const uint32_t COUNT32[] = {0, 1, 2, 127, 128, 65535, 2147483647U, 2147483648U, 4294967294U};
const int32_t LON_VALID[] = {-1800000000, -1799999999, -1, 0, 1, 9, 10, 99999999, 100000000, 1234567890, 1799999999, 1800000000};
const int32_t LAT_VALID[] = {-900000000, -899999999, -1, 0, 1, 7, 10000000, 123456789, 899999999, 900000000};
const int32_t C_EXT[] = {std::numeric_limits<int32_t>::min(), std::numeric_limits<int32_t>::min() + 1, -1800000001, 1800000001, 2147483646};

// code points: ASCII, everything the text formats have to escape, 2/3/4 byte sequences and the last code points
const uint32_t CP_XML[] = {'a', 'Z', '0', ' ', '<', '>', '&', '"', '\'', '%', '=', ',', '@', '\t', '\n', '\r', '#', '/', '\\', ':', ';', '+', '-',
                           0x7f, 0x80, 0xe9, 0x7ff, 0x800, 0x20ac, 0xd7ff, 0xe000, 0xfffd, 0x10000, 0x1f600, 0x10fffd};

void put_cp(std::string& out, uint32_t c) {
    if (c < 0x80) {
        out += static_cast<char>(c);
    } else if (c < 0x800) {
        out += static_cast<char>(0xc0 | (c >> 6U));
        out += static_cast<char>(0x80 | (c & 0x3fU));
    } else if (c < 0x10000) {
        out += static_cast<char>(0xe0 | (c >> 12U));
        out += static_cast<char>(0x80 | ((c >> 6U) & 0x3fU));
        out += static_cast<char>(0x80 | (c & 0x3fU));
    } else {
        out += static_cast<char>(0xf0 | (c >> 18U));
        out += static_cast<char>(0x80 | ((c >> 12U) & 0x3fU));
        out += static_cast<char>(0x80 | ((c >> 6U) & 0x3fU));
        out += static_cast<char>(0x80 | (c & 0x3fU));
    }
}

std::size_t cp_len(uint32_t c) { return c < 0x80 ? 1 : c < 0x800 ? 2 : c < 0x10000 ? 3 : 4; }

// a valid UTF-8 string of exactly `bytes` bytes
std::string make_string(Rng& rng, std::size_t bytes) {
    std::string s;
    s.reserve(bytes);
    while (s.size() < bytes) {
        const uint32_t c = rng.pick(CP_XML);
        if (s.size() + cp_len(c) <= bytes) {
            put_cp(s, c);
        } else {
            s += static_cast<char>('a' + rng.below(26));
        }
    }
    return s;
}

const std::size_t STRLEN_ANY[] = {0, 1, 2, 3, 7, 20, 255, 256, 1023, 1024};
const std::size_t STRLEN_NONEMPTY[] = {1, 2, 3, 7, 20, 255, 256, 1023, 1024};
const std::size_t STRLEN_SHORT[] = {0, 1, 2, 5, 11};

// ---------------------------------------------------------------- case decoding

struct Opt {
    std::string fmt;    // xml | xmlchange | pbf | opl
    bool dense = true;
    std::string comp;   // none | zlib | lz4 (pbf)
    std::vector<std::string> md;
    bool hist = false;
    bool low = false;
    std::string fcomp;  // none | gzip | bzip2
    bool has_md(const char* f) const {
        for (const auto& m : md) if (m == f) return true;
        return false;
    }
};

Opt parse_opt(const json& j) {
    Opt o;
    o.fmt = j.at("fmt").get<std::string>();
    o.dense = j.at("dense").get<bool>();
    o.comp = j.at("comp").get<std::string>();
    for (const auto& m : j.at("md")) o.md.push_back(m.get<std::string>());
    o.hist = j.at("hist").get<bool>();
    o.low = j.at("low").get<bool>();
    o.fcomp = j.at("fcomp").get<std::string>();
    return o;
}

std::string format_string(const Opt& o) {
    std::string f;
    if (o.fmt == "pbf") f = o.hist ? "osh.pbf" : "osm.pbf";
    else if (o.fmt == "xml") f = o.hist ? "osh.xml" : "osm.xml";
    else if (o.fmt == "xmlchange") f = "osc.xml";
    else if (o.fmt == "opl") f = o.hist ? "osh.opl" : "osm.opl";
    else throw std::runtime_error{"unknown format token " + o.fmt};
    if (o.fcomp == "gzip") f += ".gz";
    else if (o.fcomp == "bzip2") f += ".bz2";
    if (o.fmt == "pbf") {
        f += o.dense ? ",pbf_dense_nodes=true" : ",pbf_dense_nodes=false";
        f += ",pbf_compression=" + o.comp;
    }
    std::string md;
    for (const auto& m : o.md) {
        if (!md.empty()) md += '+';
        md += m;
    }
    if (o.md.empty()) md = "none";
    if (o.md.size() == 5) md = "all";
    f += ",add_metadata=" + md;
    f += o.low ? ",locations_on_ways=true" : ",locations_on_ways=false";
    return f;
}

// ---------------------------------------------------------------- building the input

struct Elem {
    std::string t;      // node way relation changeset
    int n = 1;
    std::string cls;    // tiny | med | big | str | dtag
    std::string ver, ts, cs, uid, user, loc, rloc, closed, bounds, nch, ncm;
    std::string loc_alt;   // expectation only: the location token without the named deviations D1/D2 (also accepted)
    bool vis = true;
    int tags = 0, refs = 0, mem = 0, disc = 0;
};

std::string tok(const json& j, const char* k, const char* dflt) {
    return j.contains(k) ? j.at(k).get<std::string>() : std::string{dflt};
}

Elem parse_elem(const json& j) {
    Elem e;
    e.t = j.at("t").get<std::string>();
    e.n = j.value("n", 1);
    e.cls = tok(j, "cls", "tiny");
    e.ver = tok(j, "ver", "0");
    e.ts = tok(j, "ts", "0");
    e.cs = tok(j, "cs", "0");
    e.uid = tok(j, "uid", "0");
    e.user = tok(j, "user", "0");
    e.loc = tok(j, "loc", "undef");
    e.rloc = tok(j, "rloc", "undef");
    e.loc_alt = tok(j, "locAlt", "");
    e.closed = tok(j, "closed", "0");
    e.bounds = tok(j, "bounds", "undef");
    e.nch = tok(j, "nch", "0");
    e.ncm = tok(j, "ncm", "0");
    e.vis = j.value("vis", true);
    e.tags = j.value("tags", 0);
    e.refs = j.value("refs", 0);
    e.mem = j.value("mem", 0);
    e.disc = j.value("disc", 0);
    return e;
}

struct ObjRef {
    std::size_t buf;
    std::size_t off;
    int elem;
};

struct Input {
    std::vector<std::unique_ptr<osmium::memory::Buffer>> bufs;
    std::vector<ObjRef> seq;
    const osmium::OSMEntity& at(std::size_t i) const {
        return bufs[seq[i].buf]->get<osmium::OSMEntity>(seq[i].off);
    }
};

osmium::Location make_loc(Rng& rng, const std::string& cls) {
    if (cls == "valid") return osmium::Location{rng.pick(LON_VALID), rng.pick(LAT_VALID)};
    if (cls == "ext") {
        // defined but outside the valid range in at least one coordinate
        switch (rng.below(3)) {
            case 0: return osmium::Location{rng.pick(C_EXT), rng.pick(LAT_VALID)};
            case 1: return osmium::Location{rng.pick(LON_VALID), rng.pick(C_EXT)};
            default: return osmium::Location{rng.pick(C_EXT), rng.pick(C_EXT)};
        }
    }
    return osmium::Location{};
}

// Delta coded id sequences (dense nodes of a block, node references of a way, members of a relation) can only express
// differences that fit into int64: every sequence is drawn from one of three classes whose differences all fit.
// The XML reader keeps INT64_MAX as its overflow sentinel (C13), XML files get INT64_MAX - 1 instead.
struct Ctx {
    Rng rng;
    int idclass;            // 0: [0, INT64_MAX]   1: [INT64_MIN + 1, 0]   2: -2^62 <= id < 2^62, both signs
    bool xml;
    Ctx(uint64_t seed, bool is_xml) : rng(seed), idclass(static_cast<int>(seed % 3)), xml(is_xml) {}
    int64_t id_of(int cls) {
        int64_t v = 0;
        if (cls == 0) v = rng.pick(ID_POS);
        else if (cls == 1) v = rng.pick(ID_NEG);
        else v = rng.pick(ID_MID);
        if (xml && v == I64MAX) v = I64MAX - 1;
        return v;
    }
    int64_t id() { return id_of(idclass); }
    std::string str_any() { return make_string(rng, rng.pick(STRLEN_ANY)); }
    std::string str_nonempty() { return make_string(rng, rng.pick(STRLEN_NONEMPTY)); }
    std::string str_short() { return make_string(rng, rng.pick(STRLEN_SHORT)); }
};

template <typename B>
void set_meta(Ctx& c, const Elem& e, B& b, int64_t id) {
    b.set_id(id);
    b.set_version(e.ver == "v" ? c.rng.pick(VERSION) : 0U);
    b.set_timestamp(osmium::Timestamp{e.ts == "v" ? c.rng.pick(TSTAMP) : 0U});
    b.set_changeset(e.cs == "v" ? c.rng.pick(CHANGESET) : 0U);
    b.set_uid(e.uid == "v" ? c.rng.pick(UID) : 0U);
    b.set_visible(e.vis);
    b.set_user(e.user == "v" ? c.str_nonempty() : std::string{});
}

void add_tags(Ctx& c, osmium::builder::Builder& parent, int k, bool big_values) {
    if (k <= 0) return;
    osmium::builder::TagListBuilder tl{parent};
    for (int i = 0; i < k; ++i) {
        if (big_values) {
            tl.add_tag(make_string(c.rng, 4), make_string(c.rng, 1024));
        } else {
            tl.add_tag(i % 3 == 0 ? c.str_any() : c.str_short(), i % 3 == 1 ? c.str_any() : c.str_short());
        }
    }
}

// The heavy classes have a nominal size in the Writer's own measure (encoded bytes of the object in the group):
// way node references alternating between 0 and 2^61 cost 9 bytes each (+1 byte for each of lon/lat with locations
// on ways and undefined locations).
std::size_t heavy_refs(const Opt& o, std::size_t nominal_bytes) {
    return nominal_bytes / (9 + (o.low ? 2 : 0));
}

void build_elem(Ctx& c, const Opt& o, const Elem& e, int ei, Input& in, const json& sizes) {
    auto buf = std::make_unique<osmium::memory::Buffer>(1024UL * 64UL, osmium::memory::Buffer::auto_grow::yes);
    const std::size_t bi = in.bufs.size();
    const bool heavy = (e.cls == "med" || e.cls == "big");
    const int distinct = heavy ? 1 : e.n;
    std::vector<std::size_t> offs;
    // string-table-heavy dense nodes share one pool of keys
    std::vector<std::string> keypool;
    if (e.cls == "dtag") {
        for (int i = 0; i < e.tags; ++i) keypool.push_back("k" + std::to_string(i));
    }
    for (int i = 0; i < distinct; ++i) {
        std::size_t off = 0;
        if (e.t == "node") {
            osmium::builder::NodeBuilder b{*buf};
            set_meta(c, e, b, c.id());
            b.object().set_location(make_loc(c.rng, e.loc));
            if (e.cls == "dtag") {
                osmium::builder::TagListBuilder tl{b};
                for (const auto& k : keypool) tl.add_tag(k, "v");
            } else {
                add_tags(c, b, e.tags, e.cls == "str");
            }
        } else if (e.t == "way") {
            osmium::builder::WayBuilder b{*buf};
            set_meta(c, e, b, c.id());
            if (heavy) {
                const std::size_t k = heavy_refs(o, sizes.at(e.cls).get<std::size_t>());
                osmium::builder::WayNodeListBuilder wnl{b};
                for (std::size_t r = 0; r < k; ++r) wnl.add_node_ref((r & 1U) ? (1LL << 61) : 0LL);
            } else if (e.refs > 0) {
                osmium::builder::WayNodeListBuilder wnl{b};
                const int s = static_cast<int>(c.rng.below(3));
                for (int r = 0; r < e.refs; ++r) {
                    const int64_t ref = c.id_of(s);
                    std::string lc = e.rloc;
                    if (lc == "mix") lc = (r % 2 == 0) ? "valid" : "undef";
                    wnl.add_node_ref(ref, make_loc(c.rng, lc));
                }
            }
            add_tags(c, b, e.tags, e.cls == "str");
        } else if (e.t == "relation") {
            osmium::builder::RelationBuilder b{*buf};
            set_meta(c, e, b, c.id());
            if (e.mem > 0) {
                osmium::builder::RelationMemberListBuilder rml{b};
                const int s = static_cast<int>(c.rng.below(3));
                for (int r = 0; r < e.mem; ++r) {
                    const int64_t ref = c.id_of(s);
                    const auto type = static_cast<osmium::item_type>(1 + c.rng.below(3));
                    rml.add_member(type, ref, (r % 2 == 0) ? c.str_any() : c.str_short());
                }
            }
            add_tags(c, b, e.tags, e.cls == "str");
        } else if (e.t == "changeset") {
            osmium::builder::ChangesetBuilder b{*buf};
            b.set_id(c.rng.pick(CHANGESET));
            b.set_created_at(osmium::Timestamp{e.ts == "v" ? c.rng.pick(TSTAMP) : 0U});
            b.set_closed_at(osmium::Timestamp{e.closed == "v" ? c.rng.pick(TSTAMP) : 0U});
            b.set_num_changes(e.nch == "v" ? c.rng.pick(COUNT32) : 0U);
            b.set_num_comments(e.ncm == "v" ? c.rng.pick(COUNT32) : 0U);
            b.set_uid(e.uid == "v" ? c.rng.pick(UID) : 0U);
            if (e.bounds == "valid") {
                int32_t x1 = c.rng.pick(LON_VALID), x2 = c.rng.pick(LON_VALID), y1 = c.rng.pick(LAT_VALID), y2 = c.rng.pick(LAT_VALID);
                if (x1 > x2) std::swap(x1, x2);
                if (y1 > y2) std::swap(y1, y2);
                osmium::Box box;
                box.bottom_left() = osmium::Location{x1, y1};
                box.top_right() = osmium::Location{x2, y2};
                b.set_bounds(box);
            }
            b.set_user(e.user == "v" ? c.str_nonempty() : std::string{});
            add_tags(c, b, e.tags, false);
            if (e.disc > 0) {
                osmium::builder::ChangesetDiscussionBuilder db{b};
                for (int r = 0; r < e.disc; ++r) {
                    db.add_comment(osmium::Timestamp{c.rng.pick(TSTAMP)}, (r % 2 == 0) ? c.rng.pick(UID) : 0U,
                                   ((r % 2 == 0) ? c.str_nonempty() : std::string{}).c_str());
                    db.add_comment_text(c.str_any());
                }
            }
        } else {
            throw std::runtime_error{"unknown element type " + e.t};
        }
        off = buf->commit();
        offs.push_back(off);
    }
    for (int i = 0; i < e.n; ++i) in.seq.push_back(ObjRef{bi, offs[heavy ? 0 : static_cast<std::size_t>(i)], ei});
    in.bufs.push_back(std::move(buf));
}

// ---------------------------------------------------------------- comparing with the projection

struct Diff {
    std::string field;
    json exp, got;
};

#define CMP(fieldname, e, g) do { if (!((e) == (g))) throw Diff{fieldname, json(e), json(g)}; } while (0)

json locj(const osmium::Location& l) { return json::array({l.x(), l.y()}); }

void cmp_tags(const osmium::TagList& a, const osmium::TagList& b) {
    CMP("tags.size", a.size(), b.size());
    auto ia = a.begin();
    auto ib = b.begin();
    std::size_t i = 0;
    for (; ia != a.end(); ++ia, ++ib, ++i) {
        if (std::strcmp(ia->key(), ib->key()) != 0) throw Diff{"tags[" + std::to_string(i) + "].key", json(ia->key()), json(ib->key())};
        if (std::strcmp(ia->value(), ib->value()) != 0) throw Diff{"tags[" + std::to_string(i) + "].value", json(ia->value()), json(ib->value())};
    }
}

// expected tokens (from the spec) against input tokens: equal -> the concrete input value must come back, otherwise the
// expected token must be the default token and the default must come back
bool keep(const std::string& in_tok, const std::string& exp_tok, const char* dflt, const char* name) {
    if (in_tok == exp_tok) return true;
    if (exp_tok != dflt) throw std::runtime_error{std::string{"case: expected token for "} + name + " is neither the input token nor the default"};
    return false;
}

void cmp_object(const Elem& ie, const Elem& ee, const osmium::OSMObject& in, const osmium::OSMObject& got) {
    CMP("type", static_cast<int>(in.type()), static_cast<int>(got.type()));
    CMP("id", in.id(), got.id());
    CMP("version", keep(ie.ver, ee.ver, "0", "ver") ? in.version() : 0U, got.version());
    CMP("timestamp", keep(ie.ts, ee.ts, "0", "ts") ? static_cast<uint32_t>(in.timestamp()) : 0U, static_cast<uint32_t>(got.timestamp()));
    CMP("changeset", keep(ie.cs, ee.cs, "0", "cs") ? in.changeset() : 0U, got.changeset());
    CMP("uid", keep(ie.uid, ee.uid, "0", "uid") ? in.uid() : 0U, got.uid());
    CMP("user", keep(ie.user, ee.user, "0", "user") ? std::string{in.user()} : std::string{}, std::string{got.user()});
    CMP("visible", ee.vis, got.visible());
    cmp_tags(in.tags(), got.tags());
    if (in.type() == osmium::item_type::node) {
        const auto& a = static_cast<const osmium::Node&>(in);
        const auto& b = static_cast<const osmium::Node&>(got);
        const osmium::Location el = keep(ie.loc, ee.loc, "undef", "loc") ? a.location() : osmium::Location{};
        if (el != b.location()) {
            // a named deviation drops the location; an implementation that keeps it satisfies the property as stated
            const bool alt_ok = !ee.loc_alt.empty() && ee.loc_alt == ie.loc && a.location() == b.location();
            if (!alt_ok) throw Diff{"location", locj(el), locj(b.location())};
        }
    } else if (in.type() == osmium::item_type::way) {
        const auto& a = static_cast<const osmium::Way&>(in).nodes();
        const auto& b = static_cast<const osmium::Way&>(got).nodes();
        CMP("nodes.size", a.size(), b.size());
        const bool kl = keep(ie.rloc, ee.rloc, "undef", "rloc");
        for (std::size_t i = 0; i < a.size(); ++i) {
            if (a[i].ref() != b[i].ref()) throw Diff{"nodes[" + std::to_string(i) + "].ref", json(a[i].ref()), json(b[i].ref())};
            const osmium::Location el = kl ? a[i].location() : osmium::Location{};
            if (el != b[i].location()) throw Diff{"nodes[" + std::to_string(i) + "].location", locj(el), locj(b[i].location())};
        }
    } else if (in.type() == osmium::item_type::relation) {
        const auto& a = static_cast<const osmium::Relation&>(in).members();
        const auto& b = static_cast<const osmium::Relation&>(got).members();
        CMP("members.size", a.size(), b.size());
        auto ia = a.begin();
        auto ib = b.begin();
        std::size_t i = 0;
        for (; ia != a.end(); ++ia, ++ib, ++i) {
            const std::string p = "members[" + std::to_string(i) + "].";
            CMP(p + "type", static_cast<int>(ia->type()), static_cast<int>(ib->type()));
            CMP(p + "ref", ia->ref(), ib->ref());
            CMP(p + "role", std::string{ia->role()}, std::string{ib->role()});
        }
    }
}

void cmp_changeset(const Elem& ie, const Elem& ee, const osmium::Changeset& in, const osmium::Changeset& got) {
    CMP("id", in.id(), got.id());
    CMP("created_at", static_cast<uint32_t>(in.created_at()), static_cast<uint32_t>(got.created_at()));
    CMP("closed_at", static_cast<uint32_t>(in.closed_at()), static_cast<uint32_t>(got.closed_at()));
    CMP("num_changes", in.num_changes(), got.num_changes());
    CMP("num_comments", in.num_comments(), got.num_comments());
    CMP("uid", in.uid(), got.uid());
    CMP("user", keep(ie.user, ee.user, "0", "user") ? std::string{in.user()} : std::string{}, std::string{got.user()});
    if (in.bounds().bottom_left() != got.bounds().bottom_left() || in.bounds().top_right() != got.bounds().top_right()) {
        throw Diff{"bounds", json::array({locj(in.bounds().bottom_left()), locj(in.bounds().top_right())}),
                   json::array({locj(got.bounds().bottom_left()), locj(got.bounds().top_right())})};
    }
    cmp_tags(in.tags(), got.tags());
    if (ee.disc != ie.disc && ee.disc != 0) throw std::runtime_error{"case: expected discussion size is neither the input size nor 0"};
    const auto& a = in.discussion();
    const auto& b = got.discussion();
    CMP("discussion.size", static_cast<std::size_t>(ee.disc), b.size());
    if (ee.disc > 0) {
        auto ia = a.begin();
        auto ib = b.begin();
        std::size_t i = 0;
        for (; ia != a.end(); ++ia, ++ib, ++i) {
            const std::string p = "discussion[" + std::to_string(i) + "].";
            CMP(p + "date", static_cast<uint32_t>(ia->date()), static_cast<uint32_t>(ib->date()));
            CMP(p + "uid", ia->uid(), ib->uid());
            CMP(p + "user", std::string{ia->user()}, std::string{ib->user()});
            CMP(p + "text", std::string{ia->text()}, std::string{ib->text()});
        }
    }
}

json brief(const osmium::OSMEntity& e) {
    json j;
    j["type"] = osmium::item_type_to_name(e.type());
    if (e.type() == osmium::item_type::changeset) {
        j["id"] = static_cast<const osmium::Changeset&>(e).id();
    } else {
        j["id"] = static_cast<const osmium::OSMObject&>(e).id();
    }
    return j;
}

std::string g_dir;
bool g_keep = false;

// steps: 0 build, 1 write, 2 open+header, 3 objects, 4 end of data
json run_case(const json& c) {
    json info;
    const Opt o = parse_opt(c.at("opt"));
    const uint64_t seed = c.value("seed", 1ULL);
    const json& exp = c.at("exp");
    const std::string exp_outcome = exp.at("outcome").get<std::string>();
    const json sizes = c.value("sizes", json::object());

    vh::step_marker(0);
    Ctx ctx{seed, o.fmt == "xml" || o.fmt == "xmlchange"};
    std::vector<Elem> ielems;
    std::vector<Elem> eelems;
    for (const auto& e : c.at("input")) ielems.push_back(parse_elem(e));
    for (const auto& e : exp.at("objs")) eelems.push_back(parse_elem(e));
    if (ielems.size() != eelems.size()) throw std::runtime_error{"case: input and expectation differ in length"};
    Input in;
    for (std::size_t i = 0; i < ielems.size(); ++i) build_elem(ctx, o, ielems[i], static_cast<int>(i), in, sizes);

    osmium::io::Header header;
    const json& hin = c.at("header");
    const bool has_gen = hin.value("generator", "v") == "v";
    const std::string generator = has_gen ? ("verif " + make_string(ctx.rng, 20)) : std::string{};
    header.set("generator", generator);
    std::vector<osmium::Box> boxes;
    for (int i = 0; i < hin.value("boxes", 0); ++i) {
        int32_t x1 = ctx.rng.pick(LON_VALID), x2 = ctx.rng.pick(LON_VALID), y1 = ctx.rng.pick(LAT_VALID), y2 = ctx.rng.pick(LAT_VALID);
        if (x1 > x2) std::swap(x1, x2);
        if (y1 > y2) std::swap(y1, y2);
        osmium::Box b;
        b.extend(osmium::Location{x1, y1});
        b.extend(osmium::Location{x2, y2});
        boxes.push_back(b);
        header.add_box(b);
    }

    const std::string fmt = format_string(o);
    std::string idpart = c.at("id").get<std::string>();
    for (auto& ch : idpart) if (!std::isalnum(static_cast<unsigned char>(ch))) ch = '_';
    const std::string path = g_dir + "/" + idpart + "_" + std::to_string(::getpid()) + ".dat";
    info["file"] = path;
    info["format"] = fmt;
    info["objects"] = in.seq.size();

    struct Cleanup {
        std::string p;
        bool keep;
        ~Cleanup() { if (!keep) ::unlink(p.c_str()); }
    } cleanup{path, g_keep && o.fmt == "pbf"};   // only PBF files are looked at again (independent framing parser)

    // ---- write
    vh::step_marker(1);
    std::string outcome = "ok";
    std::string message;
    try {
        osmium::io::File file{path, fmt};
        osmium::io::Writer writer{file, header, osmium::io::overwrite::allow};
        // alternate between the two ways of handing data to the Writer
        const bool by_item = (seed % 2 == 0);
        std::size_t i = 0;
        while (i < in.seq.size()) {
            const auto& r = in.seq[i];
            const auto& item = in.bufs[r.buf]->get<osmium::memory::Item>(r.off);
            if (by_item && item.byte_size() < 1024UL * 1024UL) {
                writer(item);
                ++i;
            } else {
                // a buffer of its own with up to 1000 objects
                osmium::memory::Buffer b{1024UL * 64UL, osmium::memory::Buffer::auto_grow::yes};
                std::size_t k = 0;
                while (i < in.seq.size() && k < 1000) {
                    const auto& rr = in.seq[i];
                    const auto& it = in.bufs[rr.buf]->get<osmium::memory::Item>(rr.off);
                    b.add_item(it);
                    b.commit();
                    ++i;
                    ++k;
                    if (it.byte_size() >= 1024UL * 1024UL) break;
                }
                writer(std::move(b));
            }
        }
        writer.close();
    } catch (const std::exception& ex) {
        outcome = "writer_error";
        message = ex.what();
    }
    info["outcome"] = outcome;
    if (outcome == "writer_error") {
        info["message"] = message;
        if (exp_outcome != "writer_error") throw vh::Mismatch(1, exp_outcome, outcome, "Writer reported an error: " + message);
        return info;
    }
    // exp_outcome == "writer_error" and the Writer accepted the data: fine if it then round-trips (checked below like any other case)
    info["writer_accepted_unexpressible"] = (exp_outcome == "writer_error");

    // ---- read
    vh::step_marker(2);
    std::size_t idx = 0;
    try {
        osmium::io::File file{path, fmt};
        osmium::io::Reader reader{file, osmium::osm_entity_bits::all};
        const osmium::io::Header h = reader.header();
        const json& eh = exp.at("hdr");
        const std::string eg = eh.at("generator").get<std::string>();
        if (eg == "keep") {
            if (h.get("generator") != generator) throw vh::Mismatch(2, generator, h.get("generator"), "header generator");
        } else if (!h.get("generator").empty()) {
            throw vh::Mismatch(2, "", h.get("generator"), "header generator (format carries none)");
        }
        const std::string eb = eh.at("boxes").get<std::string>();
        std::vector<osmium::Box> want;
        if (eb == "all") {
            want = boxes;
        } else if (eb == "joined" && !boxes.empty()) {
            osmium::Box jb;
            for (const auto& b : boxes) jb.extend(b);
            want.push_back(jb);
        }
        auto boxj = [](const std::vector<osmium::Box>& v) {
            json a = json::array();
            for (const auto& b : v) a.push_back(json::array({locj(b.bottom_left()), locj(b.top_right())}));
            return a;
        };
        if (boxj(want) != boxj(h.boxes())) throw vh::Mismatch(2, boxj(want), boxj(h.boxes()), "header bounding boxes (" + eb + ")");

        vh::step_marker(3);
        while (osmium::memory::Buffer buffer = reader.read()) {
            for (const auto& got : buffer.select<osmium::OSMEntity>()) {
                if (idx >= in.seq.size()) {
                    throw vh::Mismatch(3, "end of data after " + std::to_string(in.seq.size()) + " objects", brief(got), "Reader delivered more objects than were written");
                }
                const auto& ine = in.at(idx);
                const Elem& ie = ielems[static_cast<std::size_t>(in.seq[idx].elem)];
                const Elem& ee = eelems[static_cast<std::size_t>(in.seq[idx].elem)];
                try {
                    CMP("type", static_cast<int>(ine.type()), static_cast<int>(got.type()));
                    if (ine.type() == osmium::item_type::changeset) {
                        cmp_changeset(ie, ee, static_cast<const osmium::Changeset&>(ine), static_cast<const osmium::Changeset&>(got));
                    } else {
                        cmp_object(ie, ee, static_cast<const osmium::OSMObject&>(ine), static_cast<const osmium::OSMObject&>(got));
                    }
                } catch (const Diff& d) {
                    json w = brief(ine);
                    w["field"] = d.field;
                    w["value"] = d.exp;
                    json g = brief(got);
                    g["field"] = d.field;
                    g["value"] = d.got;
                    throw vh::Mismatch(3, w, g, "object #" + std::to_string(idx) + " (element " + std::to_string(in.seq[idx].elem) + " " + ie.t + "/" + ie.cls + ") field " + d.field);
                }
                ++idx;
            }
        }
        reader.close();
    } catch (const vh::Mismatch&) {
        throw;
    } catch (const std::exception& ex) {
        info["outcome"] = "reader_error";
        info["message"] = ex.what();
        json i2 = info;
        throw vh::Mismatch(idx == 0 ? 2 : 3, "file accepted by the Reader", std::string{"reader_error: "} + ex.what(),
                           "the Reader rejected a file the Writer produced without reporting an error (after " + std::to_string(idx) + " objects)");
    }
    vh::step_marker(4);
    if (idx != in.seq.size()) {
        throw vh::Mismatch(4, in.seq.size(), idx, "number of objects read back");
    }

    // what the independent framing parser needs: ids in file order (small cases only)
    if (o.fmt == "pbf" && in.seq.size() <= 20000) {
        json ids = json::array();
        for (std::size_t i = 0; i < in.seq.size(); ++i) {
            const auto& e = in.at(i);
            ids.push_back(json::array({std::string(1, osmium::item_type_to_char(e.type())), static_cast<const osmium::OSMObject&>(e).id()}));
        }
        info["ids"] = ids;
    }
    return info;
}

} // namespace

int main(int argc, char** argv) {
    g_dir = argc > 1 ? argv[1] : "/tmp";
    g_keep = argc > 2 && std::string{argv[2]} == "keep";
    std::string line;
    while (std::getline(std::cin, line)) {
        if (line.empty()) continue;
        json c = json::parse(line);
        json r;
        r["id"] = c["id"];
        try {
            r["info"] = run_case(c);
            r["ok"] = true;
        } catch (const vh::Mismatch& m) {
            r["ok"] = false;
            r["step"] = m.step;
            r["exp"] = m.exp;
            r["got"] = m.got;
            if (!m.note.empty()) r["note"] = m.note;
        } catch (const std::exception& e) {
            r["ok"] = false;
            r["step"] = -1;
            r["note"] = std::string("unexpected exception: ") + typeid(e).name() + ": " + e.what();
        }
        vh::emit(r);
    }
    return 0;
}
