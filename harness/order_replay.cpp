// C16 replay: the comparison matrix and the CheckOrder verdicts exported by TLC from
// specs/ObjectOrder.tla are evaluated on real objects with boundary values.
#include "common/vh.hpp"

#include <osmium/builder/osm_object_builder.hpp>
#include <osmium/handler/check_order.hpp>
#include <osmium/memory/buffer.hpp>
#include <osmium/object_pointer_collection.hpp>
#include <osmium/osm/object_comparisons.hpp>
#include <osmium/osm.hpp>
#include <osmium/visitor.hpp>

#include <algorithm>
#include <cstdint>
#include <limits>
#include <vector>

using vh::json;

static const int IdMax = 4;
static const int NVersions = 4;

static int64_t id_value(int rank) {
    static const int64_t mag[] = {0, 1, 2, 4294967296LL, std::numeric_limits<int64_t>::max()};
    int a = rank < 0 ? -rank : rank;
    return rank < 0 ? -mag[a] : mag[a];
}
static uint32_t version_value(int v) {
    static const uint32_t vv[] = {0, 1, 2, 2147483647U};
    return vv[v];
}
static uint32_t ts_value(int ts) {
    static const uint32_t tv[] = {0, 1, 4294967295U};
    return tv[ts];
}

struct O { int t, id, v, ts; bool vis; };

static O decode(int c) {
    O o;
    o.vis = (c % 2) == 1; c /= 2;
    o.ts = c % 3; c /= 3;
    o.v = c % NVersions; c /= NVersions;
    o.id = (c % (2 * IdMax + 1)) - IdMax;
    o.t = c / (2 * IdMax + 1) + 1;
    return o;
}

template <typename TBuilder>
static size_t add_obj(osmium::memory::Buffer& buf, const O& o) {
    {
        TBuilder b{buf};
        b.set_id(id_value(o.id));
        b.set_version(version_value(o.v));
        b.set_timestamp(osmium::Timestamp{ts_value(o.ts)});
        b.set_visible(o.vis);
    }
    return buf.commit();
}

static size_t add(osmium::memory::Buffer& buf, const O& o) {
    switch (o.t) {
        case 1: return add_obj<osmium::builder::NodeBuilder>(buf, o);
        case 2: return add_obj<osmium::builder::WayBuilder>(buf, o);
        default: return add_obj<osmium::builder::RelationBuilder>(buf, o);
    }
}

static const int NObj = 3 * (2 * IdMax + 1) * NVersions * 3 * 2;

static int bits(const osmium::OSMObject& a, const osmium::OSMObject& b, int variant) {
    bool lt, nots, rev, eq, eqti;
    if (variant == 0) {
        lt = osmium::object_order_type_id_version{}(a, b);
        nots = osmium::object_order_type_id_version_without_timestamp{}(a, b);
        rev = osmium::object_order_type_id_reverse_version{}(a, b);
        eq = osmium::object_equal_type_id_version{}(a, b);
        eqti = osmium::object_equal_type_id{}(a, b);
    } else if (variant == 1) {
        lt = osmium::object_order_type_id_version{}(&a, &b);
        nots = osmium::object_order_type_id_version_without_timestamp{}(&a, &b);
        rev = osmium::object_order_type_id_reverse_version{}(&a, &b);
        eq = osmium::object_equal_type_id_version{}(&a, &b);
        eqti = osmium::object_equal_type_id{}(&a, &b);
    } else {
        // the operators; >, <=, >= must be the derived relations
        lt = a < b;
        if ((b > a) != lt || (b <= a) != !lt || (a >= b) != !lt) {
            throw vh::Mismatch(-2, "operator family consistent", "inconsistent");
        }
        nots = osmium::object_order_type_id_version_without_timestamp{}(a, b);
        rev = osmium::object_order_type_id_reverse_version{}(a, b);
        eq = (a == b);
        if ((a != b) == eq) {
            throw vh::Mismatch(-2, "operator!= consistent", "inconsistent");
        }
        eqti = osmium::object_equal_type_id{}(a, b);
    }
    bool ido = osmium::id_order{}(a.id(), b.id());
    return (lt ? 1 : 0) + (nots ? 2 : 0) + (rev ? 4 : 0) + (eq ? 8 : 0) + (eqti ? 16 : 0) + (ido ? 32 : 0);
}

int main() {
    // all objects of the grid, once
    osmium::memory::Buffer grid{1024UL * 1024UL, osmium::memory::Buffer::auto_grow::yes};
    std::vector<size_t> off(NObj);
    for (int c = 0; c < NObj; ++c) {
        off[c] = add(grid, decode(c));
    }
    auto obj = [&](int c) -> const osmium::OSMObject& { return grid.get<osmium::OSMObject>(off[c]); };

    return vh::run_cases([&](const json& c) {
        const std::string kind = c["kind"];
        if (kind == "row") {
            int a = c["a"];
            const O d = decode(a);
            const json& jo = c["obj"];
            // the harness' decode must be the spec's Decode
            if (jo["t"] != d.t || jo["id"] != d.id || jo["v"] != d.v || jo["ts"] != d.ts || jo["vis"] != d.vis) {
                throw vh::Mismatch(-3, jo, json{{"t", d.t}, {"id", d.id}, {"v", d.v}, {"ts", d.ts}, {"vis", d.vis}}, "decode table differs from spec");
            }
            const json& row = c["row"];
            if (static_cast<int>(row.size()) != NObj) throw vh::Mismatch(-3, NObj, row.size(), "row size");
            for (int b = 0; b < NObj; ++b) {
                int exp = row[b];
                for (int variant = 0; variant < 3; ++variant) {
                    int got = bits(obj(a), obj(b), variant);
                    if (got != exp) {
                        const O e = decode(b);
                        throw vh::Mismatch(b, exp, got, "bits lt|nots|rev|eq|eqti|idorder, variant " + std::to_string(variant) +
                                           " a=" + jo.dump() + " b=" + json{{"t", e.t}, {"id", e.id}, {"v", e.v}, {"ts", e.ts}, {"vis", e.vis}}.dump());
                    }
                }
            }
        } else if (kind == "seq") {
            const json& steps = c["steps"];
            osmium::memory::Buffer buf{4096, osmium::memory::Buffer::auto_grow::yes};
            std::vector<size_t> offs;
            bool all_acc = true;
            for (const auto& s : steps) {
                O o{s["t"], s["id"], s["v"], 0, true};
                offs.push_back(add(buf, o));
                all_acc = all_acc && s["acc"].get<bool>();
            }
            // 1. feed one by one
            {
                osmium::handler::CheckOrder chk;
                int k = 0;
                for (const auto& s : steps) {
                    bool acc = true;
                    try {
                        osmium::apply_item(buf.get<osmium::memory::Item>(offs[k]), chk);
                    } catch (const osmium::out_of_order_error& e) {
                        acc = false;
                        if (e.object_id != id_value(s["id"].get<int>())) {
                            throw vh::Mismatch(k, id_value(s["id"].get<int>()), e.object_id, "object_id in out_of_order_error");
                        }
                    }
                    VH_EXPECT(k, s["acc"].get<bool>(), acc, "CheckOrder verdict");
                    if (!acc) break;
                    ++k;
                }
                if (all_acc && !steps.empty()) {
                    // registers are the last object of each type
                    int64_t mx[4] = {0, 0, 0, 0};
                    for (const auto& s : steps) mx[s["t"].get<int>()] = id_value(s["id"].get<int>());
                    VH_EXPECT(k, mx[1], chk.max_node_id(), "max_node_id");
                    VH_EXPECT(k, mx[2], chk.max_way_id(), "max_way_id");
                    VH_EXPECT(k, mx[3], chk.max_relation_id(), "max_relation_id");
                }
            }
            // 2. whole buffer through apply(): exception iff some step rejected
            {
                osmium::handler::CheckOrder chk;
                bool acc = true;
                try {
                    osmium::apply(buf, chk);
                } catch (const osmium::out_of_order_error&) {
                    acc = false;
                }
                VH_EXPECT(100, all_acc, acc, "CheckOrder over whole buffer");
            }
            // 3. an accepted sequence is the sorted order of its set: sort every rotation/reversal with
            //    every comparator; the result must be exactly this sequence and must be accepted
            if (all_acc && steps.size() >= 2) {
                std::vector<size_t> perm(offs.size());
                for (size_t i = 0; i < perm.size(); ++i) perm[i] = i;
                do {
                    for (int cmp = 0; cmp < 3; ++cmp) {
                        osmium::ObjectPointerCollection coll;
                        for (size_t i : perm) coll.osm_object(buf.get<osmium::OSMObject>(offs[i]));
                        if (cmp == 0) coll.sort(osmium::object_order_type_id_version{});
                        else if (cmp == 1) coll.sort(osmium::object_order_type_id_version_without_timestamp{});
                        else coll.sort(osmium::object_order_type_id_reverse_version{});
                        size_t k = 0;
                        for (auto it = coll.cbegin(); it != coll.cend(); ++it, ++k) {
                            if (&*it != &buf.get<osmium::OSMObject>(offs[k])) {
                                throw vh::Mismatch(200 + cmp, "sorted == ascending sequence", "different order", "position " + std::to_string(k));
                            }
                        }
                        osmium::handler::CheckOrder chk;
                        try {
                            osmium::apply(coll.cbegin(), coll.cend(), chk);
                        } catch (const osmium::out_of_order_error& e) {
                            throw vh::Mismatch(300 + cmp, "sorted stream accepted", std::string("rejected: ") + e.what());
                        }
                    }
                } while (std::next_permutation(perm.begin(), perm.end()));
            }
        } else {
            throw vh::Mismatch(-9, "known kind", kind);
        }
    });
}
