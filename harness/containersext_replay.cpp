// C15 extension replay: histories exported by TLC from specs/ContainersExt{Dense,Small,Nwr,RelMap,Stash}.tla are
// executed on the real containers; after every call what the spec says is compared with the real objects.
// Built twice by checks/C15ext.py: with -DNDEBUG (like the other harnesses) and with assertions enabled, so that the
// library's own assertions (m_valid of RelationsMapStash, offsets of ItemStash, iterator bounds of IdSetDense) are
// exercised by the same legal histories.  No OSMIUM_VERIF_STASH_GC_MIN here: should_gc() runs with its real thresholds.
#include "common/vh.hpp"

#include <osmium/builder/osm_object_builder.hpp>
#include <osmium/index/id_set.hpp>
#include <osmium/index/nwr_array.hpp>
#include <osmium/index/relations_map.hpp>
#include <osmium/memory/buffer.hpp>
#include <osmium/osm.hpp>
#include <osmium/storage/item_stash.hpp>

#include <algorithm>
#include <cstdint>
#include <cstdio>
#include <cstring>
#include <iterator>
#include <memory>
#include <set>
#include <sstream>
#include <string>
#include <type_traits>
#include <utility>
#include <vector>

using vh::json;

// ================================================================ IdSetDense as a value (ContainersExtDense.tla)

template <typename T, std::size_t RCB>
struct Embed {          // same border-preserving embedding as harness/containers_replay.cpp
    int model_cb, model_tbits;
    uint64_t top_chunk;
    T operator()(int64_t id) const {
        const int64_t chunk_ids = (1LL << model_cb) * 8;
        const int64_t nc = (1LL << model_tbits) / chunk_ids;
        const int64_t c = id / chunk_ids;
        const int64_t o = (id % chunk_ids) / 8;
        const int64_t k = id % 8;
        const uint64_t rc = (c == nc - 1) ? top_chunk : static_cast<uint64_t>(c);
        const uint64_t nb = 1ULL << model_cb;
        const uint64_t rb = (static_cast<uint64_t>(o) == nb - 1 && nb > 1) ? ((1ULL << RCB) - 1) : static_cast<uint64_t>(o);
        return static_cast<T>((rc << (RCB + 3)) | (rb << 3) | static_cast<uint64_t>(k));
    }
};

// x = std::move(y) - only instantiated when the expression is well-formed (it was ambiguous before the fix of the
// copy assignment operator; a tree without the fix is reported as a divergence, not as a build failure)
template <typename S>
static typename std::enable_if<std::is_assignable<S&, S&&>::value, bool>::type move_assign(S& x, S& y) {
    x = std::move(y);
    return true;
}
template <typename S>
static typename std::enable_if<!std::is_assignable<S&, S&&>::value, bool>::type move_assign(S&, S&) {
    return false;
}

template <typename T, std::size_t RCB>
static void run_xdense(const json& c, uint64_t top_chunk) {
    using Set = osmium::index::IdSetDense<T, RCB>;
    const Embed<T, RCB> emb{c["cb"], c["tbits"], top_chunk};
    const std::size_t chunk_size = std::size_t{1} << RCB;
    std::unique_ptr<Set> obj[2] = {std::unique_ptr<Set>{new Set}, std::unique_ptr<Set>{new Set}};
    // model chunk index -> real chunk index is monotone, so "slots of the chunk vector" (memhi) has to be translated:
    // the real vector reaches up to the real chunk of the largest model chunk in use
    const int64_t model_chunk_ids = (1LL << c["cb"].get<int>()) * 8;
    const int64_t model_nc = (1LL << c["tbits"].get<int>()) / model_chunk_ids;
    auto real_slots = [&](uint64_t model_slots) -> uint64_t {
        if (model_slots == 0) return 0;
        return (static_cast<int64_t>(model_slots) == model_nc) ? top_chunk + 1 : model_slots;
    };
    if (obj[0]->used_memory() != 0) throw vh::Mismatch(-1, 0, obj[0]->used_memory(), "used_memory() of a new set (no memory is allocated if it is not used)");
    std::set<int64_t> universe;
    for (const auto& st : c["steps"]) universe.insert(st["x"].get<int64_t>());
    std::size_t mem_before[2] = {0, 0};
    int k = 0;
    for (const auto& st : c["steps"]) {
        vh::step_marker(k);
        const std::string a = st["a"];
        const int x = st["o"].get<std::string>() == "a" ? 0 : 1;
        const int y = st["p"].get<std::string>() == "a" ? 0 : 1;
        std::string ret = "none";
        if (a == "check_and_set") {
            const T id = emb(st["x"]);
            if (k % 3 == 2) { const bool before = obj[x]->get(id); obj[x]->set(id); ret = before ? "false" : "true"; }
            else ret = obj[x]->check_and_set(id) ? "true" : "false";
        } else if (a == "unset") {
            obj[x]->unset(emb(st["x"]));
        } else if (a == "get") {
            const Set& cs = *obj[x];
            ret = cs.get(emb(st["x"])) ? "true" : "false";
        } else if (a == "clear") {
            obj[x]->clear();
        } else if (a == "copy_assign") {
            Set& target = *obj[x];
            const Set& source = *obj[y];
            target = source;
        } else if (a == "copy_ctor") {
            obj[x].reset(new Set{*obj[y]});
        } else if (a == "move_ctor") {
            obj[x].reset(new Set{std::move(*obj[y])});
        } else if (a == "move_assign") {
            if (!move_assign(*obj[x], *obj[y])) {
                throw vh::Mismatch(k, "x = std::move(y) compiles", "ambiguous overload for operator=", "move_assign does not compile");
            }
        } else if (a == "swap") {
            swap(*obj[x], *obj[y]);
        } else {
            throw vh::Mismatch(k, "known action", a);
        }
        VH_EXPECT(k, st["ret"].get<std::string>(), ret, "return value of " + a);
        std::vector<int> grow = st["grow"].get<std::vector<int>>();
        for (int i = 0; i < 2; ++i) {
            const json& v = st[i == 0 ? "va" : "vb"];
            const std::string on = std::string(" of ") + (i == 0 ? "a" : "b") + " after " + a;
            if (v["mv"].get<bool>()) {       // moved from: unspecified until cleared or assigned to
                mem_before[i] = 0;
                continue;
            }
            const Set& s = *obj[i];
            VH_EXPECT(k, v["size"].get<uint64_t>(), static_cast<uint64_t>(s.size()), "size()" + on);
            VH_EXPECT(k, v["size"].get<uint64_t>() == 0, s.empty(), "empty()" + on);
            std::vector<uint64_t> want;
            std::set<int64_t> members;
            for (const auto& id : v["iter"]) { want.push_back(static_cast<uint64_t>(emb(id.get<int64_t>()))); members.insert(id.get<int64_t>()); }
            // two const iterators walking the same set while it is only read; get() in between
            std::vector<uint64_t> got;
            auto it1 = s.begin();
            auto it2 = s.begin();
            const auto end = s.end();
            if (!(it1 == it2)) throw vh::Mismatch(k, "begin() == begin()", "different", "iterators" + on);
            while (it1 != end) {
                const T val = *it1;
                got.push_back(static_cast<uint64_t>(val));
                if (got.size() > want.size() + 4) break;
                if (!s.get(val)) throw vh::Mismatch(k, true, false, "get() of an id delivered by the iterator" + on);
                if (RCB < 20 || got.size() == 1) {   // (were 4 MiB chunks used: the second iterator only accompanies the first id)
                    const auto old = it2++;          // post-increment returns the old position
                    if (*old != val) throw vh::Mismatch(k, static_cast<uint64_t>(val), static_cast<uint64_t>(*old), "value of it++" + on);
                    ++it1;
                    if (!(it1 == it2) || it1 != it2) throw vh::Mismatch(k, "two iterators in step", "different positions", "iterators" + on);
                } else {
                    ++it1;
                }
            }
            if (want != got) throw vh::Mismatch(k, json(want), json(got), "ascending iteration" + on);
            auto it3 = s.end();
            ++it3;                                   // incrementing the end iterator stays at the end
            if (it3 != s.end()) throw vh::Mismatch(k, "end()", "something else", "++end()" + on);
            for (const int64_t id : universe) {
                VH_EXPECT(k, members.count(id) != 0, s.get(emb(id)), "get(" + std::to_string(static_cast<uint64_t>(emb(id))) + ")" + on);
            }
            VH_EXPECT(k, static_cast<uint64_t>(s.size()), static_cast<uint64_t>(got.size()), "size() against number of iterated ids" + on);
            // used_memory(): bracketed by the spec, monotone under element-wise calls
            const std::size_t um = s.used_memory();
            const std::size_t lo = v["memlo"].get<std::size_t>() * chunk_size;
            const uint64_t slots = real_slots(v["memhi"].get<uint64_t>());
            const std::size_t hi = static_cast<std::size_t>(slots) * chunk_size + static_cast<std::size_t>(slots) * 16 + 64;
            if (um < lo || um > hi) throw vh::Mismatch(k, json({lo, hi}), um, "used_memory() outside [allocated chunks, slots of the chunk vector]" + on);
            if (std::find(grow.begin(), grow.end(), i) != grow.end() && um < mem_before[i]) {
                throw vh::Mismatch(k, mem_before[i], um, "used_memory() shrank" + on);
            }
            mem_before[i] = um;
        }
        ++k;
    }
}

// ================================================================ IdSetSmall as a value (ContainersExtSmall.tla)

template <typename T>
static T small_val(int64_t x) {
    if (x < 5) return static_cast<T>(x);
    if (x == 5) return sizeof(T) == 8 ? static_cast<T>(4294967296ULL) : static_cast<T>(65536);
    return static_cast<T>(~T{0});      // 9: largest id of the type
}

template <typename T>
static void run_xsmall(const json& c) {
    using Set = osmium::index::IdSetSmall<T>;
    Set obj[2];
    int k = 0;
    for (const auto& st : c["steps"]) {
        vh::step_marker(k);
        const std::string a = st["a"];
        const int x = st["o"].get<std::string>() == "a" ? 0 : 1;
        const int y = st["p"].get<std::string>() == "a" ? 0 : 1;
        const T id = small_val<T>(st["x"].get<int64_t>());
        std::string ret = "none";
        if (a == "set") obj[x].set(id);
        else if (a == "get") ret = static_cast<const Set&>(obj[x]).get(id) ? "true" : "false";
        else if (a == "get_binary_search") ret = static_cast<const Set&>(obj[x]).get_binary_search(id) ? "true" : "false";
        else if (a == "sort_unique") obj[x].sort_unique();
        else if (a == "merge_sorted") { const Set& other = obj[y]; obj[x].merge_sorted(other); }
        else if (a == "clear") obj[x].clear();
        else if (a == "copy_assign") { const Set& other = obj[y]; Set& target = obj[x]; target = other; }
        else throw vh::Mismatch(k, "known action", a);
        VH_EXPECT(k, st["ret"].get<std::string>(), ret, "return value of " + a);
        for (int i = 0; i < 2; ++i) {
            const std::string on = std::string(" of ") + (i == 0 ? "a" : "b") + " after " + a;
            const Set& s = obj[i];
            std::vector<uint64_t> want;
            for (const auto& v : st[i == 0 ? "la" : "lb"]) want.push_back(static_cast<uint64_t>(small_val<T>(v.get<int64_t>())));
            std::vector<uint64_t> got1;
            for (auto it = s.begin(); it != s.end(); ++it) { got1.push_back(static_cast<uint64_t>(*it)); if (got1.size() > want.size() + 4) break; }
            std::vector<uint64_t> got2;
            for (auto it = s.cbegin(); it != s.cend(); ++it) { got2.push_back(static_cast<uint64_t>(*it)); if (got2.size() > want.size() + 4) break; }
            std::vector<uint64_t> got3;
            for (const T v : s) got3.push_back(static_cast<uint64_t>(v));
            if (want != got1) throw vh::Mismatch(k, json(want), json(got1), "begin()..end()" + on);
            if (want != got2) throw vh::Mismatch(k, json(want), json(got2), "cbegin()..cend()" + on);
            if (want != got3) throw vh::Mismatch(k, json(want), json(got3), "range-for" + on);
            if (s.begin() != s.cbegin() || s.end() != s.cend()) throw vh::Mismatch(k, "begin()==cbegin(), end()==cend()", "different", "iterator accessors" + on);
            VH_EXPECT(k, want.size(), s.size(), "size()" + on);
            VH_EXPECT(k, want.empty(), s.empty(), "empty()" + on);
            const bool sorted = std::adjacent_find(got1.begin(), got1.end(), [](uint64_t l, uint64_t r) { return !(l < r); }) == got1.end();
            VH_EXPECT(k, st[i == 0 ? "sa" : "sb"].get<bool>(), sorted, "sorted and unique" + on);
            const std::size_t um = s.used_memory();
            if (um < want.size() * sizeof(T) || um % sizeof(T) != 0) {
                throw vh::Mismatch(k, want.size() * sizeof(T), um, "used_memory() below the ids held (or no multiple of the id size)" + on);
            }
            for (const uint64_t v : want) {
                if (!s.get(static_cast<T>(v))) throw vh::Mismatch(k, true, false, "get(" + std::to_string(v) + ")" + on);
                if (sorted && !s.get_binary_search(static_cast<T>(v))) throw vh::Mismatch(k, true, false, "get_binary_search(" + std::to_string(v) + ")" + on);
            }
        }
        ++k;
    }
}

// ================================================================ nwr_array of id sets (ContainersExtNwr.tla)

static osmium::item_type type_of(const std::string& t) {
    if (t == "node") return osmium::item_type::node;
    if (t == "way") return osmium::item_type::way;
    if (t == "relation") return osmium::item_type::relation;
    throw vh::Mismatch(-1, "node|way|relation", t);
}

template <typename Arr>
static typename std::remove_reference<decltype(std::declval<Arr&>().nodes())>::type& named(Arr& arr, const std::string& t) {
    if (t == "node") return arr.nodes();
    if (t == "way") return arr.ways();
    return arr.relations();
}
template <typename Arr>
static const typename std::remove_reference<decltype(std::declval<Arr&>().nodes())>::type& named(const Arr& arr, const std::string& t) {
    if (t == "node") return arr.nodes();
    if (t == "way") return arr.ways();
    return arr.relations();
}

template <typename T, std::size_t B>
static std::string dense_set(osmium::index::IdSetDense<T, B>& s, T id, int k) {
    if (k % 2 == 0) return s.check_and_set(id) ? "true" : "false";
    const bool before = s.get(id);
    s.set(id);
    return before ? "false" : "true";
}

struct NwrDense64 {
    static constexpr bool heavy = false;
    using Set = osmium::index::IdSetDense<uint64_t, 4>;
    using Id = uint64_t;
    static Id val(int64_t x) { return x < 2 ? static_cast<Id>(x) : (x == 9 ? 127ULL : 5 * 128ULL + static_cast<Id>(x)); }   // chunk = 128 ids: last id of chunk 0, chunk 5
    static std::string set(Set& s, Id id, int k) { return dense_set(s, id, k); }
    static void unset(Set& s, Id id) { s.unset(id); }
};
struct NwrDenseDefault {       // the instantiation the library itself uses (default chunk size, 32 Mi ids per chunk)
    static constexpr bool heavy = true;      // walking a 4 MiB chunk costs: every set is listed once per step only
    using Set = osmium::index::IdSetDense<osmium::unsigned_object_id_type>;
    using Id = osmium::unsigned_object_id_type;
    static Id val(int64_t x) { return x < 2 ? static_cast<Id>(x) : (x == 9 ? 33554431ULL : 33554432ULL + static_cast<Id>(x)); }
    static std::string set(Set& s, Id id, int k) { return dense_set(s, id, k); }
    static void unset(Set& s, Id id) { s.unset(id); }
};
struct NwrSmall {
    static constexpr bool heavy = false;
    using Set = osmium::index::IdSetSmall<uint64_t>;
    using Id = uint64_t;
    static Id val(int64_t x) { return x < 2 ? static_cast<Id>(x) : (x == 9 ? 4294967295ULL : 4294967296ULL + static_cast<Id>(x)); }
    static std::string set(Set& s, Id id, int) { s.set(id); return "none"; }
    static void unset(Set&, Id) { throw vh::Mismatch(-1, "dense", "small", "unset on IdSetSmall"); }
};

template <typename V>
static void run_xnwr(const json& c) {
    using Set = typename V::Set;
    using Arr = osmium::nwr_array<Set>;
    Arr arr;
    Arr saved;
    static const char* const tnames[3] = {"node", "way", "relation"};
    int k = 0;
    for (const auto& st : c["steps"]) {
        vh::step_marker(k);
        const std::string a = st["a"];
        const std::string t = st["t"];
        const std::string via = st["via"];
        const auto id = V::val(st["x"].get<int64_t>());
        const Arr& carr = arr;
        std::string ret = "none";
        if (a == "set") {
            ret = V::set(via == "named" ? named(arr, t) : arr(type_of(t)), id, k);
        } else if (a == "unset") {
            V::unset(via == "named" ? named(arr, t) : arr(type_of(t)), id);
        } else if (a == "get") {
            if (via == "named") ret = named(carr, t).get(id) ? "true" : "false";
            else if (via == "const_call") ret = carr(type_of(t)).get(id) ? "true" : "false";
            else ret = arr(type_of(t)).get(id) ? "true" : "false";
        } else if (a == "clear") {
            (via == "named" ? named(arr, t) : arr(type_of(t))).clear();
        } else if (a == "clear_all") {
            for (auto& s : arr) s.clear();
        } else if (a == "save") {
            Arr copy{arr};
            saved = copy;
        } else if (a == "restore") {
            arr = saved;
        } else {
            throw vh::Mismatch(k, "known action", a);
        }
        VH_EXPECT(k, st["ret"].get<std::string>(), ret, "return value of " + a);
        auto listing = [](const Set& s) {
            std::vector<uint64_t> out;
            for (const auto v : s) out.push_back(static_cast<uint64_t>(v));
            return out;
        };
        auto wanted = [](const json& l) {
            std::vector<uint64_t> out;
            for (const auto& v : l) out.push_back(static_cast<uint64_t>(V::val(v.get<int64_t>())));
            return out;
        };
        for (int i = 0; i < 3; ++i) {
            const std::string tn = tnames[i];
            const std::string on = " of the " + tn + " set after " + a;
            const auto want = wanted(st[tn]);
            if (&arr(type_of(tn)) != &named(arr, tn) || &carr(type_of(tn)) != &named(carr, tn) || &carr(type_of(tn)) != &arr(type_of(tn))) {
                throw vh::Mismatch(k, "one object per type", "accessors disagree", "operator()(type) against nodes()/ways()/relations()" + on);
            }
            if (V::heavy) {
                const auto got = (k + i) % 3 == 0 ? listing(carr(type_of(tn))) : (k + i) % 3 == 1 ? listing(named(carr, tn)) : listing(*(carr.begin() + i));
                if (want != got) throw vh::Mismatch(k, json(want), json(got), "content" + on);
            } else {
                auto got = listing(carr(type_of(tn)));
                if (want != got) throw vh::Mismatch(k, json(want), json(got), "content through operator()(" + tn + ") const" + on);
                got = listing(named(carr, tn));
                if (want != got) throw vh::Mismatch(k, json(want), json(got), "content through the named accessor" + on);
            }
            VH_EXPECT(k, want.size(), static_cast<std::size_t>(carr(type_of(tn)).size()), "size()" + on);
            VH_EXPECT(k, want.empty(), named(carr, tn).empty(), "empty()" + on);
            for (const uint64_t v : want) {
                if (!arr(type_of(tn)).get(static_cast<typename V::Id>(v))) throw vh::Mismatch(k, true, false, "get(" + std::to_string(v) + ")" + on);
            }
            // begin()..end() (both flavours) and cbegin()..cend() walk the three sets in the order nodes, ways, relations
            if (&*(arr.begin() + i) != &named(arr, tn) || &*(carr.begin() + i) != &named(carr, tn) || &*(arr.cbegin() + i) != &named(carr, tn)) {
                throw vh::Mismatch(k, "slot " + std::to_string(i), "another object", "position of the " + tn + " set in begin()..end()");
            }
        }
        if (arr.end() - arr.begin() != 3 || carr.end() - carr.begin() != 3 || arr.cend() - arr.cbegin() != 3) throw vh::Mismatch(k, 3, "not 3", "distance begin()..end()");
        if (!V::heavy) {
            std::vector<std::vector<uint64_t>> order;
            for (const auto& s : st["slots"]) order.push_back(wanted(s));
            std::vector<std::vector<uint64_t>> g1, g2, g3;
            for (auto it = arr.begin(); it != arr.end(); ++it) g1.push_back(listing(*it));
            for (auto it = carr.begin(); it != carr.end(); ++it) g2.push_back(listing(*it));
            for (auto it = arr.cbegin(); it != arr.cend(); ++it) g3.push_back(listing(*it));
            if (order != g1) throw vh::Mismatch(k, json(order), json(g1), "begin()..end() after " + a);
            if (order != g2) throw vh::Mismatch(k, json(order), json(g2), "begin()..end() const after " + a);
            if (order != g3) throw vh::Mismatch(k, json(order), json(g3), "cbegin()..cend() after " + a);
        }
        ++k;
    }
}

// ================================================================ RelationsMap (ContainersExtRelMap.tla)

static void run_xrelmap(const json& c) {
    const int w = c["w"];
    auto val = [w](int64_t x) -> uint64_t {
        const uint64_t m = 1ULL << w;
        const uint64_t lo = static_cast<uint64_t>(x) % m;
        const uint64_t hi = static_cast<uint64_t>(x) / m;
        return (lo == m - 1 ? 4294967295ULL : lo) + hi * 4294967296ULL;       // token 2^w - 1 is 2^32 - 1, token 2^w is 2^32
    };
    std::unique_ptr<osmium::index::RelationsMapStash> stash{new osmium::index::RelationsMapStash};
    osmium::memory::Buffer buffer{4096, osmium::memory::Buffer::auto_grow::yes};
    {
        const osmium::index::RelationsMapStash& cs = *stash;
        if (!cs.empty() || cs.size() != 0 || cs.sizes() != std::make_pair(std::size_t{0}, std::size_t{0})) {
            throw vh::Mismatch(-1, "empty", "not empty", "a new stash");
        }
    }
    int k = 0;
    for (const auto& st : c["steps"]) {
        vh::step_marker(k);
        const std::string a = st["a"];
        if (a == "add") {
            stash->add(val(st["x"][0]), val(st["x"][1]));
        } else if (a == "add_members") {
            // ids are given as absolute values; every other call uses negative ids (positive_id()/positive_ref())
            const int64_t sign = (k % 2 == 1) ? -1 : 1;
            buffer.clear();
            {
                osmium::builder::RelationBuilder rb{buffer};
                rb.set_id(sign * static_cast<int64_t>(val(st["x"]["rel"])));
                osmium::builder::RelationMemberListBuilder ml{rb};
                for (const auto& m : st["x"]["members"]) {
                    const std::string t = m["t"];
                    ml.add_member(t == "r" ? osmium::item_type::relation : (k % 3 == 0 ? osmium::item_type::node : osmium::item_type::way),
                                  sign * static_cast<int64_t>(val(m["ref"])), "role");
                }
            }
            buffer.commit();
            stash->add_members(buffer.get<osmium::Relation>(0));
        } else if (a == "move_stash") {
            std::unique_ptr<osmium::index::RelationsMapStash> other{new osmium::index::RelationsMapStash{std::move(*stash)}};   // move construction
            stash.reset(new osmium::index::RelationsMapStash);
            stash->add(1, 1);                         // content that the move assignment has to replace
            *stash = std::move(*other);              // move assignment
        } else {
            throw vh::Mismatch(k, "known action", a);
        }
        const osmium::index::RelationsMapStash& cs = *stash;
        VH_EXPECT(k, st["size"].get<std::size_t>(), cs.size(), "stash size() after " + a);
        VH_EXPECT(k, st["size"].get<std::size_t>() == 0, cs.empty(), "stash empty() after " + a);
        const auto sz = cs.sizes();
        VH_EXPECT(k, st["n32"].get<std::size_t>(), sz.first, "stash sizes().first (32 bit entries) after " + a);
        VH_EXPECT(k, st["n64"].get<std::size_t>(), sz.second, "stash sizes().second (64 bit entries) after " + a);
        ++k;
    }
    vh::step_marker(k);
    const std::string phase = c["phase"];
    const bool moved = c["moved"];
    auto collect = [](const osmium::index::RelationsMapIndex& idx, uint64_t id) {
        std::vector<uint64_t> out;
        idx.for_each(id, [&](osmium::unsigned_object_id_type v) { out.push_back(v); });
        return out;
    };
    auto expect_list = [&](const json& l) {
        std::vector<uint64_t> out;
        for (const auto& x : l) out.push_back(val(x.get<int64_t>()));
        return out;
    };
    const std::size_t n = c["size"];
    auto probe = [&](const osmium::index::RelationsMapIndex& idx, const char* field, const std::string& name) {
        VH_EXPECT(k, n, idx.size(), name + " size() (pairs without duplicates)");
        VH_EXPECT(k, n == 0, idx.empty(), name + " empty()");
        std::size_t total = 0;
        for (const auto& p : c["probes"]) {
            const auto got = collect(idx, val(p["id"]));
            const auto want = expect_list(p[field]);
            total += got.size();
            if (got != want) throw vh::Mismatch(k, json(want), json(got), name + " for_each(" + std::to_string(val(p["id"])) + ")");
        }
        VH_EXPECT(k, n, total, name + ": entries reached through for_each over all ids");
    };
    if (phase == "m2p" || phase == "p2m") {
        auto idx = phase == "m2p" ? stash->build_member_to_parent_index() : stash->build_parent_to_member_index();
        const char* field = phase == "m2p" ? "parents" : "members";
        if (moved) {
            osmium::index::RelationsMapIndex second{std::move(idx)};                  // move construction
            osmium::index::RelationsMapStash filler;
            filler.add(7, 8);
            auto third = filler.build_parent_to_member_index();
            third = std::move(second);                                                // move assignment over a used index
            probe(third, field, phase + " index (moved)");
        } else {
            probe(idx, field, phase + " index");
        }
    } else {
        auto idxs = stash->build_indexes();
        if (moved) {
            osmium::index::RelationsMapIndexes second{std::move(idxs)};
            VH_EXPECT(k, n, second.size(), "indexes size() (moved)");
            VH_EXPECT(k, n == 0, second.empty(), "indexes empty() (moved)");
            probe(second.member_to_parent(), "parents", "member_to_parent() (moved)");
            probe(second.parent_to_member(), "members", "parent_to_member() (moved)");
        } else {
            const osmium::index::RelationsMapIndexes& ci = idxs;
            VH_EXPECT(k, n, ci.size(), "indexes size()");
            VH_EXPECT(k, n == 0, ci.empty(), "indexes empty()");
            probe(ci.member_to_parent(), "parents", "member_to_parent()");
            probe(ci.parent_to_member(), "members", "parent_to_member()");
        }
    }
    stash.reset();       // destroying the consumed stash must be harmless
}

// ================================================================ ItemStash with real thresholds (ContainersExtStash.tla)

static const std::size_t UNIT = 65536;
static const std::size_t SMALL = 64;

static std::string user_of(int64_t id) {
    char buf[32];
    std::snprintf(buf, sizeof(buf), "%016lld", static_cast<long long>(id));
    return buf;
}

// a node of exactly `bytes` bytes (64, or 64 + a tag list): id, 16 character user name, tags derived from the id
static void make_node(osmium::memory::Buffer& scratch, int64_t id, std::size_t bytes) {
    scratch.clear();
    {
        osmium::builder::NodeBuilder nb{scratch};
        nb.set_id(id);
        nb.set_user(user_of(id));
        if (bytes > SMALL) {
            std::size_t rest = bytes - SMALL - 8;          // tag list header
            osmium::builder::TagListBuilder tl{nb};
            const char f = static_cast<char>('a' + id % 26);
            while (rest > 0) {
                std::size_t take = std::min<std::size_t>(rest, 2048);
                if (rest - take != 0 && rest - take < 16) take -= 16;
                const std::size_t kl = (take - 2) / 2;
                const std::size_t vl = take - 2 - kl;
                tl.add_tag(std::string(kl, f), std::string(vl, f));
                rest -= take;
            }
        }
    }
    scratch.commit();
    const std::size_t got = scratch.get<osmium::memory::Item>(0).padded_size();
    if (got != bytes) throw vh::Mismatch(-1, bytes, got, "HARNESS: test item has the wrong size");
}

static void check_node(const osmium::memory::Item& item, int64_t id, std::size_t bytes, int k, const std::string& what) {
    if (item.type() != osmium::item_type::node) throw vh::Mismatch(k, "node", osmium::item_type_to_name(item.type()), "type of " + what);
    const auto& n = static_cast<const osmium::Node&>(item);
    VH_EXPECT(k, id, n.id(), "id of " + what);
    VH_EXPECT(k, bytes, static_cast<std::size_t>(n.padded_size()), "size of " + what);
    VH_EXPECT(k, false, n.removed(), "removed flag of " + what);
    if (user_of(id) != n.user()) throw vh::Mismatch(k, user_of(id), std::string(n.user(), strnlen(n.user(), 40)), "user name of " + what);
    if (bytes > SMALL) {
        const char f = static_cast<char>('a' + id % 26);
        std::size_t total = 8;
        for (const auto& t : n.tags()) {
            const std::size_t kl = std::strlen(t.key());
            const std::size_t vl = std::strlen(t.value());
            if (kl == 0 || t.key()[0] != f || t.key()[kl - 1] != f || t.key()[kl / 2] != f || vl == 0 || t.value()[0] != f || t.value()[vl - 1] != f) {
                throw vh::Mismatch(k, std::string(1, f), std::string(1, t.key()[0]), "tag bytes of " + what);
            }
            total += kl + vl + 2;
        }
        VH_EXPECT(k, bytes - SMALL, total, "tag list bytes of " + what);
    }
}

struct Block {
    int64_t first = 0;        // spec handle of the first item
    std::size_t count = 0;
    std::size_t units = 0;
    std::vector<osmium::ItemStash::handle_type> handles;
};

static std::size_t item_bytes(const Block& b, std::size_t j) {
    if (b.count == 1) return b.units * UNIT;
    return j + 1 < b.count ? SMALL : b.units * UNIT - SMALL * (b.count - 1);
}

static void run_xstash(const json& c) {
    osmium::ItemStash stash;
    const osmium::ItemStash& cstash = stash;
    osmium::memory::Buffer scratch{8 * UNIT, osmium::memory::Buffer::auto_grow::yes};
    std::vector<Block> blocks;           // blocks of the current epoch, in handle order
    int64_t epoch = 0;
    std::size_t nh_max = 0;
    std::size_t prev_cap = c["cap0"].get<std::size_t>();
    std::size_t prev_gcs = 0;
    std::size_t um_before = cstash.used_memory();
    const std::size_t cap0 = c["cap0"].get<std::size_t>();
    if (um_before < cap0 * UNIT || um_before > cap0 * UNIT + sizeof(osmium::ItemStash) + 64) {
        throw vh::Mismatch(-1, cap0 * UNIT, um_before, "used_memory() of a new stash");
    }
    if (osmium::ItemStash::handle_type{}.valid()) throw vh::Mismatch(-1, false, true, "default constructed handle is invalid");
    int k = 0;
    for (const auto& st : c["steps"]) {
        vh::step_marker(k);
        const std::string a = st["a"];
        if (a == "add_item") {
            Block b;
            b.count = st["x"]["k"].get<std::size_t>();
            b.units = st["x"]["size"].get<std::size_t>();
            b.first = blocks.empty() ? 1 : blocks.back().first + static_cast<int64_t>(blocks.back().count);
            for (std::size_t j = 0; j < b.count; ++j) {
                make_node(scratch, epoch * 100000000 + b.first + static_cast<int64_t>(j), item_bytes(b, j));
                b.handles.push_back(stash.add_item(scratch.get<osmium::memory::Item>(0)));
                if (!b.handles.back().valid()) throw vh::Mismatch(k, "valid handle", "invalid");
            }
            std::ostringstream first, last;
            first << b.handles.front();
            last << b.handles.back();
            if (first.str() == "-" || (b.count > 1 && first.str() == last.str())) throw vh::Mismatch(k, "distinct printable handles", first.str(), "operator<< of handles");
            blocks.push_back(std::move(b));
        } else if (a == "remove_item") {
            const int64_t h = st["x"].get<int64_t>();
            Block* b = nullptr;
            for (auto& bl : blocks) if (bl.first == h) b = &bl;
            if (!b) throw vh::Mismatch(k, "known block", h, "HARNESS: block to remove");
            // the order inside the block does not matter to the spec: ascending, descending or from the middle outwards
            const std::size_t n = b->handles.size();
            for (std::size_t j = 0; j < n; ++j) {
                const std::size_t pos = (k % 3 == 0) ? j : (k % 3 == 1) ? n - 1 - j : (j % 2 == 0 ? n / 2 + j / 2 : n / 2 - 1 - j / 2) % n;
                stash.remove_item(b->handles[pos]);
            }
        } else if (a == "garbage_collect") {
            stash.garbage_collect();
        } else if (a == "clear") {
            stash.clear();
            blocks.clear();
            ++epoch;
        } else {
            throw vh::Mismatch(k, "known action", a);
        }
        VH_EXPECT(k, st["size"].get<std::size_t>(), cstash.size(), "size() after " + a);
        VH_EXPECT(k, st["removed"].get<std::size_t>(), cstash.count_removed(), "count_removed() after " + a + " (tells whether a collection ran: " + st["auto"].get<std::string>() + ")");
        if (st["live"].size() != blocks.size()) throw vh::Mismatch(k, st["live"].size(), blocks.size(), "HARNESS: number of blocks");
        // Every live item is resolved and compared after every step of a short history.  In a long one (more than 20000 live
        // items) that is done whenever items can have moved - the buffer grew, a collection ran - and at the last step; after
        // the other steps the first, the last and every 50th item of each block, and the whole block just added.
        std::size_t live_items = 0;
        for (const auto& lv : st["live"]) if (lv["size"].get<std::size_t>() != 0) live_items += lv["k"].get<std::size_t>();
        const bool moved = st["cap"].get<std::size_t>() != prev_cap || st["gcs"].get<std::size_t>() != prev_gcs;
        const bool full = live_items <= 20000 || moved || k + 1 == static_cast<int>(c["steps"].size());
        prev_cap = st["cap"].get<std::size_t>();
        prev_gcs = st["gcs"].get<std::size_t>();
        std::size_t bi = 0;
        for (const auto& lv : st["live"]) {
            const Block& b = blocks[bi++];
            if (lv["h"].get<int64_t>() != b.first || lv["k"].get<std::size_t>() != b.count) throw vh::Mismatch(k, lv, b.first, "HARNESS: block numbering");
            if (lv["size"].get<std::size_t>() == 0) continue;       // removed
            VH_EXPECT(k, lv["size"].get<std::size_t>(), b.units, "HARNESS: block size");
            const bool whole = full || (a == "add_item" && bi == blocks.size());
            for (std::size_t j = 0; j < b.count; ++j) {
                if (!whole && j != 0 && j + 1 != b.count && j % 50 != 0) continue;
                const int64_t id = epoch * 100000000 + b.first + static_cast<int64_t>(j);
                const std::string what = "the item behind handle " + std::to_string(b.first + static_cast<int64_t>(j)) + " after " + a;
                check_node(cstash.get_item(b.handles[j]), id, item_bytes(b, j), k, what);
                if (j == 0 || j + 1 == b.count) {
                    const osmium::Node& node = cstash.get<osmium::Node>(b.handles[j]);
                    VH_EXPECT(k, id, node.id(), "get<Node>() of " + what);
                    if (static_cast<const void*>(&node) != static_cast<const void*>(&cstash.get_item(b.handles[j]))) throw vh::Mismatch(k, "same address", "different", "get<Node>() against get_item() of " + what);
                }
            }
        }
        // used_memory() = the buffer capacity the spec predicts + the handle index (8 bytes per handle issued, a vector may
        // hold up to twice as much) + the object itself; it never shrinks
        const std::size_t nh = st["nh"].get<std::size_t>();
        nh_max = std::max(nh_max, nh);
        const std::size_t um = cstash.used_memory();
        const std::size_t lo = st["cap"].get<std::size_t>() * UNIT + 8 * nh;
        const std::size_t hi = st["cap"].get<std::size_t>() * UNIT + 16 * std::max<std::size_t>(nh_max, 1) + sizeof(osmium::ItemStash) + 64;
        if (um < lo || um > hi) throw vh::Mismatch(k, json({lo, hi}), um, "used_memory() against capacity " + std::to_string(st["cap"].get<std::size_t>()) + " units after " + a + " (space of removed items not reclaimed, or needless growth)");
        if (um < um_before) throw vh::Mismatch(k, um_before, um, "used_memory() shrank after " + a);
        um_before = um;
        ++k;
    }
}

int main() {
    return vh::run_cases([](const json& c) {
        const std::string kind = c["kind"];
        const std::string v = c.value("variant", "");
        if (kind == "xdense") {
            if (v == "u32low") run_xdense<uint32_t, 4>(c, 3);
            else if (v == "u64low") run_xdense<uint64_t, 4>(c, 3);
            else if (v == "u32mid") run_xdense<uint32_t, 8>(c, 5);
            else if (v == "u32top") run_xdense<uint32_t, 16>(c, 8191);      // last chunk of the 32 bit range (64 KiB chunks)
            else if (v == "u64big") run_xdense<uint64_t, 16>(c, 16389);     // ids beyond 2^32
            else throw vh::Mismatch(-1, "known variant", v);
        } else if (kind == "xsmall") {
            if (v == "u64") run_xsmall<uint64_t>(c);
            else if (v == "u32") run_xsmall<uint32_t>(c);
            else throw vh::Mismatch(-1, "known variant", v);
        } else if (kind == "xnwr") {
            if (v == "dense64") run_xnwr<NwrDense64>(c);
            else if (v == "densedefault") run_xnwr<NwrDenseDefault>(c);
            else if (v == "small") run_xnwr<NwrSmall>(c);
            else throw vh::Mismatch(-1, "known variant", v);
        } else if (kind == "xrelmap") {
            run_xrelmap(c);
        } else if (kind == "xstash") {
            run_xstash(c);
        } else {
            throw vh::Mismatch(-1, "known kind", kind);
        }
    });
}
