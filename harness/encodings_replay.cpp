// C02 replay harness: "readers decode every spec-conformant file, however it was encoded".
//
// A case names a file that tools/enc_{pbf,o5m,xml,opl}.py (independent, specification-derived encoders)
// wrote from a choice vector exported by TLC (specs/O5mTable.tla, PbfChoices.tla, XmlChoices.tla,
// OplChoices.tla), and carries the object list the SPEC's decoder model derives for that choice vector
// (which TLC has shown to be the described object list, specs/Encodings.tla).  The file is read with the
// real osmium::io::Reader - once from the file system (file descriptor path) and once from a memory
// buffer - and every object is compared field by field with the expected list; step k = object k,
// a way is compared with the location of every way node (NodeRef::location(): [lon, lat], null = undefined; PBF ways
// may carry them in Way.lat / Way.lon);
// step -2 = header (bounding boxes / multiple-object-versions flag when the case states them).  o5m cases may ask the
// Reader for a subset of the object types ("mask"); the expected list then is the spec's selection.
#include "common/vh.hpp"

#include <osmium/io/any_input.hpp>
#include <osmium/io/reader.hpp>
#include <osmium/memory/buffer.hpp>
#include <osmium/osm.hpp>

#include <cstdint>
#include <fstream>
#include <sstream>
#include <string>
#include <vector>

using vh::json;

static json dump_object(const osmium::OSMObject& o) {
    json j;
    j["t"] = std::string(1, osmium::item_type_to_char(o.type()));
    j["id"] = o.id();
    j["v"] = o.version();
    j["vis"] = o.visible();
    j["cs"] = o.changeset();
    j["ts"] = static_cast<std::uint32_t>(o.timestamp());
    j["uid"] = o.uid();
    j["user"] = std::string(o.user());
    json tags = json::array();
    for (const auto& t : o.tags()) {
        tags.push_back(json::array({std::string(t.key()), std::string(t.value())}));
    }
    j["tags"] = tags;
    if (o.type() == osmium::item_type::node) {
        const auto& n = static_cast<const osmium::Node&>(o);
        if (n.location().is_undefined()) {
            j["lon"] = nullptr;
            j["lat"] = nullptr;
        } else {
            j["lon"] = n.location().x();
            j["lat"] = n.location().y();
        }
    } else if (o.type() == osmium::item_type::way) {
        json refs = json::array();
        json locs = json::array();           // location of every way node: [lon, lat] or null (undefined)
        for (const auto& nr : static_cast<const osmium::Way&>(o).nodes()) {
            refs.push_back(nr.ref());
            if (nr.location().is_undefined()) {
                locs.push_back(nullptr);
            } else {
                locs.push_back(json::array({nr.location().x(), nr.location().y()}));
            }
        }
        j["refs"] = refs;
        j["locs"] = locs;
    } else if (o.type() == osmium::item_type::relation) {
        json mems = json::array();
        for (const auto& m : static_cast<const osmium::Relation&>(o).members()) {
            mems.push_back(json::array({std::string(1, osmium::item_type_to_char(m.type())), m.ref(), std::string(m.role())}));
        }
        j["mems"] = mems;
    }
    return j;
}

struct ReadResult {
    json objs = json::array();
    json boxes = json::array();
    bool multi = false;
    std::string error;       // empty = no exception
    std::size_t other_items = 0;
};

static osmium::osm_entity_bits::type bits_of(const std::string& mask) {
    osmium::osm_entity_bits::type b = osmium::osm_entity_bits::nothing;
    for (const char ch : mask) {
        b |= (ch == 'n') ? osmium::osm_entity_bits::node : (ch == 'w') ? osmium::osm_entity_bits::way : osmium::osm_entity_bits::relation;
    }
    return b;
}

static ReadResult read_all(const osmium::io::File& file, const std::string& mask) {
    ReadResult r;
    try {
        osmium::io::Reader reader{file, mask == "nwr" ? osmium::osm_entity_bits::all : bits_of(mask)};
        const osmium::io::Header header = reader.header();
        r.multi = header.has_multiple_object_versions();
        for (const auto& b : header.boxes()) {
            if (b.valid()) {
                r.boxes.push_back(json::array({b.bottom_left().x(), b.bottom_left().y(), b.top_right().x(), b.top_right().y()}));
            } else {
                r.boxes.push_back("invalid");
            }
        }
        while (osmium::memory::Buffer buffer = reader.read()) {
            for (const auto& item : buffer) {
                if (item.type() == osmium::item_type::node || item.type() == osmium::item_type::way ||
                    item.type() == osmium::item_type::relation) {
                    r.objs.push_back(dump_object(static_cast<const osmium::OSMObject&>(item)));
                } else {
                    ++r.other_items;
                }
            }
        }
        reader.close();
    } catch (const std::exception& e) {
        r.error = std::string(typeid(e).name()) + ": " + e.what();
    }
    return r;
}

static std::string slurp(const std::string& path) {
    std::ifstream in{path, std::ios::binary};
    if (!in) {
        throw std::runtime_error{"harness: cannot open " + path};
    }
    std::ostringstream ss;
    ss << in.rdbuf();
    return ss.str();
}

static void compare(const json& c, const ReadResult& r, const std::string& via) {
    const json& exp = c["exp"];
    const std::size_t n = std::min(exp.size(), r.objs.size());
    for (std::size_t k = 0; k < n; ++k) {
        vh::step_marker(static_cast<int>(k));
        if (!(exp[k] == r.objs[k])) {
            throw vh::Mismatch(static_cast<int>(k), exp[k], r.objs[k], via + ": object " + std::to_string(k) + " differs");
        }
    }
    if (!r.error.empty()) {
        throw vh::Mismatch(static_cast<int>(r.objs.size()), "file accepted", r.error,
                           via + ": reader threw after " + std::to_string(r.objs.size()) + " of " + std::to_string(exp.size()) + " objects");
    }
    if (exp.size() != r.objs.size()) {
        throw vh::Mismatch(static_cast<int>(n), exp.size(), r.objs.size(), via + ": number of objects");
    }
    if (r.other_items != 0) {
        throw vh::Mismatch(-2, 0, r.other_items, via + ": items that are not node/way/relation");
    }
    if (c.contains("hdr")) {
        const json& h = c["hdr"];
        if (h.contains("boxes") && !h["boxes"].is_null() && !(h["boxes"] == r.boxes)) {
            throw vh::Mismatch(-2, h["boxes"], r.boxes, via + ": header boxes");
        }
        if (h.contains("multi") && !h["multi"].is_null() && h["multi"].get<bool>() != r.multi) {
            throw vh::Mismatch(-2, h["multi"], r.multi, via + ": has_multiple_object_versions");
        }
    }
}

static void run_case(const json& c) {
    const std::string path = c["file"].get<std::string>();
    const std::string fmt = c["fmt"].get<std::string>();
    const bool dump = c.value("dump", false);
    const std::string mask = c.value("mask", std::string{"nwr"});      // the object types the reader asks for
    {
        const ReadResult r = read_all(osmium::io::File{path, fmt}, mask);
        if (dump) {
            json d;
            d["dump"] = r.objs;
            d["error"] = r.error;
            d["boxes"] = r.boxes;
            d["multi"] = r.multi;
            vh::emit(d);
            return;
        }
        compare(c, r, "file");
    }
    if (c.value("buffer", true)) {
        const std::string data = slurp(path);
        const ReadResult r = read_all(osmium::io::File{data.data(), data.size(), fmt}, mask);
        compare(c, r, "buffer");
    }
}

int main() {
    return vh::run_cases(run_case);
}
