// C17 replay.  Call histories exported by TLC from specs/GeomFactory.tla (node lists / areas, use_nodes,
// direction, expected verdict and expected point tree) are executed on real geometry factories -- WKB, EWKB,
// hex WKB, hex EWKB, WKT, EWKT, GeoJSON (and the RapidJSON GeoJSON factory when rapidjson is installed), each with
// the identity and the Web-Mercator projection and several output precisions; one factory object per
// configuration lives for the whole history.  Every returned encoding is decoded by the readers in this file
// (written from the OGC WKB / PostGIS EWKB / WKT / GeoJSON grammars, they share no code with libosmium) and the
// decoded geometry must be the tree the spec gives.  "num" cases come from specs/GeomNum.tla: the exact text
// of coordinates with a short exact decimal expansion at every precision.
#include "common/vh.hpp"

#include <osmium/builder/osm_object_builder.hpp>
#include <osmium/geom/factory.hpp>
#include <osmium/geom/geojson.hpp>
#include <osmium/geom/mercator_projection.hpp>
#include <osmium/geom/wkb.hpp>
#include <osmium/geom/wkt.hpp>
#include <osmium/memory/buffer.hpp>
#include <osmium/osm/area.hpp>
#include <osmium/osm/location.hpp>
#include <osmium/osm/node.hpp>
#include <osmium/osm/way.hpp>

#if defined(__has_include)
# if __has_include(<rapidjson/writer.h>)
#  define VH_HAVE_RAPIDJSON 1
#  include <rapidjson/stringbuffer.h>
#  include <rapidjson/writer.h>
#  include <osmium/geom/rapid_geojson.hpp>
# endif
#endif

#include <cctype>
#include <cmath>
#include <cstdint>
#include <cstring>
#include <limits>
#include <memory>
#include <stdexcept>
#include <string>
#include <vector>

using vh::json;

// ------------------------------------------------------------------------------------------------ geometry model

struct Coord {
    double x = 0, y = 0;
    std::string tx, ty;    // number texts (text formats only)
};
using Ring = std::vector<Coord>;
using Poly = std::vector<Ring>;
struct Geom {
    int type = 0;          // 1 point (polys[0][0][0]), 2 linestring (polys[0][0]), 3 polygon (polys[0]), 6 multipolygon
    std::vector<Poly> polys;
};

struct DecodeError : public std::runtime_error {
    explicit DecodeError(const std::string& w) : std::runtime_error(w) {}
};

static json geom_json(const Geom& g, bool texts) {
    json ps = json::array();
    for (const auto& p : g.polys) {
        json rs = json::array();
        for (const auto& r : p) {
            json cs = json::array();
            for (const auto& c : r) {
                if (texts) cs.push_back(c.tx + " " + c.ty);
                else cs.push_back(json::array({c.x, c.y}));
            }
            rs.push_back(cs);
        }
        ps.push_back(rs);
    }
    return json{{"type", g.type}, {"polys", ps}};
}

static std::string printable(const std::string& s) {
    std::string o;
    for (const unsigned char c : s) {
        if (c >= 0x20 && c < 0x7f && c != '\\') o += static_cast<char>(c);
        else { char b[8]; std::snprintf(b, sizeof(b), "\\x%02x", c); o += b; }
        if (o.size() > 700) { o += "..."; break; }
    }
    return o;
}

static std::string to_hex(const std::string& s) {
    static const char* d = "0123456789abcdef";
    std::string o;
    for (const unsigned char c : s) { o += d[c >> 4]; o += d[c & 15]; if (o.size() > 900) { o += "..."; break; } }
    return o;
}

// ------------------------------------------------------------------------------------------------ WKB / EWKB reader

struct ByteReader {
    const unsigned char* p;
    std::size_t n;
    std::size_t pos = 0;
    void need(std::size_t k) const { if (n - pos < k) throw DecodeError("WKB: truncated at byte " + std::to_string(pos)); }
    uint8_t u8() { need(1); return p[pos++]; }
    uint32_t u32(bool le) {
        need(4);
        uint32_t v = 0;
        for (int k = 0; k < 4; ++k) v |= static_cast<uint32_t>(p[pos + k]) << (le ? 8 * k : 8 * (3 - k));
        pos += 4;
        return v;
    }
    double f64(bool le) {
        need(8);
        uint64_t v = 0;
        for (int k = 0; k < 8; ++k) v |= static_cast<uint64_t>(p[pos + k]) << (le ? 8 * k : 8 * (7 - k));
        pos += 8;
        double d;
        std::memcpy(&d, &v, 8);
        return d;
    }
};

static Ring wkb_points(ByteReader& r, bool le) {
    const uint32_t n = r.u32(le);
    if (static_cast<uint64_t>(n) * 16 > r.n - r.pos) throw DecodeError("WKB: point count " + std::to_string(n) + " exceeds the data");
    Ring ring;
    for (uint32_t k = 0; k < n; ++k) { Coord c; c.x = r.f64(le); c.y = r.f64(le); ring.push_back(c); }
    return ring;
}

// one geometry: byte order, type [| SRID flag, srid], body
static void wkb_geometry(ByteReader& r, bool ewkb, Geom& g, bool nested) {
    const uint8_t bo = r.u8();
    if (bo > 1) throw DecodeError("WKB: bad byte order mark " + std::to_string(bo));
    const bool le = bo == 1;
    uint32_t type = r.u32(le);
    if (type & 0x20000000U) {
        if (!ewkb) throw DecodeError("WKB: SRID flag in plain WKB");
        type &= ~0x20000000U;
        (void)r.u32(le);
    }
    if (type & 0xc0000000U) throw DecodeError("WKB: Z/M flag set");
    if (nested) {
        if (type != 3) throw DecodeError("WKB: multipolygon member of type " + std::to_string(type));
    } else {
        g.type = static_cast<int>(type);
    }
    switch (type) {
        case 1: { Coord c; c.x = r.f64(le); c.y = r.f64(le); g.polys.push_back(Poly{Ring{c}}); break; }
        case 2: g.polys.push_back(Poly{wkb_points(r, le)}); break;
        case 3: {
            const uint32_t nr = r.u32(le);
            if (static_cast<uint64_t>(nr) * 4 > r.n - r.pos) throw DecodeError("WKB: ring count " + std::to_string(nr) + " exceeds the data");
            Poly p;
            for (uint32_t k = 0; k < nr; ++k) p.push_back(wkb_points(r, le));
            g.polys.push_back(p);
            break;
        }
        case 6: {
            if (nested) throw DecodeError("WKB: nested multipolygon");
            const uint32_t np = r.u32(le);
            if (static_cast<uint64_t>(np) * 9 > r.n - r.pos) throw DecodeError("WKB: polygon count " + std::to_string(np) + " exceeds the data");
            for (uint32_t k = 0; k < np; ++k) wkb_geometry(r, ewkb, g, true);
            break;
        }
        default: throw DecodeError("WKB: geometry type " + std::to_string(type));
    }
}

static Geom read_wkb(const std::string& bytes, bool ewkb) {
    ByteReader r{reinterpret_cast<const unsigned char*>(bytes.data()), bytes.size()};
    Geom g;
    wkb_geometry(r, ewkb, g, false);
    if (r.pos != r.n) throw DecodeError("WKB: " + std::to_string(r.n - r.pos) + " bytes after the geometry (a count field is too small)");
    return g;
}

static std::string unhex(const std::string& h) {
    if (h.size() % 2) throw DecodeError("hex: odd length");
    auto val = [](char c) -> int {
        if (c >= '0' && c <= '9') return c - '0';
        if (c >= 'a' && c <= 'f') return c - 'a' + 10;
        if (c >= 'A' && c <= 'F') return c - 'A' + 10;
        throw DecodeError("hex: bad digit");
    };
    std::string o;
    for (std::size_t k = 0; k < h.size(); k += 2) o += static_cast<char>(val(h[k]) * 16 + val(h[k + 1]));
    return o;
}

// ------------------------------------------------------------------------------------------------ number texts

static bool numchar(char c) { return (c >= '0' && c <= '9') || c == '-' || c == '+' || c == '.' || c == 'e' || c == 'E'; }

static double parse_number(const std::string& t) {
    if (t.empty()) throw DecodeError("number: empty");
    for (const char c : t) if (!numchar(c)) throw DecodeError("number: bad character in '" + printable(t) + "'");
    char* end = nullptr;
    const double d = std::strtod(t.c_str(), &end);
    if (end != t.c_str() + t.size() || !std::isfinite(d)) throw DecodeError("number: cannot parse '" + printable(t) + "'");
    return d;
}

static int frac_digits(const std::string& t) {
    const auto dot = t.find('.');
    if (dot == std::string::npos) return 0;
    int n = 0;
    for (std::size_t k = dot + 1; k < t.size() && std::isdigit(static_cast<unsigned char>(t[k])); ++k) ++n;
    return n;
}

// canonical plain decimal: no superfluous zeros, no dangling '.', no sign on zero
static std::string canon_number(std::string t) {
    if (t.find_first_of("eE+") != std::string::npos) return t;
    if (t.find('.') != std::string::npos) {
        while (!t.empty() && t.back() == '0') t.pop_back();
        if (!t.empty() && t.back() == '.') t.pop_back();
    }
    if (t.size() >= 2 && t[0] == '-' && t.find_first_not_of("0.", 1) == std::string::npos) t.erase(0, 1);
    return t;
}

// ------------------------------------------------------------------------------------------------ WKT / EWKT reader

struct TextReader {
    const std::string& s;
    std::size_t pos = 0;
    explicit TextReader(const std::string& str) : s(str) {}
    void ws() { while (pos < s.size() && (s[pos] == ' ' || s[pos] == '\t' || s[pos] == '\n')) ++pos; }
    bool peek(char c) { ws(); return pos < s.size() && s[pos] == c; }
    void expect(char c) {
        ws();
        if (pos >= s.size() || s[pos] != c) {
            throw DecodeError(std::string("text: expected '") + c + "' at offset " + std::to_string(pos));
        }
        ++pos;
    }
    std::string number() {
        ws();
        const std::size_t b = pos;
        while (pos < s.size() && numchar(s[pos])) ++pos;
        if (b == pos) throw DecodeError("text: expected a number at offset " + std::to_string(b));
        return s.substr(b, pos - b);
    }
    std::string word() {
        ws();
        const std::size_t b = pos;
        while (pos < s.size() && std::isalpha(static_cast<unsigned char>(s[pos]))) ++pos;
        return s.substr(b, pos - b);
    }
    void end() { ws(); if (pos != s.size()) throw DecodeError("text: trailing characters at offset " + std::to_string(pos)); }
};

static Coord wkt_point(TextReader& r) {
    Coord c;
    c.tx = r.number();
    c.ty = r.number();
    c.x = parse_number(c.tx);
    c.y = parse_number(c.ty);
    return c;
}
static Ring wkt_ring(TextReader& r) {
    Ring ring;
    r.expect('(');
    do { ring.push_back(wkt_point(r)); } while (r.peek(',') && (r.expect(','), true));
    r.expect(')');
    return ring;
}
static Poly wkt_poly(TextReader& r) {
    Poly p;
    r.expect('(');
    do { p.push_back(wkt_ring(r)); } while (r.peek(',') && (r.expect(','), true));
    r.expect(')');
    return p;
}

static Geom read_wkt(const std::string& s, bool ewkt) {
    for (const char c : s) if (c == '\0') throw DecodeError("WKT: NUL character in the text");
    TextReader r{s};
    if (s.compare(0, 5, "SRID=") == 0) {
        if (!ewkt) throw DecodeError("WKT: SRID prefix in plain WKT");
        r.pos = 5;
        (void)parse_number(r.number());
        r.expect(';');
    }
    std::string w = r.word();
    for (auto& c : w) c = static_cast<char>(std::toupper(static_cast<unsigned char>(c)));
    Geom g;
    if (w == "POINT") {
        g.type = 1;
        r.expect('(');
        g.polys.push_back(Poly{Ring{wkt_point(r)}});
        r.expect(')');
    } else if (w == "LINESTRING") {
        g.type = 2;
        g.polys.push_back(Poly{wkt_ring(r)});
    } else if (w == "POLYGON") {
        g.type = 3;
        g.polys.push_back(wkt_poly(r));
    } else if (w == "MULTIPOLYGON") {
        g.type = 6;
        r.expect('(');
        do { g.polys.push_back(wkt_poly(r)); } while (r.peek(',') && (r.expect(','), true));
        r.expect(')');
    } else {
        throw DecodeError("WKT: unknown geometry '" + printable(w) + "'");
    }
    r.end();
    return g;
}

// ------------------------------------------------------------------------------------------------ GeoJSON reader

static Coord gj_point(const json& j) {
    if (!j.is_array() || j.size() != 2 || !j[0].is_number() || !j[1].is_number()) throw DecodeError("GeoJSON: position is not [number, number]");
    Coord c;
    c.x = j[0].get<double>();
    c.y = j[1].get<double>();
    return c;
}
static Ring gj_ring(const json& j) {
    if (!j.is_array()) throw DecodeError("GeoJSON: coordinate list is not an array");
    Ring r;
    for (const auto& e : j) r.push_back(gj_point(e));
    return r;
}
static Poly gj_poly(const json& j) {
    if (!j.is_array()) throw DecodeError("GeoJSON: ring list is not an array");
    Poly p;
    for (const auto& e : j) p.push_back(gj_ring(e));
    return p;
}

// the number texts inside "coordinates", in document order
static std::vector<std::string> gj_number_texts(const std::string& s) {
    std::vector<std::string> out;
    const auto at = s.find("\"coordinates\"");
    if (at == std::string::npos) return out;
    std::size_t pos = at + 13;
    while (pos < s.size()) {
        if (numchar(s[pos])) {
            const std::size_t b = pos;
            while (pos < s.size() && numchar(s[pos])) ++pos;
            out.push_back(s.substr(b, pos - b));
        } else {
            ++pos;
        }
    }
    return out;
}

static Geom read_geojson_value(const json& j) {
    if (!j.is_object() || !j.contains("type") || !j.contains("coordinates") || !j["type"].is_string()) {
        throw DecodeError("GeoJSON: not a geometry object");
    }
    const std::string t = j["type"];
    const json& c = j["coordinates"];
    Geom g;
    if (t == "Point") { g.type = 1; g.polys.push_back(Poly{Ring{gj_point(c)}}); }
    else if (t == "LineString") { g.type = 2; g.polys.push_back(Poly{gj_ring(c)}); }
    else if (t == "Polygon") { g.type = 3; g.polys.push_back(gj_poly(c)); }
    else if (t == "MultiPolygon") {
        g.type = 6;
        if (!c.is_array()) throw DecodeError("GeoJSON: polygon list is not an array");
        for (const auto& e : c) g.polys.push_back(gj_poly(e));
    } else throw DecodeError("GeoJSON: unknown type '" + printable(t) + "'");
    return g;
}

static Geom read_geojson(const std::string& s, bool with_texts) {
    for (const char c : s) if (c == '\0') throw DecodeError("GeoJSON: NUL character in the text");
    json j;
    try {
        j = json::parse(s);
    } catch (const json::exception& e) {
        throw DecodeError(std::string("GeoJSON: not JSON: ") + e.what());
    }
    Geom g = read_geojson_value(j);
    if (with_texts) {
        const auto texts = gj_number_texts(s);
        std::size_t k = 0, total = 0;
        for (auto& p : g.polys) for (auto& r : p) total += 2 * r.size();
        if (texts.size() != total) throw DecodeError("GeoJSON: number of number texts differs from the number of coordinates");
        for (auto& p : g.polys) for (auto& r : p) for (auto& c : r) { c.tx = texts[k++]; c.ty = texts[k++]; }
    }
    return g;
}

// ------------------------------------------------------------------------------------------------ comparison

enum class Cmp { exact, text };

// empty string: equal
static std::string compare(const Geom& e, const Geom& g, Cmp mode, int prec) {
    if (e.type != g.type) return "geometry type " + std::to_string(g.type) + " instead of " + std::to_string(e.type);
    if (e.polys.size() != g.polys.size()) return std::to_string(g.polys.size()) + " polygons instead of " + std::to_string(e.polys.size());
    for (std::size_t a = 0; a < e.polys.size(); ++a) {
        if (e.polys[a].size() != g.polys[a].size()) {
            return "polygon " + std::to_string(a) + ": " + std::to_string(g.polys[a].size()) + " rings instead of " + std::to_string(e.polys[a].size());
        }
        for (std::size_t b = 0; b < e.polys[a].size(); ++b) {
            const Ring& er = e.polys[a][b];
            const Ring& gr = g.polys[a][b];
            if (er.size() != gr.size()) {
                return "polygon " + std::to_string(a) + " ring " + std::to_string(b) + ": " + std::to_string(gr.size()) + " points instead of " + std::to_string(er.size());
            }
            for (std::size_t c = 0; c < er.size(); ++c) {
                const std::string where = "polygon " + std::to_string(a) + " ring " + std::to_string(b) + " point " + std::to_string(c);
                const double ev[2] = {er[c].x, er[c].y};
                const double gv[2] = {gr[c].x, gr[c].y};
                const std::string* gt[2] = {&gr[c].tx, &gr[c].ty};
                for (int d = 0; d < 2; ++d) {
                    if (mode == Cmp::exact) {
                        if (std::memcmp(&ev[d], &gv[d], sizeof(double)) != 0 && !(ev[d] == gv[d])) {
                            return where + ": coordinate differs";
                        }
                    } else {
                        const double ulp = std::nextafter(std::fabs(ev[d]), std::numeric_limits<double>::infinity()) - std::fabs(ev[d]);
                        const double tol = 0.5 * std::pow(10.0, -prec) + ulp;
                        if (!(std::fabs(ev[d] - gv[d]) <= tol)) {
                            return where + ": number is not the coordinate rounded to " + std::to_string(prec) + " digits";
                        }
                        if (!gt[d]->empty() && gt[d]->find_first_of("eE") == std::string::npos && frac_digits(*gt[d]) > prec) {
                            return where + ": more than " + std::to_string(prec) + " digits after the decimal point";
                        }
                    }
                }
            }
        }
    }
    return "";
}

// ------------------------------------------------------------------------------------------------ valuations

// Model tokens -> concrete locations (units of 1e-7 degree).  j is the ring item index inside an area (0 for
// node lists); every ring gets its own coordinates so that misplaced rings/points are visible.
struct Valuation {
    const char* name;
    int32_t base[4][2];      // p q r s
};
static const Valuation valuations[] = {
    {"small", {{15000000, 22500000}, {31250000, 45000000}, {-57500000, -63750000}, {1000000, -1000000}}},
    {"edge", {{-1800000000, -850511288}, {1800000000, 850511288}, {0, 0}, {1799999999, -1}}},
    {"fine", {{133777771, 525162749}, {-1221234567, 377654321}, {1513141516, -338765433}, {-700000001, 789999999}}},
    // as "small" but WITHOUT the per-ring offset: the rings of an area share their locations, as the specification's
    // tokens literally do (a ring may start where the previous one ended; duplicate suppression is per ring)
    {"shared", {{15000000, 22500000}, {31250000, 45000000}, {-57500000, -63750000}, {1000000, -1000000}}},
};

static osmium::Location loc_of(const Valuation& v, int j, const std::string& tok) {
    if (tok == "U") return osmium::Location{};
    if (tok == "X") {
        // defined but not valid: longitude out of range / latitude out of range / only one coordinate undefined
        switch (j % 3) {
            case 0: return osmium::Location{static_cast<int32_t>(1800000001 + j), static_cast<int32_t>(100)};
            case 1: return osmium::Location{static_cast<int32_t>(100), static_cast<int32_t>(-900000001 - j)};
            default: return osmium::Location{static_cast<int32_t>(osmium::Location::undefined_coordinate), static_cast<int32_t>(100)};
        }
    }
    const int t = tok == "p" ? 0 : tok == "q" ? 1 : tok == "r" ? 2 : tok == "s" ? 3 : -1;
    if (t < 0) throw vh::Mismatch(-1, "known token", tok);
    int32_t x = v.base[t][0];
    int32_t y = v.base[t][1];
    // move towards the origin so that the range is never left
    const bool shared = std::strcmp(v.name, "shared") == 0;
    const int32_t dx = shared ? 0 : 1000003 * j;
    const int32_t dy = shared ? 0 : 700001 * j;
    x = x > 0 ? x - dx : x + dx;
    y = y > 0 ? y - dy : y + dy;
    return osmium::Location{x, y};
}

template <typename TProj> struct ProjName;
template <> struct ProjName<osmium::geom::IdentityProjection> { static const char* name() { return "identity"; } };
template <> struct ProjName<osmium::geom::MercatorProjection> { static const char* name() { return "mercator"; } };

static osmium::geom::Coordinates project(const osmium::geom::IdentityProjection&, const osmium::Location& l) {
    // independent of IdentityProjection: a Location is a pair of fixed point numbers with 7 decimal digits
    return osmium::geom::Coordinates{static_cast<double>(l.x()) / 10000000.0, static_cast<double>(l.y()) / 10000000.0};
}
static osmium::geom::Coordinates project(const osmium::geom::MercatorProjection& p, const osmium::Location& l) {
    return p(l);     // accuracy of the projection itself is C18, not C17
}

// ------------------------------------------------------------------------------------------------ objects

struct Objects {
    osmium::memory::Buffer buffer{4096, osmium::memory::Buffer::auto_grow::yes};
    std::size_t way_off = 0, node_off = 0, area_off = 0;
    const osmium::Way& way() const { return buffer.get<osmium::Way>(way_off); }
    const osmium::Node& node() const { return buffer.get<osmium::Node>(node_off); }
    const osmium::Area& area() const { return buffer.get<osmium::Area>(area_off); }
};

static void build_objects(Objects& o, const Valuation& v, const json& st) {
    const std::string kind = st["kind"];
    if (kind == "point") {
        {
            osmium::builder::NodeBuilder nb{o.buffer};
            nb.set_id(41);
            nb.set_location(loc_of(v, 0, st["nodes"][0]));
        }
        o.node_off = o.buffer.commit();
    } else if (kind == "linestring" || kind == "polygon") {
        {
            osmium::builder::WayBuilder wb{o.buffer};
            wb.set_id(42);
            if (!st["nodes"].empty() || st["un"] == "all") {     // (a way without any node list sub-item is also legal)
                osmium::builder::WayNodeListBuilder nb{o.buffer, &wb};
                osmium::object_id_type id = 1;
                for (const auto& t : st["nodes"]) nb.add_node_ref(id++, loc_of(v, 0, t));
            }
        }
        o.way_off = o.buffer.commit();
    } else {
        {
            osmium::builder::AreaBuilder ab{o.buffer};
            ab.set_id(43);
            int j = 1;
            osmium::object_id_type id = 1;
            for (const auto& item : st["area"]) {
                if (item["role"] == "outer") {
                    osmium::builder::OuterRingBuilder rb{o.buffer, &ab};
                    for (const auto& t : item["pts"]) rb.add_node_ref(id++, loc_of(v, j, t));
                } else {
                    osmium::builder::InnerRingBuilder rb{o.buffer, &ab};
                    for (const auto& t : item["pts"]) rb.add_node_ref(id++, loc_of(v, j, t));
                }
                ++j;
            }
        }
        o.area_off = o.buffer.commit();
    }
}

template <typename TProj>
static Geom expected_geom(const TProj& proj, const Valuation& v, const json& st) {
    const std::string kind = st["kind"];
    const json& tree = st["tree"];
    auto pt = [&](const json& p) {
        const auto c = project(proj, loc_of(v, p[0].get<int>(), p[1].get<std::string>()));
        Coord r; r.x = c.x; r.y = c.y; return r;
    };
    auto ring = [&](const json& r) { Ring out; for (const auto& p : r) out.push_back(pt(p)); return out; };
    Geom g;
    if (kind == "point") { g.type = 1; g.polys.push_back(Poly{Ring{pt(tree[0])}}); }
    else if (kind == "linestring") { g.type = 2; g.polys.push_back(Poly{ring(tree)}); }
    else if (kind == "polygon") { g.type = 3; Poly p; for (const auto& r : tree) p.push_back(ring(r)); g.polys.push_back(p); }
    else { g.type = 6; for (const auto& pj : tree) { Poly p; for (const auto& r : pj) p.push_back(ring(r)); g.polys.push_back(p); } }
    return g;
}

// ------------------------------------------------------------------------------------------------ running a call

struct Outcome {
    std::string cls;     // "ok" | "geometry_error" | "invalid_location" | "other: ..."
    std::string value;
};

template <typename F>
static Outcome guarded(F&& f) {
    Outcome o;
    try {
        o.value = f();
        o.cls = "ok";
    } catch (const osmium::geometry_error& e) {
        o.cls = "geometry_error";
        o.value = e.what();
    } catch (const osmium::invalid_location& e) {
        o.cls = "invalid_location";
        o.value = e.what();
    } catch (const vh::Mismatch&) {
        throw;
    } catch (const std::exception& e) {
        o.cls = std::string("other: ") + typeid(e).name() + ": " + e.what();
    }
    return o;
}

// variant selects the overload the call goes through (object / sub-object / location)
template <typename TFactory>
static Outcome call_factory(TFactory& f, const Objects& o, const json& st, int variant) {
    const std::string kind = st["kind"];
    const auto un = st["un"] == "all" ? osmium::geom::use_nodes::all : osmium::geom::use_nodes::unique;
    const auto dir = st["dir"] == "bwd" ? osmium::geom::direction::backward : osmium::geom::direction::forward;
    if (kind == "point") {
        switch (variant % 3) {
            case 0: return guarded([&]() { return f.create_point(o.node()); });
            case 1: return guarded([&]() { return f.create_point(o.node().location()); });
            default: return guarded([&]() { return f.create_point(osmium::NodeRef{41, o.node().location()}); });
        }
    }
    if (kind == "linestring") {
        if (variant % 2 == 0) return guarded([&]() { return f.create_linestring(o.way(), un, dir); });
        return guarded([&]() { return f.create_linestring(o.way().nodes(), un, dir); });
    }
    if (kind == "polygon") {
        if (variant % 2 == 0) return guarded([&]() { return f.create_polygon(o.way(), un, dir); });
        return guarded([&]() { return f.create_polygon(o.way().nodes(), un, dir); });
    }
    return guarded([&]() { return f.create_multipolygon(o.area()); });
}

static void verdict_check(int step, const json& st, const Outcome& o, const std::string& label, bool binary) {
    const std::string verdict = st["verdict"];
    if (verdict == "reject") {
        if (o.cls != "geometry_error" && o.cls != "invalid_location") {
            throw vh::Mismatch(step, json{{"verdict", "reject"}, {"class", st["cls"]}},
                               json{{"class", o.cls}, {"output", o.cls == "ok" ? (binary ? to_hex(o.value) : printable(o.value)) : o.value}},
                               label + ": degenerate input was not rejected with a geometry or location error");
        }
    } else if (o.cls != "ok") {
        throw vh::Mismatch(step, json{{"verdict", "ok"}}, json{{"class", o.cls}, {"what", o.value}}, label + ": valid input was rejected");
    }
}

template <typename TProj>
struct FactorySet {
    TProj proj;
    std::vector<int> precs;
    osmium::geom::WKBFactory<TProj> wkb{osmium::geom::wkb_type::wkb, osmium::geom::out_type::binary};
    osmium::geom::WKBFactory<TProj> ewkb{osmium::geom::wkb_type::ewkb, osmium::geom::out_type::binary};
    osmium::geom::WKBFactory<TProj> wkbhex{osmium::geom::wkb_type::wkb, osmium::geom::out_type::hex};
    osmium::geom::WKBFactory<TProj> ewkbhex{osmium::geom::wkb_type::ewkb, osmium::geom::out_type::hex};
    osmium::geom::WKTFactory<TProj> wkt_default;
    osmium::geom::GeoJSONFactory<TProj> gj_default;
    std::vector<std::unique_ptr<osmium::geom::WKTFactory<TProj>>> wkt, ewkt;
    std::vector<std::unique_ptr<osmium::geom::GeoJSONFactory<TProj>>> gj;

    explicit FactorySet(const std::vector<int>& ps) : precs(ps) {
        for (const int p : precs) {
            wkt.emplace_back(new osmium::geom::WKTFactory<TProj>{p});
            ewkt.emplace_back(new osmium::geom::WKTFactory<TProj>{p, osmium::geom::wkt_type::ewkt});
            gj.emplace_back(new osmium::geom::GeoJSONFactory<TProj>{p});
        }
    }

    void fail(int step, const Geom& exp, const std::string& raw, bool binary, const std::string& label, const std::string& why, const Geom* got, bool texts) {
        json g{{"output", binary ? to_hex(raw) : printable(raw)}};
        if (got) g["decoded"] = geom_json(*got, texts);
        throw vh::Mismatch(step, geom_json(exp, false), g, label + ": " + why);
    }

    template <typename TReader>
    void check_one(int step, const json& st, const Geom* exp, const Outcome& o, bool binary, const std::string& fmt, Cmp mode, int prec, TReader&& reader) {
        const std::string label = std::string(ProjName<TProj>::name()) + "/" + fmt + (mode == Cmp::text ? "/precision " + std::to_string(prec) : "");
        verdict_check(step, st, o, label, binary);
        if (o.cls != "ok") return;
        Geom got;
        try {
            got = reader(o.value);
        } catch (const DecodeError& e) {
            fail(step, *exp, o.value, binary, label, std::string("the output cannot be decoded: ") + e.what(), nullptr, false);
        }
        const std::string why = compare(*exp, got, mode, prec);
        if (!why.empty()) fail(step, *exp, o.value, binary, label, why, &got, mode == Cmp::text);
    }

    void step(int k, const json& st, const Valuation& v, const Objects& o) {
        Geom exp;
        const bool ok = st["verdict"] == "ok";
        if (ok) exp = expected_geom(proj, v, st);
        const Geom* e = ok ? &exp : nullptr;
        int variant = k;
        check_one(k, st, e, call_factory(wkb, o, st, variant++), true, "wkb", Cmp::exact, 0, [](const std::string& s) { return read_wkb(s, false); });
        check_one(k, st, e, call_factory(ewkb, o, st, variant++), true, "ewkb", Cmp::exact, 0, [](const std::string& s) { return read_wkb(s, true); });
        check_one(k, st, e, call_factory(wkbhex, o, st, variant++), false, "wkb-hex", Cmp::exact, 0, [](const std::string& s) { return read_wkb(unhex(s), false); });
        check_one(k, st, e, call_factory(ewkbhex, o, st, variant++), false, "ewkb-hex", Cmp::exact, 0, [](const std::string& s) { return read_wkb(unhex(s), true); });
        check_one(k, st, e, call_factory(wkt_default, o, st, variant++), false, "wkt-default", Cmp::text, 7, [](const std::string& s) { return read_wkt(s, false); });
        check_one(k, st, e, call_factory(gj_default, o, st, variant++), false, "geojson-default", Cmp::text, 7, [](const std::string& s) { return read_geojson(s, true); });
        for (std::size_t n = 0; n < precs.size(); ++n) {
            const int p = precs[n];
            check_one(k, st, e, call_factory(*wkt[n], o, st, variant++), false, "wkt", Cmp::text, p, [](const std::string& s) { return read_wkt(s, false); });
            check_one(k, st, e, call_factory(*ewkt[n], o, st, variant++), false, "ewkt", Cmp::text, p, [](const std::string& s) { return read_wkt(s, true); });
            check_one(k, st, e, call_factory(*gj[n], o, st, variant++), false, "geojson", Cmp::text, p, [](const std::string& s) { return read_geojson(s, true); });
        }
#ifdef VH_HAVE_RAPIDJSON
        {
            // streams into a writer and returns nothing: a fresh writer per call (a throwing call leaves it mid-document)
            using Writer = rapidjson::Writer<rapidjson::StringBuffer>;
            rapidjson::StringBuffer sb;
            Writer w{sb};
            osmium::geom::RapidGeoJSONFactory<Writer, TProj> f{w};
            Outcome out;
            const std::string kind = st["kind"];
            const auto un = st["un"] == "all" ? osmium::geom::use_nodes::all : osmium::geom::use_nodes::unique;
            const auto dir = st["dir"] == "bwd" ? osmium::geom::direction::backward : osmium::geom::direction::forward;
            out = guarded([&]() {
                w.StartObject();
                if (kind == "point") f.create_point(o.node());
                else if (kind == "linestring") f.create_linestring(o.way(), un, dir);
                else if (kind == "polygon") f.create_polygon(o.way(), un, dir);
                else f.create_multipolygon(o.area());
                w.EndObject();
                return std::string{sb.GetString(), sb.GetSize()};
            });
            check_one(k, st, e, out, false, "rapidjson-geojson", Cmp::exact, 0, [](const std::string& s) {
                json j;
                try { j = json::parse(s); } catch (const json::exception& ex) { throw DecodeError(std::string("not JSON: ") + ex.what()); }
                if (!j.is_object() || !j.contains("geometry")) throw DecodeError("no geometry member");
                return read_geojson_value(j["geometry"]);
            });
        }
#endif
    }
};

static void run_geom(const json& c) {
    const std::string vname = c["val"];
    const Valuation* v = nullptr;
    for (const auto& cand : valuations) if (vname == cand.name) v = &cand;
    if (!v) throw vh::Mismatch(-1, "known valuation", vname);
    const std::vector<int> precs = c["precs"].get<std::vector<int>>();
    FactorySet<osmium::geom::IdentityProjection> fid{precs};
    FactorySet<osmium::geom::MercatorProjection> fme{precs};
    int k = 0;
    for (const auto& st : c["steps"]) {
        vh::step_marker(k);
        Objects o;
        build_objects(o, *v, st);
        fid.step(k, st, *v, o);
        fme.step(k, st, *v, o);
        ++k;
    }
}

// ------------------------------------------------------------------------------------------------ exact number texts

// A projection is a customisation point of GeometryFactory: this one looks the coordinates up in a table, so that
// coordinates of every magnitude a projection can produce reach the text formatting.
struct TableProjection {
    static std::vector<osmium::geom::Coordinates>& table() { static std::vector<osmium::geom::Coordinates> t; return t; }
    osmium::geom::Coordinates operator()(osmium::Location l) const { return table().at(static_cast<std::size_t>(l.x())); }
    static int epsg() noexcept { return 4326; }
    static std::string proj_string() { return ""; }
};

static double num_value(const json& n) {
    const double a = static_cast<double>(n["ip"].get<int64_t>()) + static_cast<double>(n["f8"].get<int>()) / 8.0;
    return n["neg"].get<bool>() ? -a : a;
}

static void num_compare(int step, const std::string& label, const std::string& raw, const Geom& g, const std::vector<std::string>& exp) {
    std::vector<std::string> got;
    for (const auto& p : g.polys) for (const auto& r : p) for (const auto& c : r) { got.push_back(canon_number(c.tx)); got.push_back(canon_number(c.ty)); }
    if (got != exp) throw vh::Mismatch(step, exp, json{{"numbers", got}, {"output", printable(raw)}}, label + ": coordinate text is not the value rounded to the requested precision");
}

static void run_num(const json& c) {
    const int prec = c["prec"];
    const double a = num_value(c["a"]);
    const double b = num_value(c["b"]);
    const std::string ta = c["a"]["text"];
    const std::string tb = c["b"]["text"];
    TableProjection::table() = {osmium::geom::Coordinates{a, b}, osmium::geom::Coordinates{b, a}};
    Objects o;
    {
        osmium::builder::WayBuilder wb{o.buffer};
        wb.set_id(7);
        osmium::builder::WayNodeListBuilder nb{o.buffer, &wb};
        nb.add_node_ref(1, osmium::Location{static_cast<int32_t>(0), static_cast<int32_t>(0)});
        nb.add_node_ref(2, osmium::Location{static_cast<int32_t>(1), static_cast<int32_t>(0)});
    }
    o.way_off = o.buffer.commit();
    int k = 0;
    auto run = [&](const std::string& label, const Outcome& out, bool gj, const std::vector<std::string>& exp) {
        vh::step_marker(k);
        if (out.cls != "ok") throw vh::Mismatch(k, "ok", out.cls + ": " + out.value, label);
        Geom g;
        try {
            g = gj ? read_geojson(out.value, true) : read_wkt(out.value, false);
        } catch (const DecodeError& e) {
            throw vh::Mismatch(k, exp, json{{"output", printable(out.value)}}, label + ": the output cannot be decoded: " + e.what());
        }
        num_compare(k, label, out.value, g, exp);
        ++k;
    };
    const std::string pl = "/precision " + std::to_string(prec);
    {
        osmium::geom::WKTFactory<TableProjection> wkt{prec};
        osmium::geom::GeoJSONFactory<TableProjection> gj{prec};
        const osmium::Location l0{static_cast<int32_t>(0), static_cast<int32_t>(0)};
        run("table/wkt point" + pl, guarded([&]() { return wkt.create_point(l0); }), false, {ta, tb});
        run("table/geojson point" + pl, guarded([&]() { return gj.create_point(l0); }), true, {ta, tb});
        run("table/wkt linestring" + pl, guarded([&]() { return wkt.create_linestring(o.way()); }), false, {ta, tb, tb, ta});
        run("table/geojson linestring" + pl, guarded([&]() { return gj.create_linestring(o.way()); }), true, {ta, tb, tb, ta});
    }
    if (std::fabs(a) <= 180.0 && std::fabs(b) <= 90.0) {
        // a Location holds multiples of 1e-7 exactly, and k/8 degree is such a multiple
        const osmium::Location l{a, b};
        osmium::geom::WKTFactory<> wkt{prec};
        osmium::geom::GeoJSONFactory<> gj{prec};
        run("identity/wkt point" + pl, guarded([&]() { return wkt.create_point(l); }), false, {ta, tb});
        run("identity/geojson point" + pl, guarded([&]() { return gj.create_point(l); }), true, {ta, tb});
    }
}

int main() {
    return vh::run_cases([](const json& c) {
        const std::string kind = c["kind"];
        if (kind == "geom") run_geom(c);
        else if (kind == "num") run_num(c);
        else throw vh::Mismatch(-1, "known kind", kind);
    });
}
