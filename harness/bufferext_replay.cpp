// C04 (extension) replay: histories exported by TLC from specs/BufferExt.tla are executed on the real
// osmium::memory::Buffer / CallbackBuffer and the real builder classes (incl. AreaBuilder, OuterRingBuilder,
// InnerRingBuilder).  After every call the projection the property names is compared with the spec's expectation:
// uncommitted bytes, the committed item sequence of the current memory block with its full content (for areas also
// the ring structure seen through Area::num_rings / is_multipolygon / outer_rings / inner_rings), has_nested_buffers,
// the content of every buffer handed out (get_last_nested, CallbackBuffer callback, read()), purge callbacks,
// commit()/clear() return values and the exception outcome.
#include "common/vh.hpp"

#include <osmium/builder/osm_object_builder.hpp>
#include <osmium/memory/buffer.hpp>
#include <osmium/memory/callback_buffer.hpp>
#include <osmium/osm.hpp>
#include <osmium/osm/area.hpp>

#include <cstring>
#include <iterator>
#include <memory>
#include <string>
#include <utility>
#include <vector>

using vh::json;
using osmium::memory::Buffer;
using osmium::memory::CallbackBuffer;
namespace ob = osmium::builder;

static std::string gen(int len, int salt) {
    std::string s(static_cast<std::size_t>(len), 'x');
    for (int i = 0; i < len; ++i) s[i] = static_cast<char>('a' + (i * 7 + salt) % 26);
    return s;
}

static void expect_str(const char* got, int len, int salt, const char* what) {
    const std::string e = gen(len, salt);
    if (std::strlen(got) != e.size() || e != got) {
        throw vh::Mismatch(-10, e, std::string(got, strnlen(got, e.size() + 8)), what);
    }
}

// ---- projection -----------------------------------------------------------------------------------------

// node refs of the sub-item number si (1-based, counted over all sub-items of the object) carry
// ref = 100 * si + position + 1, location (position, si)
static void check_refs(const osmium::NodeRefList& list, int si, bool prebuilt, json& e) {
    int idx = 0;
    for (const auto& nr : list) {
        if (prebuilt) {
            if (nr.ref() != 0) throw vh::Mismatch(-10, 0, nr.ref(), "node ref of the pre-built way");
        } else if (nr.ref() != 100 * si + idx + 1 ||
                   nr.location() != osmium::Location{static_cast<int32_t>(idx), static_cast<int32_t>(si)}) {
            throw vh::Mismatch(-10, 100 * si + idx + 1, nr.ref(), "node ref content");
        }
        e.push_back(0);
        ++idx;
    }
    if (list.size() != static_cast<std::size_t>(idx)) throw vh::Mismatch(-10, idx, list.size(), "NodeRefList::size()");
}

static json parse_object_subs(const osmium::OSMObject& obj) {
    json subs = json::array();
    const unsigned char* const end = obj.data() + obj.padded_size();
    const bool prebuilt = obj.id() == 901;
    int si = 0;
    for (auto it = obj.cbegin(); it != obj.cend(); ++it) {
        ++si;
        if (it->data() + 8 > end || it->data() + it->padded_size() > end || it->byte_size() < 8) {
            throw vh::Mismatch(-11, "sub-item inside its object", "sub-item leaves the object");
        }
        if ((it->data() - obj.data()) % 8 != 0) throw vh::Mismatch(-11, 0, (it->data() - obj.data()) % 8, "sub-item not 8-byte aligned");
        json s;
        s["size"] = it->byte_size();
        json e = json::array();
        switch (it->type()) {
            case osmium::item_type::tag_list: {
                s["t"] = "taglist";
                int idx = 0;
                for (const auto& tag : static_cast<const osmium::TagList&>(*it)) {
                    const int kl = static_cast<int>(std::strlen(tag.key()));
                    const int vl = static_cast<int>(std::strlen(tag.value()));
                    expect_str(tag.key(), kl, 2 * idx, "tag key bytes");
                    expect_str(tag.value(), vl, 2 * idx + 1, "tag value bytes");
                    e.push_back(json::array({kl, vl}));
                    ++idx;
                }
                break;
            }
            case osmium::item_type::way_node_list:
                s["t"] = "nodes";
                check_refs(static_cast<const osmium::WayNodeList&>(*it), si, prebuilt, e);
                break;
            case osmium::item_type::outer_ring:
                s["t"] = "outer";
                check_refs(static_cast<const osmium::OuterRing&>(*it), si, false, e);
                break;
            case osmium::item_type::inner_ring:
                s["t"] = "inner";
                check_refs(static_cast<const osmium::InnerRing&>(*it), si, false, e);
                break;
            case osmium::item_type::relation_member_list:
            case osmium::item_type::relation_member_list_with_full_members: {
                s["t"] = "members";
                int idx = 0;
                for (const auto& m : static_cast<const osmium::RelationMemberList&>(*it)) {
                    const int rl = static_cast<int>(std::strlen(m.role()));
                    expect_str(m.role(), rl, idx, "role bytes");
                    if (m.ref() != 1000 + idx || m.type() != osmium::item_type::node) {
                        throw vh::Mismatch(-10, 1000 + idx, m.ref(), "member ref/type");
                    }
                    json jm;
                    jm["rl"] = rl;
                    if (m.full_member()) {
                        jm["full"] = m.get_object().padded_size();
                        jm["fid"] = m.get_object().id();
                    } else {
                        jm["full"] = 0;
                        jm["fid"] = 0;
                    }
                    e.push_back(jm);
                    ++idx;
                }
                break;
            }
            default:
                s["t"] = std::string("unexpected:") + osmium::item_type_to_name(it->type());
        }
        s["e"] = e;
        subs.push_back(s);
    }
    return subs;
}

// index (1-based, over all sub-items) of the sub-item at address p
static int sub_index(const osmium::Area& area, const unsigned char* p) {
    int si = 0;
    for (auto it = area.cbegin(); it != area.cend(); ++it) {
        ++si;
        if (it->data() == p) return si;
    }
    throw vh::Mismatch(-11, "ring is a sub-item of its area", "ring address not among the area's sub-items");
}

// the ring structure as the Area API presents it
static void area_view(const osmium::Area& area, json& c) {
    const auto nr = area.num_rings();
    c["nr"] = json::array({nr.first, nr.second});
    c["mp"] = area.is_multipolygon();
    json rings = json::array();
    for (const auto& outer : area.outer_rings()) {
        json r;
        r["o"] = json::array({sub_index(area, outer.data()), outer.size()});
        json inn = json::array();
        for (const auto& inner : area.inner_rings(outer)) {
            inn.push_back(json::array({sub_index(area, inner.data()), inner.size()}));
        }
        r["inn"] = inn;
        rings.push_back(r);
    }
    c["rings"] = rings;
}

struct ParsedItem { json content; std::size_t offset; std::size_t psize; bool removed; };

static std::vector<ParsedItem> parse_block(const unsigned char* data, std::size_t committed) {
    std::vector<ParsedItem> out;
    std::size_t off = 0;
    while (off < committed) {
        if (off % 8 != 0) throw vh::Mismatch(-11, 0, off % 8, "item not 8-byte aligned");
        const auto& item = *reinterpret_cast<const osmium::memory::Item*>(data + off);
        const std::size_t ps = item.padded_size();
        if (ps < 8 || off + ps > committed) {
            throw vh::Mismatch(-11, committed, off + ps, "item sequence leaves the committed region");
        }
        json c;
        c["removed"] = item.removed();
        switch (item.type()) {
            case osmium::item_type::node:
            case osmium::item_type::way:
            case osmium::item_type::relation:
            case osmium::item_type::area: {
                const auto& o = static_cast<const osmium::OSMObject&>(item);
                c["t"] = osmium::item_type_to_name(item.type());
                c["id"] = o.id();
                const int ul = static_cast<int>(std::strlen(o.user()));
                if (o.id() < 800) expect_str(o.user(), ul, static_cast<int>(o.id()), "user bytes");
                c["ul"] = ul;
                c["subs"] = parse_object_subs(o);
                if (item.type() == osmium::item_type::area) area_view(static_cast<const osmium::Area&>(item), c);
                break;
            }
            default:
                c["t"] = std::string("unexpected:") + osmium::item_type_to_name(item.type());
        }
        out.push_back(ParsedItem{c, off, ps, item.removed()});
        off += ps;
    }
    return out;
}

static json block_json(const Buffer& buf) {
    json a = json::array();
    for (const auto& p : parse_block(buf.data(), buf.committed())) a.push_back(p.content);
    return a;
}

// ---- the system under test ---------------------------------------------------------------------------

struct Builders {
    std::unique_ptr<ob::NodeBuilder> node;
    std::unique_ptr<ob::WayBuilder> way;
    std::unique_ptr<ob::RelationBuilder> relation;
    std::unique_ptr<ob::AreaBuilder> area;
    std::unique_ptr<ob::TagListBuilder> tags;
    std::unique_ptr<ob::WayNodeListBuilder> nodes;
    std::unique_ptr<ob::OuterRingBuilder> outer;
    std::unique_ptr<ob::InnerRingBuilder> inner;
    std::unique_ptr<ob::RelationMemberListBuilder> members;
    int64_t id = 0;
    int nelem = 0;
    int nsub = 0;
    ob::Builder* object() {
        if (node) return node.get();
        if (way) return way.get();
        if (relation) return relation.get();
        return area.get();
    }
    void close_sub() { tags.reset(); nodes.reset(); outer.reset(); inner.reset(); members.reset(); }
    void close_object() { close_sub(); node.reset(); way.reset(); relation.reset(); area.reset(); }
};

struct CallbackFailed {};

struct PurgeCb {
    std::vector<std::pair<std::size_t, std::size_t>> log;
    void moving_in_buffer(std::size_t o, std::size_t n) { log.emplace_back(o, n); }
};

static json log_json(const std::vector<std::pair<std::size_t, std::size_t>>& log) {
    json jl = json::array();
    for (const auto& p : log) jl.push_back(json::array({p.first, p.second}));
    return jl;
}

// what purge_removed must report, derived from the block as it was before the call
static json moves_of(const std::vector<ParsedItem>& before) {
    json want = json::array();
    std::size_t wr = 0;
    for (const auto& p : before) {
        if (!p.removed) {
            if (p.offset != wr) want.push_back(json::array({p.offset, wr}));
            wr += p.psize;
        }
    }
    return want;
}

static Buffer::auto_grow mode_of(const std::string& m) {
    return m == "no" ? Buffer::auto_grow::no : m == "yes" ? Buffer::auto_grow::yes : Buffer::auto_grow::internal;
}

static void build_other(Buffer& o) {
    {
        ob::NodeBuilder nb{o};
        nb.set_id(900);
    }
    o.commit();
    {
        ob::WayBuilder wb{o};
        wb.set_id(901);
        wb.set_user("abcdef");
        ob::WayNodeListBuilder wnl{wb};
        wnl.add_node_ref(0);
        wnl.add_node_ref(0);
    }
    o.commit();
}

static void run_case(const json& c) {
    static_assert(sizeof(osmium::Node) == 40 && sizeof(osmium::Way) == 32 && sizeof(osmium::Relation) == 32 &&
                  sizeof(osmium::Area) == 32 && sizeof(osmium::TagList) == 8 && sizeof(osmium::NodeRef) == 16 &&
                  sizeof(osmium::OuterRing) == 8 && sizeof(osmium::InnerRing) == 8 && sizeof(osmium::WayNodeList) == 8 &&
                  sizeof(osmium::RelationMember) == 16, "spec constants");
    const std::size_t cap0 = c["cap"].get<std::size_t>();
    const bool wrap = c["wrap"].get<bool>();
    std::vector<json> fired;
    int cb_throw = 0;      // 0: take the buffer and return, 1: look at it and throw, 2: take it and throw
    auto callback = [&fired, &cb_throw](Buffer&& handed) {
        if (cb_throw == 1) {
            if (!handed) throw vh::Mismatch(-12, "valid buffer handed to the callback", "invalid buffer");
            fired.push_back(block_json(handed));
            throw CallbackFailed{};
        }
        Buffer mine{std::move(handed)};
        if (!mine) throw vh::Mismatch(-12, "valid buffer handed to the callback", "invalid buffer");
        fired.push_back(block_json(mine));
        if (cb_throw == 2) throw CallbackFailed{};
    };
    Buffer own;
    std::unique_ptr<CallbackBuffer> cbw;
    if (wrap) {
        if (c["cb0"].get<bool>()) cbw.reset(new CallbackBuffer{callback, cap0, c["cbmax"].get<std::size_t>()});
        else cbw.reset(new CallbackBuffer{cap0, c["cbmax"].get<std::size_t>()});
    } else {
        own = Buffer{cap0, mode_of(c["mode"])};
    }
    Buffer& B = wrap ? cbw->buffer() : own;
    for (int i = 1; i <= c["pre"].get<int>(); ++i) {
        {
            ob::NodeBuilder nb{B};
            nb.set_id(800 + i);
        }
        B.commit();
    }
    Buffer oth{256, Buffer::auto_grow::yes};
    build_other(oth);
    Builders bs;
    std::unique_ptr<ob::NodeBuilder> othb;
    int k = 0;
    try {
        for (const auto& st : c["steps"]) {
            vh::step_marker(k);
            const std::string a = st["a"];
            const json& args = st["args"];
            const json& exp = st["exp"];
            std::string out = "ok";
            json took = json::array();
            json rd = json::array();
            fired.clear();
            try {
                if (a == "OpenObject") {
                    const std::string kind = args["k"];
                    bs.id = args["id"];
                    bs.nsub = 0;
                    if (kind == "node") { bs.node.reset(new ob::NodeBuilder{B}); bs.node->set_id(bs.id); }
                    else if (kind == "way") { bs.way.reset(new ob::WayBuilder{B}); bs.way->set_id(bs.id); }
                    else if (kind == "relation") { bs.relation.reset(new ob::RelationBuilder{B}); bs.relation->set_id(bs.id); }
                    else if (kind == "area") { bs.area.reset(new ob::AreaBuilder{B}); bs.area->set_id(bs.id); }
                    else throw vh::Mismatch(k, "known object kind", kind);
                } else if (a == "SetUser") {
                    const std::string u = gen(args["ul"], static_cast<int>(bs.id));
                    if (bs.node) { if (k % 2) bs.node->set_user(u); else bs.node->set_user(u.c_str()); }
                    else if (bs.way) bs.way->set_user(u.c_str(), static_cast<osmium::string_size_type>(u.size()));
                    else if (bs.relation) bs.relation->set_user(u);
                    else { if (k % 2) bs.area->set_user(u); else bs.area->set_user(u.c_str()); }
                } else if (a == "OpenSub") {
                    const std::string kind = args["k"];
                    bs.nelem = 0;
                    ++bs.nsub;
                    if (kind == "taglist") {
                        if (k % 2) bs.tags.reset(new ob::TagListBuilder{*bs.object()});
                        else bs.tags.reset(new ob::TagListBuilder{B, bs.object()});
                    } else if (kind == "nodes") bs.nodes.reset(new ob::WayNodeListBuilder{*bs.object()});
                    else if (kind == "outer") {
                        if (k % 2) bs.outer.reset(new ob::OuterRingBuilder{*bs.object()});
                        else bs.outer.reset(new ob::OuterRingBuilder{B, bs.object()});
                    } else if (kind == "inner") {
                        if (k % 2) bs.inner.reset(new ob::InnerRingBuilder{*bs.object()});
                        else bs.inner.reset(new ob::InnerRingBuilder{B, bs.object()});
                    } else if (kind == "members") bs.members.reset(new ob::RelationMemberListBuilder{*bs.object()});
                    else throw vh::Mismatch(k, "known sub-item kind", kind);
                } else if (a == "AddTag") {
                    const std::string key = gen(args["k"], 2 * bs.nelem);
                    const std::string val = gen(args["v"], 2 * bs.nelem + 1);
                    switch (bs.nelem % 3) {
                        case 0: bs.tags->add_tag(key.c_str(), val.c_str()); break;
                        case 1: bs.tags->add_tag(key.data(), key.size(), val.data(), val.size()); break;
                        default: bs.tags->add_tag(key, val); break;
                    }
                    ++bs.nelem;
                } else if (a == "AddNodeRef") {
                    const osmium::NodeRef nr{100 * bs.nsub + bs.nelem + 1,
                                             osmium::Location{static_cast<int32_t>(bs.nelem), static_cast<int32_t>(bs.nsub)}};
                    if (bs.nodes) bs.nodes->add_node_ref(nr);
                    else if (bs.outer) { if (k % 2) bs.outer->add_node_ref(nr); else bs.outer->add_node_ref(nr.ref(), nr.location()); }
                    else if (bs.inner) { if (k % 2) bs.inner->add_node_ref(nr); else bs.inner->add_node_ref(nr.ref(), nr.location()); }
                    else throw vh::Mismatch(k, "a node list builder is open", "none");
                    ++bs.nelem;
                } else if (a == "AddMember") {
                    const std::string role = gen(args["rl"], bs.nelem);
                    const osmium::OSMObject* full = args["full"].get<bool>() ? &oth.get<osmium::OSMObject>(0) : nullptr;
                    if (bs.nelem % 2) bs.members->add_member(osmium::item_type::node, 1000 + bs.nelem, role, full);
                    else bs.members->add_member(osmium::item_type::node, 1000 + bs.nelem, role.c_str(), full);
                    ++bs.nelem;
                } else if (a == "CloseSub") {
                    bs.close_sub();
                } else if (a == "CloseObject") {
                    bs.close_object();
                } else if (a == "OthOpen") {
                    othb.reset(new ob::NodeBuilder{oth});
                    othb->set_id(args["id"].get<int64_t>());
                } else if (a == "OthClose") {
                    othb.reset();
                    oth.commit();
                } else if (a == "Commit") {
                    const std::size_t ret = B.commit();
                    VH_EXPECT(k, st["cret"].get<std::size_t>(), ret, "value returned by commit()");
                } else if (a == "Rollback") {
                    B.rollback();
                } else if (a == "Clear") {
                    const std::size_t ret = B.clear();
                    VH_EXPECT(k, st["cret"].get<std::size_t>(), ret, "value returned by clear()");
                } else if (a == "AddBuffer") {
                    B.add_buffer(oth);
                } else if (a == "PushBack") {
                    auto items = parse_block(oth.data(), oth.committed());
                    if (k % 2) B.push_back(oth.get<osmium::memory::Item>(items.back().offset));
                    else *std::back_inserter(B) = oth.get<osmium::memory::Item>(items.back().offset);
                } else if (a == "SetRemoved") {
                    auto items = parse_block(B.data(), B.committed());
                    const std::size_t i = args["i"].get<std::size_t>();
                    if (i > items.size()) throw vh::Mismatch(k, i, items.size(), "current memory block has fewer items than the spec says");
                    if (items[i - 1].content["id"] != args["id"]) {
                        throw vh::Mismatch(k, args["id"], items[i - 1].content["id"], "item at this position of the current memory block");
                    }
                    B.get<osmium::memory::Item>(items[i - 1].offset).set_removed(true);
                } else if (a == "Purge") {
                    const auto before = parse_block(B.data(), B.committed());
                    if (k % 3) {
                        PurgeCb cb;
                        B.purge_removed(&cb);
                        const json got = log_json(cb.log);
                        if (got != moves_of(before)) throw vh::Mismatch(k, moves_of(before), got, "purge_removed callbacks vs actual item moves");
                        if (got != st["plog"]) throw vh::Mismatch(k, st["plog"], got, "purge_removed callbacks vs spec");
                    } else {
                        B.purge_removed();
                    }
                } else if (a == "TakeNested") {
                    if (!B.has_nested_buffers()) throw vh::Mismatch(k, "has_nested_buffers()", false, "spec takes a nested buffer out");
                    std::unique_ptr<Buffer> nb = B.get_last_nested();
                    if (!nb || !*nb) throw vh::Mismatch(k, "valid nested buffer", "null/invalid");
                    if (nb->has_nested_buffers()) throw vh::Mismatch(k, "last nested buffer has no nested buffers", "it has");
                    if (args["purge"].get<bool>()) {
                        const auto before = parse_block(nb->data(), nb->committed());
                        PurgeCb cb;
                        nb->purge_removed(&cb);
                        const json got = log_json(cb.log);
                        if (got != st["plog"]) throw vh::Mismatch(k, st["plog"], got, "purge_removed callbacks on the nested buffer vs spec");
                        if (got != moves_of(before)) throw vh::Mismatch(k, moves_of(before), got, "purge_removed callbacks vs actual item moves (nested)");
                    }
                    took.push_back(block_json(*nb));
                } else if (a == "Swap") {
                    if (k % 2) B.swap(oth); else { using std::swap; swap(B, oth); }
                } else if (a == "Move") {
                    Buffer tmp{std::move(B)};
                    if (B) throw vh::Mismatch(k, "moved-from buffer invalid", "still valid");
                    if (B.capacity() != 0 || B.written() != 0 || B.committed() != 0) throw vh::Mismatch(k, "moved-from buffer reports 0", "non-zero");
                    B = std::move(tmp);
                } else if (a == "CbPossiblyFlush") {
                    cb_throw = args["th"].get<int>();
                    cbw->possibly_flush();
                } else if (a == "CbFlush") {
                    cb_throw = args["th"].get<int>();
                    cbw->flush();
                } else if (a == "CbRead") {
                    Buffer r = cbw->read();
                    if (!r) throw vh::Mismatch(k, "valid buffer from read()", "invalid");
                    rd.push_back(block_json(r));
                } else if (a == "CbSetCallback") {
                    if (args["on"].get<bool>()) cbw->set_callback(callback); else cbw->set_callback();
                } else {
                    throw vh::Mismatch(k, "known action", a);
                }
            } catch (const osmium::buffer_is_full&) {
                out = "full";
            } catch (const CallbackFailed&) {
                out = "thrown";
            }
            cb_throw = 0;
            VH_EXPECT(k, exp["out"].get<std::string>(), out, "outcome of " + a);
            // buffers handed out during this call
            {
                json jf = json::array();
                for (const auto& f : fired) jf.push_back(f);
                if (jf.size() != st["fired"].size()) {
                    throw vh::Mismatch(k, st["fired"].size(), jf.size(), "number of callback invocations during " + a);
                }
                if (jf != st["fired"]) throw vh::Mismatch(k, st["fired"], jf, "items handed to the callback by " + a);
                if (rd != st["rd"]) throw vh::Mismatch(k, st["rd"], rd, "items in the buffer returned by read()");
                if (took != st["took"]) throw vh::Mismatch(k, st["took"], took, "items in the buffer returned by get_last_nested()");
            }
            if (!B) throw vh::Mismatch(k, "valid buffer", "invalid buffer after " + a);
            VH_EXPECT(k, exp["pb"].get<std::size_t>(), B.written() - B.committed(), "written - committed after " + a);
            if (B.committed() > B.written() || B.written() > B.capacity() || B.committed() % 8 != 0) {
                throw vh::Mismatch(k, "committed <= written <= capacity, aligned", "violated");
            }
            const json cur = block_json(B);
            if (cur != exp["cur"]) throw vh::Mismatch(k, exp["cur"], cur, "committed item sequence (current memory block) after " + a);
            VH_EXPECT(k, exp["hn"].get<bool>(), B.has_nested_buffers(), "has_nested_buffers() after " + a);
            VH_EXPECT(k, exp["opb"].get<std::size_t>(), oth.written() - oth.committed(), "second buffer: written - committed after " + a);
            VH_EXPECT(k, exp["on"].get<std::size_t>(), parse_block(oth.data(), oth.committed()).size(), "second buffer: committed items after " + a);
            ++k;
        }
        // what is left in the chain of nested buffers, oldest first (taken out before the builders that are still open
        // are destroyed: their padding may make the buffer grow once more)
        json left = json::array();
        while (B.has_nested_buffers()) {
            std::unique_ptr<Buffer> nb = B.get_last_nested();
            left.push_back(block_json(*nb));
        }
        if (left != c["fin"]) throw vh::Mismatch(k - 1, c["fin"], left, "nested buffers left at the end of the history, oldest first");
        bs.close_object();
        othb.reset();
    } catch (...) {
        bs.close_object();
        othb.reset();
        throw;
    }
}

int main() {
    return vh::run_cases(run_case);
}
