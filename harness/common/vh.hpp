// Common helpers for the replay harnesses: NDJSON case input on stdin, one NDJSON result per case.
#pragma once
#include <nlohmann/json.hpp>
#include <atomic>
#include <chrono>
#include <cstdio>
#include <thread>
#include <cstdlib>
#include <exception>
#include <iostream>
#include <sstream>
#include <string>
#include <typeinfo>
#include <unistd.h>

namespace vh {

using json = nlohmann::json;

struct Mismatch : public std::exception {
    int step;
    json exp, got;
    std::string note;
    Mismatch(int s, json e, json g, std::string n = "") : step(s), exp(std::move(e)), got(std::move(g)), note(std::move(n)) {}
    const char* what() const noexcept override { return "mismatch"; }
};

// When VH_STEPS is set every step of a case announces itself on stderr before it runs, so that the step
// at which a sanitizer killed the process can be identified by a single re-run.
inline void step_marker(int k) {
    static const bool on = std::getenv("VH_STEPS") != nullptr;
    if (on) {
        char buf[32];
        const int n = std::snprintf(buf, sizeof(buf), "STEP %d\n", k);
        (void)!::write(2, buf, static_cast<std::size_t>(n));
    }
}

inline void emit(const json& j) {
    std::string s = j.dump(-1, ' ', false, json::error_handler_t::replace);
    s.push_back('\n');
    // single write so that lines of a crashing process are never torn
    (void)!::write(1, s.data(), s.size());
}

// Opt-in watchdog (environment variable VH_CASE_TIMEOUT = seconds): a case that does not finish in time - an endless
// loop in the code under test - is reported as a failed case ("hang") and the process exits, so that the driver can
// go on with the remaining cases instead of waiting for its own, much longer, time limit.
namespace detail {
inline std::atomic<long long>& case_deadline_ms() { static std::atomic<long long> d{0}; return d; }
inline std::string& current_case_id() { static std::string s; return s; }
inline long long now_ms() {
    return std::chrono::duration_cast<std::chrono::milliseconds>(std::chrono::steady_clock::now().time_since_epoch()).count();
}
inline void start_watchdog() {
    std::thread{[] {
        for (;;) {
            std::this_thread::sleep_for(std::chrono::milliseconds(200));
            const long long d = case_deadline_ms().load();
            if (d != 0 && now_ms() > d) {
                json r;
                r["id"] = json::parse(current_case_id());
                r["ok"] = false;
                r["step"] = -1;
                r["note"] = "hang: the case did not finish within VH_CASE_TIMEOUT seconds (endless loop?)";
                emit(r);
                ::_exit(3);
            }
        }
    }}.detach();
}
} // namespace detail

// Runs fn(case) for every NDJSON line on stdin.
template <typename F>
int run_cases(F&& fn) {
    std::string line;
    const char* wd = std::getenv("VH_CASE_TIMEOUT");
    const long long wd_ms = wd ? std::atoll(wd) * 1000 : 0;
    if (wd_ms > 0) detail::start_watchdog();
    while (std::getline(std::cin, line)) {
        if (line.empty()) continue;
        json c = json::parse(line);
        json r;
        r["id"] = c["id"];
        if (wd_ms > 0) {
            detail::case_deadline_ms() = 0;
            detail::current_case_id() = c["id"].dump();
            detail::case_deadline_ms() = detail::now_ms() + wd_ms;
        }
        try {
            fn(c);
            r["ok"] = true;
        } catch (const Mismatch& m) {
            r["ok"] = false;
            r["step"] = m.step;
            r["exp"] = m.exp;
            r["got"] = m.got;
            if (!m.note.empty()) r["note"] = m.note;
        } catch (const std::exception& e) {
            r["ok"] = false;
            r["step"] = -1;
            r["note"] = std::string("unexpected exception: ") + typeid(e).name() + ": " + e.what();
        }
        if (wd_ms > 0) detail::case_deadline_ms() = 0;
        emit(r);
    }
    return 0;
}

#define VH_EXPECT(step, exp, got, note) do { auto _e = (exp); auto _g = (got); if (!(_e == _g)) throw vh::Mismatch((step), vh::json(_e), vh::json(_g), (note)); } while (0)

} // namespace vh
