// C10 harness.  Cases exported by TLC from specs/AreaGrid.tla (ways = paths of grid points, member roles) are
// assembled by the real osmium::area::Assembler -- closed-way entry point, relation + member ways entry point and
// the MultipolygonManager pipeline (two passes over an in-memory buffer) -- under several AssemblerConfigs and
// several embeddings of the grid into real osmium::Locations.  This program contains NO oracle: it only logs, per
// run, the return value, whether an Area object was committed, the rings of that area (outer rings with their
// inner rings, coordinates mapped back to grid points by the exact inverse of the embedding), area_stats and the
// ProblemReporter callbacks.  The log goes back to TLC (specs/AreaGridTrace.tla), which evaluates validity of the
// output, equality of the covered region with the even-odd fill of the input and the expected verdict.
//
// stdin : one case per line  {"id":..,"ways":[[[x,y],..],..],"roles":[..],"variants":["rel/def/a/s",..]}
//         or a tiled case     {"id":..,"tile":{"n":N,"dx":DX},"ways":..,"roles":..,"variants":[..]}
//         (every way of the motif is repeated N times, shifted by k*DX grid units in x)
// stdout: one line per case  {"id":..,"ok":true,"runs":[{"v":..,"ret":..,"area":..,"rings":[..],"st":{..},"rep":{..}[,"why":..]}]}
//         "why" is only a label: when no rings came out although no problem was counted, the run is repeated with
//         debug_level 1 and the library's own explanation (recursion depth / too many split locations) is recorded.
#include "common/vh.hpp"

#include <osmium/area/assembler.hpp>
#include <osmium/area/multipolygon_manager.hpp>
#include <osmium/area/problem_reporter.hpp>
#include <osmium/builder/attr.hpp>
#include <osmium/builder/osm_object_builder.hpp>
#include <osmium/handler/node_locations_for_ways.hpp>
#include <osmium/index/map/sparse_mem_array.hpp>
#include <osmium/memory/buffer.hpp>
#include <osmium/osm/area.hpp>
#include <osmium/osm/relation.hpp>
#include <osmium/osm/way.hpp>
#include <osmium/visitor.hpp>

#include <cstdint>
#include <iostream>
#include <sstream>
#include <map>
#include <cstdlib>
#include <string>
#include <utility>
#include <vector>

using vh::json;

namespace {

struct Embedding {
    int64_t ox, oy, sx, sy;
    osmium::Location loc(int gx, int gy) const {
        return osmium::Location{static_cast<int32_t>(ox + sx * gx), static_cast<int32_t>(oy + sy * gy)};
    }
    // exact inverse; throws when the location is not the image of a grid point
    std::pair<int, int> grid(const osmium::Location& l) const {
        const int64_t dx = static_cast<int64_t>(l.x()) - ox;
        const int64_t dy = static_cast<int64_t>(l.y()) - oy;
        if (dx % sx != 0 || dy % sy != 0) {
            throw std::runtime_error("output location is not a grid point");
        }
        return {static_cast<int>(dx / sx), static_cast<int>(dy / sy)};
    }
};

// All embeddings are affine with positive scale factors, so orientation and all incidence / crossing predicates
// of the grid carry over exactly.  Coordinates stay within +-2^29 (the property's domain).
Embedding embedding(char m, int span) {
    const int64_t lim = int64_t(1) << 29;
    switch (m) {
        case 'a': return {10000000, 10000000, 10000, 10000};           // 1 degree + 0.001 degree per unit
        case 'b': return {lim - 3 * (span + 1), lim - 7 * (span + 1), 3, 7};  // tiny steps just below +2^29
        case 'c': {                                                   // the grid spans the whole +-2^29 range
            const int64_t s = (2 * lim) / (span + 1);
            return {-lim + 1, -lim + 1, s, s - 1};
        }
        case 'd': return {-lim + 1, -lim + 1, 1, 1};                      // unit steps just above -2^29
        case 'e': return {-5000 * (span / 2), -50000, 5000, 20000};    // around 0/0, anisotropic, crosses both axes
        default: throw std::runtime_error("unknown embedding");
    }
}

struct Reporter : public osmium::area::ProblemReporter {
    std::map<std::string, int> n;
    void report_duplicate_node(osmium::object_id_type, osmium::object_id_type, osmium::Location) override { ++n["duplicate_node"]; }
    void report_touching_ring(osmium::object_id_type, osmium::Location) override { ++n["touching_ring"]; }
    void report_intersection(osmium::object_id_type, osmium::Location, osmium::Location, osmium::object_id_type, osmium::Location,
                             osmium::Location, osmium::Location) override { ++n["intersection"]; }
    void report_duplicate_segment(const osmium::NodeRef&, const osmium::NodeRef&) override { ++n["duplicate_segment"]; }
    void report_overlapping_segment(const osmium::NodeRef&, const osmium::NodeRef&) override { ++n["overlapping_segment"]; }
    void report_ring_not_closed(const osmium::NodeRef&, const osmium::Way*) override { ++n["ring_not_closed"]; }
    void report_role_should_be_outer(osmium::object_id_type, osmium::Location, osmium::Location) override { ++n["role_should_be_outer"]; }
    void report_role_should_be_inner(osmium::object_id_type, osmium::Location, osmium::Location) override { ++n["role_should_be_inner"]; }
    void report_way_in_multiple_rings(const osmium::Way&) override { ++n["way_in_multiple_rings"]; }
    void report_inner_with_same_tags(const osmium::Way&) override { ++n["inner_with_same_tags"]; }
    void report_invalid_location(osmium::object_id_type, osmium::object_id_type) override { ++n["invalid_location"]; }
    void report_duplicate_way(const osmium::Way&) override { ++n["duplicate_way"]; }
    void report_way(const osmium::Way&) override { ++n["way"]; }
};

const char* const rep_keys[] = {"touching_ring", "intersection", "duplicate_segment", "ring_not_closed", "role_should_be_outer",
                                "role_should_be_inner"};

json rep_json(const Reporter* r) {
    json j;
    j["on"] = r != nullptr;
    for (const char* k : rep_keys) {
        int v = 0;
        if (r) {
            const auto it = r->n.find(k);
            if (it != r->n.end()) v = it->second;
        }
        j[k] = v;
    }
    return j;
}

json stats_json(const osmium::area::area_stats& s) {
    return json{{"intersections", s.intersections}, {"open_rings", s.open_rings}, {"duplicate_segments", s.duplicate_segments},
                {"touching_rings", s.touching_rings}, {"wrong_role", s.wrong_role}, {"outer_rings", s.outer_rings},
                {"inner_rings", s.inner_rings}, {"simple_case", s.area_simple_case}, {"touching_case", s.area_touching_rings_case},
                {"complex_case", s.area_really_complex_case}};
}

json ring_pts(const osmium::NodeRefList& ring, const Embedding& em, const std::map<std::pair<int, int>, std::vector<osmium::object_id_type>>& ids_at) {
    json pts = json::array();
    for (const osmium::NodeRef& nr : ring) {
        const auto g = em.grid(nr.location());
        // the node of an output ring must be one of the input nodes at that location
        const auto it = ids_at.find(g);
        bool known = false;
        if (it != ids_at.end()) {
            for (const auto id : it->second) known = known || id == nr.ref();
        }
        if (!known) throw std::runtime_error("output ring refers to a node id that no input way has at that location");
        pts.push_back(json::array({g.first, g.second}));
    }
    return pts;
}

json area_rings(const osmium::Area& area, const Embedding& em, const std::map<std::pair<int, int>, std::vector<osmium::object_id_type>>& ids_at) {
    json rings = json::array();
    std::size_t no = 0, ni = 0;
    for (const osmium::OuterRing& outer : area.outer_rings()) {
        ++no;
        json r;
        r["pts"] = ring_pts(outer, em, ids_at);
        json inn = json::array();
        for (const osmium::InnerRing& inner : area.inner_rings(outer)) {
            ++ni;
            inn.push_back(ring_pts(inner, em, ids_at));
        }
        r["inn"] = inn;
        rings.push_back(r);
    }
    const auto nr = area.num_rings();
    if (nr.first != no || nr.second != ni) throw std::runtime_error("Area::num_rings() disagrees with the ring iteration");
    return rings;
}

struct Input {
    std::vector<std::vector<std::pair<int, int>>> ways;
    std::vector<std::string> roles;
    int span = 0;
};

Input read_input(const json& c) {
    Input in;
    const int n = c.contains("tile") ? c["tile"]["n"].get<int>() : 1;
    const int dx = c.contains("tile") ? c["tile"]["dx"].get<int>() : 0;
    for (int k = 0; k < n; ++k) {
        std::size_t wi = 0;
        for (const auto& w : c["ways"]) {
            std::vector<std::pair<int, int>> pts;
            for (const auto& p : w) {
                pts.emplace_back(p[0].get<int>() + k * dx, p[1].get<int>());
                in.span = std::max(in.span, std::max(pts.back().first, pts.back().second));
            }
            in.ways.push_back(pts);
            in.roles.push_back(c["roles"][wi].get<std::string>());
            ++wi;
        }
    }
    return in;
}

// variant name: <entry>/<config>/<embedding>/<ids>
//   entry : rel (Assembler(relation, members)), way (Assembler(way), single-way cases), mgr (MultipolygonManager)
//   config: def (default AssemblerConfig), pr (ProblemReporter + check_roles), ne (create_empty_areas = false),
//           prne (both), kt (keep_type_tag + debug_level 0)
//   ids   : s (one node id per location), u (every way node has its own id: different nodes, same location)
json run_variant(const Input& in, const std::string& v) {
    const std::string entry = v.substr(0, 3);
    const std::size_t p1 = v.find('/'), p2 = v.find('/', p1 + 1), p3 = v.find('/', p2 + 1);
    const std::string cfgname = v.substr(p1 + 1, p2 - p1 - 1);
    const char emb = v[p2 + 1];
    const char idmode = v[p3 + 1];
    const Embedding em = embedding(emb, in.span);

    Reporter reporter;
    osmium::area::AssemblerConfig config;
    const bool with_reporter = cfgname == "pr" || cfgname == "prne";
    if (with_reporter) {
        config.problem_reporter = &reporter;
        config.check_roles = true;
    }
    if (cfgname == "ne" || cfgname == "prne") config.create_empty_areas = false;
    if (cfgname == "kt") config.keep_type_tag = true;

    // node ids
    std::map<std::pair<int, int>, std::vector<osmium::object_id_type>> ids_at;
    osmium::object_id_type next_id = 1000;
    auto id_for = [&](const std::pair<int, int>& g, bool closing_first, osmium::object_id_type first_id) -> osmium::object_id_type {
        if (closing_first) return first_id;       // a closed way ends at the node it started from
        auto& vec = ids_at[g];
        if (idmode == 's' && !vec.empty()) return vec.front();
        vec.push_back(++next_id);
        return vec.back();
    };

    using namespace osmium::builder::attr;  // NOLINT
    osmium::memory::Buffer inbuf{1024 * 1024, osmium::memory::Buffer::auto_grow::yes};
    std::vector<std::size_t> wpos;
    std::vector<std::vector<osmium::NodeRef>> wnodes;
    for (std::size_t i = 0; i < in.ways.size(); ++i) {
        std::vector<osmium::NodeRef> nodes;
        osmium::object_id_type first_id = 0;
        for (std::size_t k = 0; k < in.ways[i].size(); ++k) {
            const auto& g = in.ways[i][k];
            const bool closing = k > 0 && k + 1 == in.ways[i].size() && g == in.ways[i][0];
            const auto id = id_for(g, closing, first_id);
            if (k == 0) first_id = id;
            nodes.emplace_back(id, em.loc(g.first, g.second));
        }
        wnodes.push_back(nodes);
    }

    json out;
    out["v"] = v;
    osmium::memory::Buffer outbuf{1024 * 1024, osmium::memory::Buffer::auto_grow::yes};
    bool ret = false;
    bool have_stats = false;
    osmium::area::area_stats stats;

    if (entry == "mgr") {
        // full pipeline: nodes, ways without locations, relation; pass 1 = relations, pass 2 = nodes + ways
        std::map<osmium::object_id_type, osmium::Location> nodeset;
        for (const auto& w : wnodes) for (const auto& n : w) nodeset[n.ref()] = n.location();
        for (const auto& n : nodeset) {
            osmium::builder::add_node(inbuf, _id(n.first), _location(n.second));
        }
        const bool single_way = in.ways.size() == 1;
        for (std::size_t i = 0; i < wnodes.size(); ++i) {
            std::vector<osmium::object_id_type> refs;
            for (const auto& n : wnodes[i]) refs.push_back(n.ref());
            if (single_way) {
                osmium::builder::add_way(inbuf, _id(static_cast<osmium::object_id_type>(10 + i)), _tag("landuse", "forest"), _nodes(refs));
            } else {
                osmium::builder::add_way(inbuf, _id(static_cast<osmium::object_id_type>(10 + i)), _nodes(refs));
            }
        }
        if (!single_way) {
            std::vector<osmium::builder::attr::member_type_string> members;
            for (std::size_t i = 0; i < wnodes.size(); ++i) {
                members.emplace_back(osmium::item_type::way, static_cast<osmium::object_id_type>(10 + i), std::string{in.roles[i]});
            }
            osmium::builder::add_relation(inbuf, _id(7), _tag("type", "multipolygon"), _tag("landuse", "forest"), _members(members));
        }
        osmium::area::MultipolygonManager<osmium::area::Assembler> mgr{config};
        osmium::apply(inbuf, mgr);
        mgr.prepare_for_lookup();
        using index_type = osmium::index::map::SparseMemArray<osmium::unsigned_object_id_type, osmium::Location>;
        index_type index;
        osmium::handler::NodeLocationsForWays<index_type> location_handler{index};
        location_handler.ignore_errors();
        std::vector<osmium::memory::Buffer> got;
        auto cb = [&](osmium::memory::Buffer&& b) { got.push_back(std::move(b)); };
        osmium::apply(inbuf, location_handler, mgr.handler(cb));
        mgr.flush_output();
        json rings = json::array();
        int nareas = 0;
        for (const auto& b : got) {
            for (const auto& area : b.select<osmium::Area>()) {
                ++nareas;
                rings = area_rings(area, em, ids_at);
            }
        }
        if (nareas > 1) throw std::runtime_error("MultipolygonManager produced more than one area for one object");
        out["ret"] = nareas == 1;      // the manager does not hand out the return value
        out["area"] = nareas == 1;
        out["rings"] = rings;
        stats = mgr.stats();
        have_stats = true;
    } else {
        for (std::size_t i = 0; i < wnodes.size(); ++i) {
            wpos.push_back(osmium::builder::add_way(inbuf, _id(static_cast<osmium::object_id_type>(10 + i)), _tag("landuse", "forest"), _nodes(wnodes[i])));
        }
        osmium::area::Assembler assembler{config};
        if (entry == "way") {
            ret = assembler(inbuf.get<osmium::Way>(wpos.at(0)), outbuf);
        } else {
            std::vector<osmium::builder::attr::member_type_string> members;
            for (std::size_t i = 0; i < wnodes.size(); ++i) {
                members.emplace_back(osmium::item_type::way, static_cast<osmium::object_id_type>(10 + i), std::string{in.roles[i]});
            }
            const auto rpos = osmium::builder::add_relation(inbuf, _id(7), _tag("type", "multipolygon"), _tag("landuse", "forest"), _members(members));
            std::vector<const osmium::Way*> ways;
            for (const auto p : wpos) ways.push_back(&inbuf.get<osmium::Way>(p));
            ret = assembler(inbuf.get<osmium::Relation>(rpos), ways, outbuf);
        }
        int nareas = 0;
        json rings = json::array();
        for (const auto& area : outbuf.select<osmium::Area>()) {
            ++nareas;
            rings = area_rings(area, em, ids_at);
            const bool fw = entry == "way";
            if (area.from_way() != fw || area.orig_id() != (fw ? 10 : 7)) throw std::runtime_error("area id does not encode the source object");
        }
        if (nareas > 1) throw std::runtime_error("more than one area committed");
        out["ret"] = ret;
        out["area"] = nareas == 1;
        out["rings"] = rings;
        stats = assembler.stats();
        have_stats = true;
        if (rings.empty() && stats.intersections == 0 && stats.open_rings == 0) {
            // No rings although no problem was found: ask the library why (it only says so in its debug output).
            // This is a label for the log, not a verdict.
            osmium::area::AssemblerConfig config2 = config;
            config2.problem_reporter = nullptr;
            config2.debug_level = 1;
            std::ostringstream captured;
            std::streambuf* const old = std::cerr.rdbuf(captured.rdbuf());
            try {
                osmium::area::Assembler assembler2{config2};
                osmium::memory::Buffer outbuf2{1024 * 1024, osmium::memory::Buffer::auto_grow::yes};
                if (entry == "way") {
                    assembler2(inbuf.get<osmium::Way>(wpos.at(0)), outbuf2);
                } else {
                    std::vector<const osmium::Way*> ways2;
                    for (const auto p : wpos) ways2.push_back(&inbuf.get<osmium::Way>(p));
                    for (const auto& rel : inbuf.select<osmium::Relation>()) assembler2(rel, ways2, outbuf2);
                }
            } catch (...) {
                std::cerr.rdbuf(old);
                throw;
            }
            std::cerr.rdbuf(old);
            const std::string txt = captured.str();
            if (txt.find("Exceeded max depth") != std::string::npos) out["why"] = "exceeded_max_depth";
            else if (txt.find("Ignoring polygon with") != std::string::npos) out["why"] = "too_many_split_locations";
        }
    }
    if (have_stats) out["st"] = stats_json(stats);
    out["rep"] = rep_json(with_reporter ? &reporter : nullptr);
    return out;
}

} // namespace

int main() {
    std::string line;
    // opt-in per-case watchdog of vh.hpp (VH_CASE_TIMEOUT seconds): a case the assembler does not finish is reported as "hang"
    const char* wd = std::getenv("VH_CASE_TIMEOUT");
    const long long wd_ms = wd ? std::atoll(wd) * 1000 : 0;
    if (wd_ms > 0) vh::detail::start_watchdog();
    while (std::getline(std::cin, line)) {
        if (line.empty()) continue;
        const json c = json::parse(line);
        json r;
        r["id"] = c["id"];
        if (wd_ms > 0) {
            vh::detail::case_deadline_ms() = 0;
            vh::detail::current_case_id() = c["id"].dump();
            vh::detail::case_deadline_ms() = vh::detail::now_ms() + wd_ms * static_cast<long long>(c["variants"].size());
        }
        json runs = json::array();
        bool ok = true;
        int step = 0;
        try {
            const Input in = read_input(c);
            for (const auto& v : c["variants"]) {
                vh::step_marker(step);
                runs.push_back(run_variant(in, v.get<std::string>()));
                ++step;
            }
        } catch (const std::exception& e) {
            ok = false;
            r["step"] = step;
            r["note"] = std::string("exception in variant ") + (step < static_cast<int>(c["variants"].size()) ? c["variants"][step].get<std::string>() : "?") + ": " + typeid(e).name() + ": " + e.what();
        }
        if (wd_ms > 0) vh::detail::case_deadline_ms() = 0;
        r["ok"] = ok;
        r["runs"] = runs;
        vh::emit(r);
    }
    return 0;
}
