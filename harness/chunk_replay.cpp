// C06 replay harness: the parse result is independent of how the input byte stream is chunked.
//
// Cases (NDJSON on stdin) are the behaviours exported by TLC from specs/LineByLine.tla, PbfRefill.tla,
// O5mRefill.tla and XmlFeed.tla: a stream description, the piece lengths chosen by the model and the
// token sequence + verdict the spec derives for the stream.  Each description is materialised as a real
// OPL / PBF / o5m / XML file, the model's cut positions are mapped onto the real file, and the file is
// read through osmium::io::Reader with a mock Decompressor (registered through CompressionFactory) that
// hands out exactly those pieces.  Compared: (1) object ids / tags / error class against the SPEC's
// tokens and verdict, (2) header + complete object dump + error class + message against the one-piece
// run of the same bytes.  "lbl" cases additionally drive the real line_by_line() template with a mock
// worker, byte for byte as in the model, and compare every parse_line() call and the number of lines
// seen at every get_input() call.
// "sweep" / "one" cases apply the spec's theorem (result = function of the bytes) to fixture files and
// harness-generated files: all single cuts, all pairs of cuts, fixed sizes, random cut sets, truncations.
// With -DCHUNK_FD the binary instead reads temporary files through the REAL plain / gzip / bzip2
// file-descriptor decompressors (piece size = OSMIUM_VERIF_INPUT_BUFFER_SIZE) - kind "fd".
#include "common/vh.hpp"

#include <osmium/builder/attr.hpp>
#include <osmium/io/o5m_input.hpp>
#include <osmium/io/opl_input.hpp>
#include <osmium/io/opl_output.hpp>
#include <osmium/io/pbf_input.hpp>
#include <osmium/io/pbf_output.hpp>
#include <osmium/io/xml_input.hpp>
#include <osmium/io/xml_output.hpp>
#ifdef CHUNK_FD
# include <osmium/io/bzip2_compression.hpp>
# include <osmium/io/gzip_compression.hpp>
# include <bzlib.h>
# include <zlib.h>
#endif
#include <osmium/io/reader.hpp>
#include <osmium/io/writer.hpp>
#include <osmium/memory/buffer.hpp>
#include <osmium/osm.hpp>

#include <protozero/pbf_reader.hpp>

#include <atomic>
#include <cstdint>
#include <cstdio>
#include <cstring>
#include <fstream>
#include <map>
#include <random>
#include <sstream>
#include <string>
#include <chrono>
#include <csignal>
#include <sys/ioctl.h>
#include <sys/stat.h>
#include <thread>
#include <unistd.h>
#include <vector>

using vh::json;

// ------------------------------------------------------------------------------------------------
// The mock decompressor: returns exactly the planned pieces of the buffer, then "" (= end of data).

static std::vector<std::size_t> g_plan;          // piece lengths; what is left after the plan comes in one piece
static std::atomic<std::size_t> g_pieces_out{0};
static std::atomic<std::size_t> g_bytes_out{0};

class PieceDecompressor final : public osmium::io::Decompressor {
    const char* m_buf;
    std::size_t m_size;
    std::size_t m_pos = 0;
    std::size_t m_k = 0;
    std::vector<std::size_t> m_plan;
public:
    PieceDecompressor(const char* b, std::size_t s) : m_buf(b), m_size(s), m_plan(g_plan) {}
    std::string read() override {
        if (m_pos >= m_size) {
            return std::string{};
        }
        std::size_t n = m_size - m_pos;
        if (m_k < m_plan.size() && m_plan[m_k] > 0 && m_plan[m_k] < n) {
            n = m_plan[m_k];
        }
        ++m_k;
        std::string r(m_buf + m_pos, n);
        m_pos += n;
        ++g_pieces_out;
        g_bytes_out += n;
        return r;
    }
    void close() override {}
};

// ------------------------------------------------------------------------------------------------
// Canonical dump of everything the Reader delivers.

static void dump_tags(std::ostringstream& o, const osmium::TagList& tl) {
    o << " T";
    for (const auto& t : tl) {
        o << "[" << t.key() << "=" << t.value() << "]";
    }
}

static std::string dump_entity(const osmium::OSMEntity& e) {
    std::ostringstream o;
    if (e.type() == osmium::item_type::changeset) {
        const auto& c = static_cast<const osmium::Changeset&>(e);
        o << "c" << c.id() << " k" << c.num_changes() << " s" << c.created_at().seconds_since_epoch() << " e"
          << c.closed_at().seconds_since_epoch() << " d" << c.num_comments() << " i" << c.uid() << " u" << c.user();
        dump_tags(o, c.tags());
        for (const auto& cm : c.discussion()) {
            o << " D[" << cm.uid() << "|" << cm.user() << "|" << cm.date().seconds_since_epoch() << "|" << cm.text() << "]";
        }
        return o.str();
    }
    const auto& obj = static_cast<const osmium::OSMObject&>(e);
    o << osmium::item_type_to_char(obj.type()) << obj.id() << " v" << obj.version() << (obj.visible() ? " dV" : " dD")
      << " c" << obj.changeset() << " t" << obj.timestamp().seconds_since_epoch() << " i" << obj.uid() << " u" << obj.user();
    dump_tags(o, obj.tags());
    if (obj.type() == osmium::item_type::node) {
        const auto& n = static_cast<const osmium::Node&>(obj);
        if (n.location().is_defined()) {
            o << " x" << n.location().x() << " y" << n.location().y();
        } else {
            o << " xy-";
        }
    } else if (obj.type() == osmium::item_type::way) {
        o << " N";
        for (const auto& nr : static_cast<const osmium::Way&>(obj).nodes()) {
            o << nr.ref() << ",";
        }
    } else if (obj.type() == osmium::item_type::relation) {
        o << " M";
        for (const auto& m : static_cast<const osmium::Relation&>(obj).members()) {
            o << osmium::item_type_to_char(m.type()) << m.ref() << "@" << m.role() << ",";
        }
    }
    return o.str();
}

static std::string dump_header(const osmium::io::Header& h) {
    std::ostringstream o;
    o << "mv=" << h.has_multiple_object_versions();
    for (const auto& kv : h) {
        o << " {" << kv.first << "=" << kv.second << "}";
    }
    for (const auto& b : h.boxes()) {
        if (b.valid()) {
            o << " box(" << b.bottom_left().x() << "," << b.bottom_left().y() << "," << b.top_right().x() << "," << b.top_right().y() << ")";
        } else {
            o << " box(invalid)";
        }
    }
    return o.str();
}

struct RunResult {
    std::string header;
    std::vector<std::string> objs;
    std::vector<std::int64_t> ids;
    std::vector<std::vector<std::pair<std::string, std::string>>> tags;
    std::string where;   // "", "ctor", "header", "read", "close"
    std::string cls;
    std::string msg;

    json to_json(std::size_t max_objs = 12) const {
        json j;
        j["header"] = header;
        j["nobjs"] = objs.size();
        json a = json::array();
        for (std::size_t i = 0; i < objs.size() && i < max_objs; ++i) a.push_back(objs[i]);
        j["objs"] = a;
        j["error"] = where.empty() ? std::string{"none"} : where + ":" + cls + ":" + msg;
        return j;
    }
    bool same(const RunResult& o) const {
        return header == o.header && objs == o.objs && where == o.where && cls == o.cls && msg == o.msg;
    }
};

template <typename F>
static bool guarded(RunResult& r, const char* where, F&& f) {
    auto set = [&](const char* cls, const char* msg) { r.where = where; r.cls = cls; r.msg = msg; };
    try {
        f();
        return true;
    } catch (const osmium::opl_error& e) { set("opl_error", e.what());
    } catch (const osmium::format_version_error& e) { set("format_version_error", e.what());
    } catch (const osmium::xml_error& e) { set("xml_error", e.what());
    } catch (const osmium::o5m_error& e) { set("o5m_error", e.what());
    } catch (const osmium::pbf_error& e) { set("pbf_error", e.what());
    } catch (const osmium::io_error& e) { set("io_error", e.what());
    } catch (const protozero::exception& e) { set("protozero", e.what());
    } catch (const std::system_error& e) { set("system_error", e.what());
    } catch (const std::exception& e) { set("std_exception", e.what());
    }
    return false;
}

static std::size_t g_runs = 0;

static RunResult read_all(const osmium::io::File& file) {
    RunResult r;
    ++g_runs;
    guarded(r, "ctor", [&]() {
        osmium::io::Reader reader{file, osmium::osm_entity_bits::all};
        bool ok = guarded(r, "header", [&]() { r.header = dump_header(reader.header()); });
        if (ok) {
            ok = guarded(r, "read", [&]() {
                while (osmium::memory::Buffer b = reader.read()) {
                    for (const auto& e : b.select<osmium::OSMEntity>()) {
                        r.objs.push_back(dump_entity(e));
                        if (e.type() != osmium::item_type::changeset) {
                            const auto& o = static_cast<const osmium::OSMObject&>(e);
                            r.ids.push_back(o.id());
                            std::vector<std::pair<std::string, std::string>> t;
                            for (const auto& tag : o.tags()) t.emplace_back(tag.key(), tag.value());
                            r.tags.push_back(std::move(t));
                        }
                    }
                }
            });
        }
        if (ok) {
            guarded(r, "close", [&]() { reader.close(); });
        }
    });
    return r;
}

#ifndef CHUNK_FD
// data read through the mock with the given piece plan (format string without compression suffix)
static RunResult run_pieces(const std::string& data, const std::string& fmt, const std::vector<std::size_t>& plan) {
    g_plan = plan;
    g_pieces_out = 0;
    g_bytes_out = 0;
    const osmium::io::File file{data.data(), data.size(), fmt + ".gz"};   // "gz" is bound to the mock
    RunResult r = read_all(file);
    if (r.where.empty() && g_bytes_out != data.size()) {
        // the run succeeded although part of the input was never asked for: what was delivered cannot depend on those
        // bytes, i.e. the result depends on how the stream was cut (with one piece the parser sees everything)
        throw vh::Mismatch(-1, vh::json(static_cast<uint64_t>(data.size())), vh::json(static_cast<uint64_t>(g_bytes_out.load())), "a run that reported success read only part of the input (bytes handed out by the decompressor vs size of the stream)");
    }
    return r;
}

// The same bytes read DIRECTLY from a descriptor (the path a plain .osm.pbf takes: PBFParser reads the descriptor itself
// with read_exactly) where read(2) returns the data in the given pieces: a pipe fed by a writer thread that waits until
// the reader has drained the pipe before it writes the next piece (short reads at exactly the planned cuts).
static RunResult run_fifo(const std::string& data, const std::string& fmt, const std::vector<std::size_t>& plan) {
    int fds[2];
    if (::pipe(fds) != 0) throw std::runtime_error{"harness: pipe() failed"};
    const int rfd = fds[0];
    const int wfd = fds[1];
    std::thread writer{[&data, &plan, rfd, wfd]() {
        std::size_t pos = 0;
        std::size_t k = 0;
        while (pos < data.size()) {
            std::size_t n = k < plan.size() ? plan[k] : data.size() - pos;
            ++k;
            if (n == 0) continue;
            if (n > data.size() - pos) n = data.size() - pos;
            std::size_t done = 0;
            while (done < n) {
                const ssize_t w = ::write(wfd, data.data() + pos + done, n - done);
                if (w <= 0) { ::close(wfd); return; }          // reader gone (EPIPE is ignored below)
                done += static_cast<std::size_t>(w);
            }
            pos += n;
            // wait (bounded) until the reader has taken everything out of the pipe
            for (int i = 0; i < 4000; ++i) {
                int pending = 0;
                if (::ioctl(rfd, FIONREAD, &pending) != 0 || pending == 0) break;
                std::this_thread::sleep_for(std::chrono::microseconds(50));
            }
        }
        ::close(wfd);
    }};
    RunResult r;
    {
        const osmium::io::File file{"/dev/fd/" + std::to_string(rfd), fmt};
        r = read_all(file);
    }
    ::close(rfd);               // unblocks the writer if the reader stopped early
    writer.join();
    return r;
}
#endif

// one piece through the library's own NoDecompressor(buffer)
static RunResult run_plain(const std::string& data, const std::string& fmt) {
    const osmium::io::File file{data.data(), data.size(), fmt};
    return read_all(file);
}

// ------------------------------------------------------------------------------------------------
// temp dir, file helpers

static std::string g_tmp;

static const std::string& tmpdir() {
    if (g_tmp.empty()) {
        const char* base = std::getenv("VH_TMP");
        std::string b = base ? base : "/verif/build/tmp";
        ::mkdir(b.c_str(), 0777);
        std::string t = b + "/chunk_XXXXXX";
        std::vector<char> buf(t.begin(), t.end());
        buf.push_back('\0');
        if (!::mkdtemp(buf.data())) {
            throw std::runtime_error{"harness: mkdtemp failed in " + b};
        }
        g_tmp = buf.data();
    }
    return g_tmp;
}

static std::string slurp(const std::string& path) {
    std::ifstream in{path, std::ios::binary};
    if (!in) throw std::runtime_error{"harness: can not read " + path};
    std::ostringstream ss;
    ss << in.rdbuf();
    return ss.str();
}

static void spit(const std::string& path, const std::string& data) {
    std::ofstream out{path, std::ios::binary | std::ios::trunc};
    out.write(data.data(), static_cast<std::streamsize>(data.size()));
    if (!out) throw std::runtime_error{"harness: can not write " + path};
}

// ------------------------------------------------------------------------------------------------
// Generators

// A file with nn nodes, nw ways, nr relations written by the library's own Writer.
static std::string gen_with_writer(const std::string& fmt, int nn, int nw, int nr, unsigned seed) {
    using namespace osmium::builder::attr;
    static int counter = 0;
    std::mt19937 rng{seed};
    osmium::memory::Buffer buf{64 * 1024, osmium::memory::Buffer::auto_grow::yes};
    auto word = [&](int maxlen) {
        std::string s;
        const int n = 1 + static_cast<int>(rng() % static_cast<unsigned>(maxlen));
        static const char* const alpha[] = {"a", "b", "c", "d", "e", "f", "g", "h", " ", "=", ",", "@", "%", "<", ">", "&", "\"", "'", "\xc3\xa4", "\xe2\x82\xac"};
        for (int i = 0; i < n; ++i) s += alpha[rng() % 20];
        return s;
    };
    for (int i = 1; i <= nn; ++i) {
        const std::string k = word(6), v = word(12), u = word(5);
        osmium::builder::add_node(buf, _id(i * 3), _version(1 + rng() % 5), _timestamp(osmium::Timestamp{static_cast<uint32_t>(1500000000 + i)}), _cid(100 + i), _uid(7 + rng() % 3),
                                  _user(u), _location(osmium::Location{static_cast<std::int32_t>(rng() % 1800000000), static_cast<std::int32_t>(rng() % 900000000)}),
                                  _tag(k, v), _tag("n", std::to_string(i)));
    }
    for (int i = 1; i <= nw; ++i) {
        std::vector<osmium::object_id_type> refs;
        const int m = 2 + static_cast<int>(rng() % 6);
        for (int j = 0; j < m; ++j) refs.push_back(1 + static_cast<osmium::object_id_type>(rng() % 1000));
        osmium::builder::add_way(buf, _id(i * 5), _version(2), _timestamp(osmium::Timestamp{static_cast<uint32_t>(1500001000 + i)}), _cid(200 + i), _uid(9), _user("w\xc3\xbc"),
                                 _nodes(refs), _tag("highway", word(8)));
    }
    for (int i = 1; i <= nr; ++i) {
        osmium::builder::add_relation(buf, _id(i * 7), _version(3), _timestamp(osmium::Timestamp{static_cast<uint32_t>(1500002000 + i)}), _cid(300 + i), _uid(11), _user("rel"),
                                      _member(osmium::item_type::node, 3, word(4).c_str()), _member(osmium::item_type::way, 5, ""),
                                      _member(osmium::item_type::relation, 7 * i + 7, "sub"), _tag("type", "multipolygon"));
    }
    std::string suffix = fmt;
    const auto comma = suffix.find(',');
    if (comma != std::string::npos) suffix = suffix.substr(0, comma);
    const std::string path = tmpdir() + "/gen" + std::to_string(++counter) + "." + suffix;
    osmium::io::Header header;
    header.set("generator", "chunk_replay");
    {
        osmium::io::Writer writer{osmium::io::File{path, fmt}, header, osmium::io::overwrite::allow};
        writer(std::move(buf));
        writer.close();
    }
    std::string data = slurp(path);
    ::unlink(path.c_str());
    return data;
}

// ---- tiny o5m encoder
static std::string varint_padded(std::uint64_t v, int nbytes) {
    std::string s;
    for (int i = 0; i < nbytes; ++i) {
        unsigned char b = static_cast<unsigned char>((v >> (7 * i)) & 0x7fU);
        if (i < nbytes - 1) b |= 0x80U;
        s.push_back(static_cast<char>(b));
    }
    return s;
}
static std::uint64_t zigzag(std::int64_t v) {
    return (static_cast<std::uint64_t>(v) << 1U) ^ static_cast<std::uint64_t>(v >> 63);
}

struct O5mEncoder {
    std::string out;
    std::int64_t last_id = 0;
    O5mEncoder() : out("\xff\xe0\x04o5m2", 7) {}
    void simple(bool reset) {
        out.push_back(reset ? '\xff' : '\xfe');
        if (reset) last_id = 0;
    }
    // node dataset whose payload is exactly pl bytes (pl >= 2); lb bytes of length varint
    void node(std::int64_t id, int lb, int pl) {
        const std::uint64_t d = zigzag(id - last_id);
        last_id = id;
        std::string p;
        if (pl <= 4) {                       // deleted node: id, no info section
            p = varint_padded(d, pl - 1);
            p.push_back('\0');
        } else {
            p = varint_padded(d, 1);
            p.push_back('\0');
            const int r = pl - 2;
            if (r <= 11) {
                p += varint_padded(zigzag(10 + id), 1);       // lon delta (not tracked: every node is preceded by state we do not care about)
                p += varint_padded(zigzag(20), r - 1);
            } else {
                p += varint_padded(zigzag(10 + id), 1);
                p += varint_padded(zigzag(20), 1);
                p.push_back('\0');
                p.push_back('k');
                p.push_back('\0');
                p.append(static_cast<std::size_t>(r - 2 - 4), 'v');
                p.push_back('\0');
            }
        }
        if (static_cast<int>(p.size()) != pl) throw std::runtime_error{"harness: o5m node payload size"};
        out.push_back('\x10');
        out += varint_padded(static_cast<std::uint64_t>(pl), lb);
        out += p;
    }
    // a dataset the parser ignores (0xee "sync"), payload of pl arbitrary bytes
    void ignored(int lb, int pl) {
        out.push_back('\xee');
        out += varint_padded(static_cast<std::uint64_t>(pl), lb);
        out.append(static_cast<std::size_t>(pl), '\x55');
    }
};

static std::string gen_o5m(int k, unsigned seed) {
    std::mt19937 rng{seed};
    O5mEncoder e;
    for (int i = 1; i <= k; ++i) {
        const unsigned c = rng() % 10;
        if (c == 0) e.simple(true);
        else if (c == 1) e.simple(false);
        else if (c == 2) e.ignored(1 + static_cast<int>(rng() % 2), static_cast<int>(rng() % 30));
        else e.node(i * 2 + static_cast<int>(rng() % 2), 1 + static_cast<int>(rng() % 2), 2 + static_cast<int>(rng() % 40));
    }
    if (rng() % 2) e.simple(false);
    return e.out;
}

// ------------------------------------------------------------------------------------------------
// Materialisation of the model's stream descriptions.

struct Mat {
    std::string bytes;
    std::vector<std::size_t> map;     // model offset 0..N -> offset in bytes
};

// elements: (model width, real bytes); a model offset inside an element maps proportionally
static Mat mat_elements(const std::vector<std::pair<int, std::string>>& els) {
    Mat m;
    m.map.push_back(0);
    for (const auto& e : els) {
        const std::size_t start = m.bytes.size();
        for (int o = 1; o <= e.first; ++o) {
            m.map.push_back(start + (static_cast<std::size_t>(o) * e.second.size()) / static_cast<std::size_t>(e.first));
        }
        m.bytes += e.second;
    }
    return m;
}

static Mat mat_opl(const std::vector<std::string>& stream) {
    Mat m;
    m.map.push_back(0);
    bool line_start = true;
    for (std::size_t i = 0; i < stream.size(); ++i) {
        const std::string& c = stream[i];
        const std::string pos = std::to_string(i + 1);
        if (c == "n") { m.bytes += "\n"; line_start = true; }
        else if (c == "r") { m.bytes += "\r"; line_start = true; }
        else if (c == "z") { m.bytes.push_back('\0'); line_start = false; }
        else {
            if (line_start) {
                if (c == "b") m.bytes += "b" + pos;
                else m.bytes += "n" + pos + " v1 x1 y2 Tk" + pos + "=" + c;
            } else {
                m.bytes += ",k" + pos + "=" + c;
            }
            line_start = false;
        }
        m.map.push_back(m.bytes.size());
    }
    return m;
}

struct PbfFrame { std::string size, hdr, blob; };
static std::vector<PbfFrame> split_pbf(const std::string& data) {
    std::vector<PbfFrame> fr;
    std::size_t p = 0;
    while (p + 4 <= data.size()) {
        const std::uint32_t hl = (static_cast<std::uint32_t>(static_cast<unsigned char>(data[p])) << 24U) | (static_cast<std::uint32_t>(static_cast<unsigned char>(data[p + 1])) << 16U) |
                                 (static_cast<std::uint32_t>(static_cast<unsigned char>(data[p + 2])) << 8U) | static_cast<std::uint32_t>(static_cast<unsigned char>(data[p + 3]));
        PbfFrame f;
        f.size = data.substr(p, 4);
        f.hdr = data.substr(p + 4, hl);
        protozero::pbf_reader r{f.hdr};
        std::size_t ds = 0;
        while (r.next()) {
            if (r.tag() == 3) ds = static_cast<std::size_t>(r.get_int32()); else r.skip();
        }
        f.blob = data.substr(p + 4 + hl, ds);
        if (f.hdr.size() != hl || f.blob.size() != ds || ds == 0) throw std::runtime_error{"harness: can not split generated PBF"};
        fr.push_back(f);
        p += 4 + hl + ds;
    }
    if (p != data.size()) throw std::runtime_error{"harness: trailing bytes in generated PBF"};
    return fr;
}

// frame 1 = header frame; frame k >= 2 = a data blob with one node of id k
static const PbfFrame& pbf_frame(int k) {
    static std::map<int, PbfFrame> cache;
    auto it = cache.find(k);
    if (it != cache.end()) return it->second;
    using namespace osmium::builder::attr;
    osmium::memory::Buffer buf{1024, osmium::memory::Buffer::auto_grow::yes};
    osmium::builder::add_node(buf, _id(k), _version(1), _timestamp(osmium::Timestamp{static_cast<uint32_t>(1500000000)}), _cid(1), _uid(1), _user("u"),
                              _location(osmium::Location{1.0 + k, 2.0}), _tag("k", std::to_string(k)));
    const std::string path = tmpdir() + "/frame.pbf";
    osmium::io::Header header;
    header.set("generator", "chunk_replay");
    {
        osmium::io::Writer writer{osmium::io::File{path, k % 2 ? "pbf,pbf_compression=none" : "pbf"}, header, osmium::io::overwrite::allow};
        writer(std::move(buf));
        writer.close();
    }
    const auto fr = split_pbf(slurp(path));
    ::unlink(path.c_str());
    if (fr.size() != 2) throw std::runtime_error{"harness: expected header + one data frame"};
    cache[1] = fr[0];
    cache[k] = fr[1];
    return cache[k];
}

static Mat mat_pbf(const json& frames) {
    std::vector<std::pair<int, std::string>> els;
    int k = 0;
    pbf_frame(2);
    for (const auto& f : frames) {
        ++k;
        const PbfFrame& fr = pbf_frame(k);
        els.emplace_back(4, fr.size);
        els.emplace_back(f[0].get<int>(), fr.hdr);
        els.emplace_back(f[1].get<int>(), fr.blob);
    }
    return mat_elements(els);
}

static Mat mat_o5m(const json& ds) {
    O5mEncoder e;
    int k = 0;
    for (const auto& d : ds) {
        ++k;
        const int lb = d[0].get<int>(), pl = d[1].get<int>();
        if (lb == 0) e.simple(k % 2 == 1);
        else if (pl >= 2) e.node(k, lb, pl);
        else e.ignored(lb, pl);
    }
    Mat m;
    m.bytes = e.out;
    for (std::size_t i = 0; i <= m.bytes.size(); ++i) m.map.push_back(i);
    return m;
}

static Mat mat_xml(const json& els_in) {
    std::vector<std::pair<int, std::string>> els;
    const int m = static_cast<int>(els_in.size());
    int j = 0;
    for (const auto& w : els_in) {
        ++j;
        std::string s;
        if (j == 1) s = "<?xml version='1.0' encoding='UTF-8'?>\n<osm version=\"0.6\" generator=\"chunk_replay\">\n";
        else if (j == m) s = "</osm>\n";
        else s = " <node id=\"" + std::to_string(j) + "\" version=\"1\" timestamp=\"2020-01-01T00:00:00Z\" uid=\"1\" user=\"u&amp;\xc3\xa4\" changeset=\"1\" lat=\"1.5\" lon=\"2.5\">\n"
                 "  <tag k=\"a\" v=\"b" + std::to_string(j) + "\"/>\n </node>\n";
        if (j != 1 && j != m && j % 2 == 0) {
            // every second element also carries a changeset with a discussion whose comment text (character data with
            // multi-byte characters, an entity reference and a line break) is long enough to lie under every cut of
            // the element that the model's piece plans can make
            std::string text;
            for (int k = 0; k < 40; ++k) text += "Gr\xc3\xbc\xc3\x9f" "e aus K\xc3\xb6ln " + std::to_string(j * 100 + k) + (k == 2 ? " &amp;\n" : ", ");
            s += " <changeset id=\"" + std::to_string(j) + "\" created_at=\"2020-01-01T00:00:00Z\" closed_at=\"2020-01-01T01:00:00Z\" open=\"false\""
                 " user=\"u\" uid=\"1\" num_changes=\"2\" comments_count=\"1\">\n  <tag k=\"comment\" v=\"c" + std::to_string(j) + "\"/>\n"
                 "  <discussion>\n   <comment uid=\"7\" user=\"\xc3\xa4nne\" date=\"2020-01-02T00:00:00Z\">\n    <text>" + text + "</text>\n   </comment>\n  </discussion>\n </changeset>\n";
        }
        els.emplace_back(w.get<int>(), s);
    }
    return mat_elements(els);
}

// model piece lengths -> real piece lengths
static std::vector<std::size_t> map_pieces(const Mat& m, const json& pieces, std::size_t n_model) {
    std::vector<std::size_t> plan;
    std::size_t p = 0;
    for (const auto& k : pieces) {
        const std::size_t q = p + k.get<std::size_t>();
        if (q > n_model || q >= m.map.size()) throw std::runtime_error{"harness: pieces exceed the stream"};
        if (m.map[q] > m.map[p]) plan.push_back(m.map[q] - m.map[p]);
        p = q;
    }
    return plan;
}

// ------------------------------------------------------------------------------------------------

static std::string describe(const std::vector<std::size_t>& plan) {
    std::string s = "[";
    for (std::size_t i = 0; i < plan.size() && i < 40; ++i) s += (i ? "," : "") + std::to_string(plan[i]);
    if (plan.size() > 40) s += ",...";
    return s + "]";
}

struct OnePieceCache {
    std::string key;
    RunResult res;
};

#ifndef CHUNK_FD
// ---- unit level: the real line_by_line() with a mock worker, one model byte = one real byte
struct BadLine : public std::runtime_error { BadLine() : std::runtime_error("bad line") {} };
class LblWorker {
    std::vector<std::string> m_pieces;
    std::size_t m_next = 0;
    bool m_done = false;
public:
    std::vector<std::string> lines;
    std::vector<std::size_t> seen;
    explicit LblWorker(std::vector<std::string> pieces) : m_pieces(std::move(pieces)) {}
    bool input_done() const { return m_done; }
    std::string get_input() {
        seen.push_back(lines.size());
        if (m_next < m_pieces.size()) return m_pieces[m_next++];
        m_done = true;                 // the end marker has been popped
        return std::string{};
    }
    void parse_line(const char* data) {
        if (data[0] == 'b') throw BadLine{};
        lines.emplace_back(data);
    }
};

static void replay_lbl_unit(const json& c, const std::string& real) {
    std::vector<std::string> pieces;
    std::size_t p = 0;
    for (const auto& k : c["pieces"]) {
        pieces.push_back(real.substr(p, k.get<std::size_t>()));
        p += k.get<std::size_t>();
    }
    if (p < real.size()) pieces.push_back(real.substr(p));      // the model stopped popping at an error: the rest is one more piece
    LblWorker w{pieces};
    std::string verdict = "ok";
    try {
        osmium::io::detail::line_by_line(w);
    } catch (const BadLine&) {
        verdict = "bad";
    }
    std::vector<std::string> exp_lines;
    for (const auto& l : c["lines"]) {
        std::string s;
        for (const auto& ch : l) s += ch.get<std::string>();
        exp_lines.push_back(s);
    }
    VH_EXPECT(0, exp_lines, w.lines, "line_by_line(): sequence of parse_line() arguments");
    VH_EXPECT(0, c["verdict"].get<std::string>(), verdict, "line_by_line(): verdict");
    VH_EXPECT(0, c["line"].get<std::size_t>(), w.lines.size(), "line_by_line(): number of lines parsed (= line number of an error)");
    std::vector<std::size_t> exp_seen = c["seen"].get<std::vector<std::size_t>>();
    VH_EXPECT(0, exp_seen, w.seen, "line_by_line(): lines parsed at each get_input() call");
}

static std::string real_char(const std::string& c) {
    if (c == "n") return "\n";
    if (c == "r") return "\r";
    if (c == "z") return std::string(1, '\0');
    return c;
}

// ---- Reader level for one exported behaviour
static void replay_model_case(const json& c) {
    static OnePieceCache cache;
    const std::string mod = c["mod"].get<std::string>();
    Mat m;
    std::string fmt;
    std::size_t n_model = 0;
    std::string key = mod + "|";
    if (mod == "lbl") {
        const auto stream = c["stream"].get<std::vector<std::string>>();
        std::string real;
        for (const auto& ch : stream) real += real_char(ch);
        vh::step_marker(0);
        replay_lbl_unit(c, real);
        m = mat_opl(stream);
        fmt = "opl";
        n_model = stream.size();
        key += c["stream"].dump();
    } else if (mod == "pbf") {
        m = mat_pbf(c["frames"]);
        fmt = "pbf";
        n_model = c["n"].get<std::size_t>();
        key += c["frames"].dump() + "|" + std::to_string(n_model);
    } else if (mod == "o5m") {
        m = mat_o5m(c["ds"]);
        fmt = "o5m";
        n_model = c["n"].get<std::size_t>();
        key += c["ds"].dump() + "|" + std::to_string(n_model);
    } else if (mod == "xml") {
        m = mat_xml(c["els"]);
        fmt = "osm";
        n_model = c["n"].get<std::size_t>();
        key += c["els"].dump() + "|" + std::to_string(n_model);
    } else {
        throw std::runtime_error{"harness: unknown mod " + mod};
    }
    const std::string data = m.bytes.substr(0, m.map.at(n_model));
    const auto plan = map_pieces(m, c["pieces"], n_model);

    vh::step_marker(1);
    if (cache.key != key) {
        cache.res = run_pieces(data, fmt, {});
        cache.key = key;
    }
    const RunResult& one = cache.res;
    vh::step_marker(2);
    const RunResult got = run_pieces(data, fmt, plan);

    // (1) against the spec
    const std::string verdict = c["verdict"].get<std::string>();
    const std::string note = fmt + " file of " + std::to_string(data.size()) + " bytes, pieces " + describe(plan);
    auto expect_err = [&](const RunResult& r, const char* which, const std::string& cls, const std::string& part) {
        const std::string gotv = r.where.empty() ? std::string{"no error"} : r.cls + ": " + r.msg;
        if (r.cls != cls || r.msg.find(part) == std::string::npos) {
            throw vh::Mismatch(2, cls + ": ..." + part + "...", gotv, std::string{which} + " run: error verdict differs from the spec's (" + verdict + "); " + note);
        }
    };
    auto check_spec = [&](const RunResult& r, const char* which) {
        if (verdict == "ok") {
            if (!r.where.empty()) {
                throw vh::Mismatch(2, "no error", r.where + ":" + r.cls + ": " + r.msg, std::string{which} + " run: the spec says the stream is complete and valid; " + note);
            }
        } else if (verdict == "bad") {
            expect_err(r, which, "opl_error", "on line " + std::to_string(c["line"].get<int>()) + " ");
        } else if (verdict == "truncated") {
            expect_err(r, which, "pbf_error", "truncated data");
        } else if (verdict == "nohdr") {
            // no complete OSMHeader blob: the spec only says that nothing is delivered
            if (!r.ids.empty()) throw vh::Mismatch(2, json::array(), r.ids, std::string{which} + " run: objects delivered without a header blob; " + note);
            return;
        } else if (verdict == "short") {
            expect_err(r, which, "o5m_error", "file too short");
        } else if (verdict == "premature") {
            expect_err(r, which, "o5m_error", "premature end of file");
        } else if (verdict == "xmlerror") {
            expect_err(r, which, "xml_error", "");
        } else {
            throw std::runtime_error{"harness: unknown verdict " + verdict};
        }
        // expected object ids
        std::vector<std::int64_t> exp_ids;
        bool check_ids = (verdict == "ok");
        if (mod == "lbl") {
            for (const auto& s : c["starts"]) exp_ids.push_back(s.get<std::int64_t>());
        } else if (mod == "pbf") {
            for (const auto& f : c["out"]) if (f.get<int>() >= 2) exp_ids.push_back(f.get<std::int64_t>());
            check_ids = true;                       // complete blobs are delivered before a truncation error
        } else if (mod == "o5m") {
            for (const auto& k : c["out"]) exp_ids.push_back(k.get<std::int64_t>());
        } else {
            const auto& out = c["out"];
            for (std::size_t j = 1; j + 1 < out.size(); ++j) exp_ids.push_back(out[j].get<std::int64_t>());
        }
        if (check_ids) {
            if (exp_ids != r.ids) throw vh::Mismatch(2, exp_ids, r.ids, std::string{which} + " run: object ids differ from the spec's tokens; " + note);
        }
        if (mod == "lbl" && verdict == "ok") {
            // every model byte of a line is one tag k<pos>=<char>
            std::size_t li = 0;
            for (const auto& l : c["lines"]) {
                std::vector<std::pair<std::string, std::string>> exp_tags;
                std::int64_t pos = c["starts"][li].get<std::int64_t>();
                for (const auto& ch : l) {
                    exp_tags.emplace_back("k" + std::to_string(pos), ch.get<std::string>());
                    ++pos;
                }
                if (exp_tags != r.tags.at(li)) throw vh::Mismatch(2, json(exp_tags), json(r.tags.at(li)), std::string{which} + " run: content of line " + std::to_string(li) + " differs from the spec's; " + note);
                ++li;
            }
        }
    };
    check_spec(one, "one-piece");
    check_spec(got, "chunked");
    // (2) against the one-piece run: everything the Reader delivers
    if (!got.same(one)) {
        throw vh::Mismatch(2, one.to_json(), got.to_json(), "result differs from the one-piece run of the same bytes; " + note);
    }
#ifndef CHUNK_FD
    // (3) PBF read directly from a descriptor whose read(2) calls return exactly these pieces (pipe / stdin / FIFO)
    if (mod == "pbf" && verdict == "ok") {
        vh::step_marker(3);
        const RunResult fifo = run_fifo(data, fmt, plan);
        if (!fifo.same(one)) {
            throw vh::Mismatch(3, one.to_json(), fifo.to_json(), "descriptor path (read_exactly over a pipe with short reads) differs from the one-piece run of the same bytes; " + note);
        }
    }
#endif
}

// ---- sweeps over real files
static std::string load_source(const json& c) {
    if (c.contains("path")) return slurp(c["path"].get<std::string>());
    const std::string gen = c["gen"].get<std::string>();
    const unsigned seed = c.value("gseed", 1U);
    if (gen == "o5m") return gen_o5m(c.value("k", 10), seed);
    return gen_with_writer(gen, c.value("nn", 3), c.value("nw", 1), c.value("nr", 1), seed);
}

static void compare_one(const std::string& data, const std::string& fmt, const RunResult& one, const std::vector<std::size_t>& plan, std::size_t n, int step) {
    const RunResult got = run_pieces(data, fmt, plan);
    if (!got.same(one)) {
        json e = one.to_json();
        json g = got.to_json();
        g["plan"] = plan;
        g["n"] = n;
        throw vh::Mismatch(step, e, g, "result differs from the one-piece run of the same bytes; " + fmt + " prefix of " + std::to_string(n) + " bytes, pieces " + describe(plan));
    }
}

static void replay_sweep(const json& c) {
    const std::string fmt = c["fmt"].get<std::string>();
    const std::string full = load_source(c);
    std::vector<std::size_t> ns;
    if (c.contains("trunc")) {
        if (c["trunc"].is_string()) {           // "all": every prefix
            for (std::size_t n = 0; n <= full.size(); ++n) ns.push_back(n);
        } else {
            for (const auto& n : c["trunc"]) if (n.get<std::size_t>() <= full.size()) ns.push_back(n.get<std::size_t>());
        }
    } else {
        ns.push_back(full.size());
    }
    const std::size_t shard = c.value("shard", std::size_t{0}), nshards = c.value("nshards", std::size_t{1});
    std::mt19937_64 rng{c.value("seed", std::uint64_t{1})};
    std::size_t idx = 0;
    std::size_t nidx = 0;
    int step = 0;
    const bool shard_by_prefix = ns.size() > 1;          // the one-piece run of a prefix is computed by one shard only
    for (const std::size_t n : ns) {
        if (shard_by_prefix && nidx++ % nshards != shard) continue;
        const std::string data = full.substr(0, n);
        bool have_one = false;
        RunResult one;
        auto go = [&](const std::vector<std::size_t>& plan) {
            if (!shard_by_prefix && idx++ % nshards != shard) return;
            if (!have_one) {
                one = run_pieces(data, fmt, {});
                // the library's own single-piece buffer decompressor must agree with the mock's single piece
                const RunResult plain = run_plain(data, fmt);
                if (!plain.same(one)) throw vh::Mismatch(step, plain.to_json(), one.to_json(), "mock one-piece run differs from NoDecompressor(buffer) run");
                have_one = true;
            }
            vh::step_marker(++step);
            compare_one(data, fmt, one, plan, n, step);
        };
        for (const auto& p : c["plans"]) {
            const std::string plan = p.get<std::string>();
            if (plan == "cut1") {
                for (std::size_t a = 1; a < n; ++a) go({a});
            } else if (plan == "cut2") {
                for (std::size_t a = 1; a < n; ++a) for (std::size_t b = a + 1; b < n; ++b) go({a, b - a});
            } else if (plan == "fixed") {
                for (const auto& k : c["fixed"]) {
                    if (k.get<std::size_t>() < n) go(std::vector<std::size_t>(n / k.get<std::size_t>() + 1, k.get<std::size_t>()));
                }
            } else if (plan == "random") {
                const int count = c.value("nrandom", 10);
                for (int i = 0; i < count && n > 1; ++i) {
                    std::vector<std::size_t> pl;
                    std::size_t left = n;
                    const std::size_t scale = 1 + rng() % (i % 3 == 0 ? 4 : (i % 3 == 1 ? 24 : 1 + n / 3));
                    while (left > 0) {
                        const std::size_t k = 1 + rng() % scale;
                        pl.push_back(k < left ? k : left);
                        left -= pl.back();
                    }
                    go(pl);
                }
            } else {
                throw std::runtime_error{"harness: unknown plan " + plan};
            }
        }
    }
}

// exactly one segmentation of one (prefix of a) file
static void replay_one(const json& c) {
    const std::string fmt = c["fmt"].get<std::string>();
    const std::string full = load_source(c);
    const std::size_t n = c.value("n", full.size());
    const std::string data = full.substr(0, n);
    const RunResult one = run_pieces(data, fmt, {});
    vh::step_marker(1);
    compare_one(data, fmt, one, c["plan"].get<std::vector<std::size_t>>(), n, 1);
}

#else // CHUNK_FD ---------------------------------------------------------------------------------

static void write_compressed(const std::string& path, const std::string& data, const std::string& comp, int nstreams) {
    if (comp == "none") {
        spit(path, data);
        return;
    }
    // nstreams > 1: the data is split into that many concatenated compressed streams
    ::unlink(path.c_str());
    std::size_t p = 0;
    for (int s = 0; s < nstreams; ++s) {
        const std::size_t q = (s == nstreams - 1) ? data.size() : data.size() * static_cast<std::size_t>(s + 1) / static_cast<std::size_t>(nstreams);
        if (comp == "gz") {
            gzFile f = ::gzopen(path.c_str(), s == 0 ? "wb" : "ab");
            if (!f) throw std::runtime_error{"harness: gzopen"};
            if (q > p && ::gzwrite(f, data.data() + p, static_cast<unsigned>(q - p)) <= 0) throw std::runtime_error{"harness: gzwrite"};
            ::gzclose(f);
        } else {
            FILE* fp = std::fopen(path.c_str(), s == 0 ? "wb" : "ab");
            if (!fp) throw std::runtime_error{"harness: fopen"};
            int err = 0;
            BZFILE* b = ::BZ2_bzWriteOpen(&err, fp, 6, 0, 0);
            if (err != BZ_OK) throw std::runtime_error{"harness: BZ2_bzWriteOpen"};
            if (q > p) ::BZ2_bzWrite(&err, b, const_cast<char*>(data.data() + p), static_cast<int>(q - p));
            ::BZ2_bzWriteClose(&err, b, 0, nullptr, nullptr);
            std::fclose(fp);
        }
        p = q;
    }
}

static void replay_fd(const json& c) {
    const std::string fmt = c["fmt"].get<std::string>();
    const std::string comp = c["comp"].get<std::string>();
    std::string full;
    if (c.contains("path")) full = slurp(c["path"].get<std::string>());
    else if (c["gen"].get<std::string>() == "o5m") full = gen_o5m(c.value("k", 10), c.value("gseed", 1U));
    else full = gen_with_writer(c["gen"].get<std::string>(), c.value("nn", 3), c.value("nw", 1), c.value("nr", 1), c.value("gseed", 1U));
    std::vector<std::size_t> ns;
    if (c.contains("trunc") && c["trunc"].is_string()) {
        for (std::size_t n = 0; n <= full.size(); ++n) ns.push_back(n);
    } else if (c.contains("trunc")) {
        for (const auto& n : c["trunc"]) if (n.get<std::size_t>() <= full.size()) ns.push_back(n.get<std::size_t>());
    } else {
        ns.push_back(full.size());
    }
    int step = 0;
    for (const std::size_t n : ns) {
        const std::string data = full.substr(0, n);
        const RunResult one = run_plain(data, fmt);
        const std::string suffix = comp == "none" ? "" : "." + comp;
        const std::string path = tmpdir() + "/fd." + fmt + (comp == "gz" ? ".gz" : comp == "bz2" ? ".bz2" : "");
        write_compressed(path, data, comp, c.value("streams", 1));
        vh::step_marker(++step);
        const RunResult got = read_all(osmium::io::File{path});
        ::unlink(path.c_str());
        if (!got.same(one)) {
            json g = got.to_json();
            g["n"] = n;
            throw vh::Mismatch(step, one.to_json(), g, "file read through the real " + comp + " file-descriptor decompressor in pieces of " +
                               std::to_string(static_cast<std::size_t>(osmium::io::Decompressor::input_buffer_size)) + " bytes differs from the one-piece buffer run; " +
                               fmt + " prefix of " + std::to_string(n) + " bytes");
        }
    }
}
#endif

int main() {
    std::signal(SIGPIPE, SIG_IGN);
#ifndef CHUNK_FD
    const bool registered = osmium::io::CompressionFactory::instance().register_compression(osmium::io::file_compression::gzip,
        [](int, osmium::io::fsync) -> osmium::io::Compressor* { return nullptr; },
        [](int) -> osmium::io::Decompressor* { throw std::runtime_error{"harness: mock has no fd mode"}; },
        [](const char* b, std::size_t s) -> osmium::io::Decompressor* { return new PieceDecompressor{b, s}; });
    if (!registered) {
        std::fprintf(stderr, "harness: could not register the mock decompressor\n");
        return 3;
    }
#endif
    std::string line;
    while (std::getline(std::cin, line)) {
        if (line.empty()) continue;
        const json c = json::parse(line);
        json r;
        r["id"] = c["id"];
        g_runs = 0;
        try {
#ifndef CHUNK_FD
            if (c.contains("mod")) replay_model_case(c);
            else if (c["kind"] == "sweep") replay_sweep(c);
            else if (c["kind"] == "one") replay_one(c);
            else throw std::runtime_error{"harness: unknown case kind"};
#else
            replay_fd(c);
#endif
            r["ok"] = true;
        } catch (const vh::Mismatch& m) {
            r["ok"] = false;
            r["step"] = m.step;
            r["exp"] = m.exp;
            r["got"] = m.got;
            r["note"] = m.note;
        } catch (const std::exception& e) {
            r["ok"] = false;
            r["step"] = -1;
            r["note"] = std::string{"unexpected exception: "} + typeid(e).name() + ": " + e.what();
        }
        r["runs"] = g_runs;
        vh::emit(r);
    }
    if (!g_tmp.empty()) ::rmdir(g_tmp.c_str());
    return 0;
}
