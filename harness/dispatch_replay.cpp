// C20 replay: cases exported by TLC from specs/Dispatch.tla and specs/DiffIter.tla are executed on the real
// osmium::apply() / osmium::apply_diff() / osmium::DiffIterator with real handler objects; the complete log of
// callback invocations (handler slot, callback, item identity by address, const-ness of the overload taken /
// prev, curr, next, first, last, end_time) is compared with the log computed by the spec.
//
// The template combinations (handler list x container) are instantiated once, in the tables at the end of
// this file; they are exactly the lists named in specs/MCDispatch.tla and specs/MCDiffIter.tla.
#include "common/vh.hpp"

#include <osmium/builder/osm_object_builder.hpp>
#include <osmium/diff_handler.hpp>
#include <osmium/diff_iterator.hpp>
#include <osmium/diff_visitor.hpp>
#include <osmium/dynamic_handler.hpp>
#include <osmium/handler.hpp>
#include <osmium/handler/chain.hpp>
#include <osmium/io/input_iterator.hpp>
#include <osmium/io/opl_input.hpp>
#include <osmium/io/reader.hpp>
#include <osmium/memory/buffer.hpp>
#include <osmium/osm.hpp>
#include <osmium/osm/diff_object.hpp>
#include <osmium/visitor.hpp>

#include <cstdint>
#include <cstring>
#include <map>
#include <sstream>
#include <string>
#include <tuple>
#include <type_traits>
#include <utility>
#include <vector>

using vh::json;
using osmium::item_type;
namespace mem = osmium::memory;

struct Unsupported : public vh::Mismatch {
    explicit Unsupported(const std::string& what) : vh::Mismatch(-2, "instantiated combination", "not instantiated", what) {}
};

// ---------------------------------------------------------------------------------------------- items

static const char* type_name(item_type t) {
    switch (t) {
        case item_type::undefined: return "undefined";
        case item_type::node: return "node";
        case item_type::way: return "way";
        case item_type::relation: return "relation";
        case item_type::area: return "area";
        case item_type::changeset: return "changeset";
        case item_type::tag_list: return "tag_list";
        case item_type::way_node_list: return "way_node_list";
        case item_type::relation_member_list: return "relation_member_list";
        case item_type::relation_member_list_with_full_members: return "relation_member_list_with_full_members";
        case item_type::outer_ring: return "outer_ring";
        case item_type::inner_ring: return "inner_ring";
        case item_type::changeset_discussion: return "changeset_discussion";
    }
    return "?";
}

struct ItemSpec {
    std::string t;
    bool rm = false;
    int64_t id = 0;
    uint32_t version = 1;
    uint32_t ts = 1;
};

template <typename TBuilder>
static void build_object(mem::Buffer& b, const ItemSpec& s) {
    {
        TBuilder builder{b};
        builder.set_id(s.id).set_version(s.version).set_timestamp(osmium::Timestamp{s.ts}).set_user("u");
    }
    b.commit();
}

// Appends one committed top-level item of the given type to the buffer.
static void build_item(mem::Buffer& b, const ItemSpec& s) {
    namespace B = osmium::builder;
    const std::size_t before = b.committed();
    if (s.t == "node") build_object<B::NodeBuilder>(b, s);
    else if (s.t == "way") build_object<B::WayBuilder>(b, s);
    else if (s.t == "relation") build_object<B::RelationBuilder>(b, s);
    else if (s.t == "area") build_object<B::AreaBuilder>(b, s);
    else if (s.t == "changeset") {
        { B::ChangesetBuilder builder{b}; builder.set_id(static_cast<osmium::changeset_id_type>(s.id)).set_user("u"); }
        b.commit();
    } else if (s.t == "tag_list") {
        { B::TagListBuilder builder{b}; builder.add_tag("k", "v"); }
        b.commit();
    } else if (s.t == "way_node_list") {
        { B::WayNodeListBuilder builder{b}; builder.add_node_ref(osmium::NodeRef{1}); }
        b.commit();
    } else if (s.t == "outer_ring") {
        { B::OuterRingBuilder builder{b}; builder.add_node_ref(osmium::NodeRef{1}); }
        b.commit();
    } else if (s.t == "inner_ring") {
        { B::InnerRingBuilder builder{b}; builder.add_node_ref(osmium::NodeRef{1}); }
        b.commit();
    } else if (s.t == "relation_member_list" || s.t == "relation_member_list_with_full_members") {
        { B::RelationMemberListBuilder builder{b}; builder.add_member(item_type::node, 1, "role"); }
        b.commit();
        if (s.t != "relation_member_list") {   // no builder produces this (legacy) type: patch the type field of the header
            const uint16_t ty = static_cast<uint16_t>(item_type::relation_member_list_with_full_members);
            std::memcpy(b.data() + before + sizeof(mem::item_size_type), &ty, sizeof(ty));
        }
    } else if (s.t == "changeset_discussion") {
        { B::ChangesetDiscussionBuilder builder{b}; builder.add_comment(osmium::Timestamp{1}, 1, "u"); builder.add_comment_text("t"); }
        b.commit();
    } else if (s.t == "undefined") {
        unsigned char* p = b.reserve_space(8);
        const uint32_t size = 8;
        const uint16_t ty = 0;
        const uint16_t flags = 0;
        std::memcpy(p, &size, 4);
        std::memcpy(p + 4, &ty, 2);
        std::memcpy(p + 6, &flags, 2);
        b.commit();
    } else {
        throw vh::Mismatch(-2, "known item type", s.t, "harness can not build this item type");
    }
    auto& item = *reinterpret_cast<mem::Item*>(b.data() + before);
    if (s.t != type_name(item.type())) {
        throw vh::Mismatch(-2, s.t, type_name(item.type()), "harness built the wrong item type");
    }
    if (s.rm) item.set_removed(true);
}

// Identity of the items of a case: address -> 1-based index in the case's item sequence; in "reader" mode the
// items live in the Reader's own buffers and are identified by (type, id[, version]).
struct Identity {
    std::map<const void*, int> by_addr;
    std::map<std::tuple<int, int64_t, uint32_t>, int> by_key;
    bool use_key = false;

    static int64_t id_of(const mem::Item& it) {
        switch (it.type()) {
            case item_type::node: case item_type::way: case item_type::relation: case item_type::area:
                return static_cast<const osmium::OSMObject&>(it).id();
            case item_type::changeset:
                return static_cast<const osmium::Changeset&>(it).id();
            default:
                return -1;
        }
    }
    static uint32_t version_of(const mem::Item& it) {
        switch (it.type()) {
            case item_type::node: case item_type::way: case item_type::relation: case item_type::area:
                return static_cast<const osmium::OSMObject&>(it).version();
            default:
                return 0;
        }
    }
    int index_of(const mem::Item& it) const {
        if (use_key) {
            const auto f = by_key.find(std::make_tuple(static_cast<int>(it.type()), id_of(it), version_of(it)));
            return f == by_key.end() ? -1 : f->second;
        }
        const auto f = by_addr.find(&it);
        return f == by_addr.end() ? -1 : f->second;
    }
};

struct Data {
    std::vector<ItemSpec> specs;             // 1-based use: specs[i-1]
    std::vector<mem::Buffer> buffers;        // one per chunk
    Identity ident;
    std::string opl;                         // the same data as an OPL file (reader modes)
};

static std::string opl_line(const ItemSpec& s) {
    std::ostringstream o;
    const std::string ts = osmium::Timestamp{s.ts}.to_iso();
    if (s.t == "changeset") {
        o << "c" << s.id << " k0 s" << ts << " e" << ts << " d0 i1 uu x1 y1 X2 Y2 T\n";
    } else {
        o << s.t[0] << s.id << " v" << s.version << " dV c1 t" << ts << " i1 uu T";
        if (s.t == "node") o << " x1 y2";
        else if (s.t == "way") o << " Nn1";
        else o << " Mn1@r";
        o << "\n";
    }
    return o.str();
}

static void make_data(Data& d, const std::vector<int>& chunks, bool want_opl) {
    std::size_t k = 0;
    for (const int n : chunks) {
        d.buffers.emplace_back(std::size_t(8192), mem::Buffer::auto_grow::no);
        mem::Buffer& b = d.buffers.back();
        for (int j = 0; j < n; ++j, ++k) build_item(b, d.specs.at(k));
    }
    if (k != d.specs.size()) throw vh::Mismatch(-2, d.specs.size(), k, "chunks do not add up to the item sequence");
    k = 0;
    for (auto& b : d.buffers) {
        for (auto it = b.begin<mem::Item>(); it != b.end<mem::Item>(); ++it, ++k) {
            d.ident.by_addr[&*it] = static_cast<int>(k) + 1;
        }
    }
    if (k != d.specs.size()) throw vh::Mismatch(-2, d.specs.size(), k, "harness lost items while building");
    if (want_opl) {
        d.ident.use_key = true;
        for (std::size_t i = 0; i < d.specs.size(); ++i) {
            const ItemSpec& s = d.specs[i];
            d.opl += opl_line(s);
            item_type ty = item_type::changeset;
            if (s.t == "node") ty = item_type::node; else if (s.t == "way") ty = item_type::way; else if (s.t == "relation") ty = item_type::relation;
            d.ident.by_key[std::make_tuple(static_cast<int>(ty), s.id, s.t == "changeset" ? 0U : s.version)] = static_cast<int>(i) + 1;
        }
    }
}

// A source of buffers for osmium::io::InputIterator: hands out each chunk once, then invalid buffers.
struct Source {
    std::vector<mem::Buffer>* bufs;
    std::size_t next = 0;
    int reads_after_end = 0;
    bool ended = false;
    explicit Source(std::vector<mem::Buffer>& b) : bufs(&b) {}
    mem::Buffer read() {
        if (next < bufs->size()) return std::move((*bufs)[next++]);
        if (ended) ++reads_after_end;
        ended = true;
        return mem::Buffer{};
    }
};

// ---------------------------------------------------------------------------------------------- dispatch log

struct Log {
    json entries = json::array();
    const Identity* ident = nullptr;

    void add(int h, const std::string& cb, int i, const char* q) {
        entries.push_back(json{{"h", h}, {"cb", cb}, {"i", i}, {"q", q}});
    }
    // T: static type the callback received; the dynamic type of the item must be one T can be
    template <typename T>
    void rec(int h, std::string cb, const T& x, const char* q) {
        if (!T::is_compatible_to(x.type())) cb += std::string("!static-type-wrong-for-") + type_name(x.type());
        add(h, cb, ident->index_of(x), q);
    }
};

template <typename T> struct tname;
template <> struct tname<osmium::Node> { static const char* get() { return "node"; } };
template <> struct tname<osmium::Way> { static const char* get() { return "way"; } };
template <> struct tname<osmium::Relation> { static const char* get() { return "relation"; } };
template <> struct tname<osmium::Area> { static const char* get() { return "area"; } };
template <> struct tname<osmium::Changeset> { static const char* get() { return "changeset"; } };
template <typename T> struct tname { static const char* get() { return "other"; } };

// ---------------------------------------------------------------------------------------------- handlers

#define C20_CALLBACKS(M) \
    M(osm_object, OSMObject) M(node, Node) M(way, Way) M(relation, Relation) M(area, Area) M(changeset, Changeset) \
    M(tag_list, TagList) M(way_node_list, WayNodeList) M(relation_member_list, RelationMemberList) \
    M(outer_ring, OuterRing) M(inner_ring, InnerRing) M(changeset_discussion, ChangesetDiscussion)
#define C20_CB_C(name, T) void name(const osmium::T& x) { log->rec(h, #name, x, "c"); }
#define C20_CB_N(name, T) void name(osmium::T& x) { log->rec(h, #name, x, "nc"); }

struct HBase : public osmium::handler::Handler {
    Log* log = nullptr;
    int h = 0;
    HBase() = default;
    HBase(Log* l, int hh) : log(l), h(hh) {}
};
struct HSC : public HBase {   // callbacks take const T&
    using HBase::HBase;
    C20_CALLBACKS(C20_CB_C)
    void flush() { log->add(h, "flush", 0, ""); }
};
struct HSN : public HBase {   // callbacks take T&
    using HBase::HBase;
    C20_CALLBACKS(C20_CB_N)
    void flush() { log->add(h, "flush", 0, ""); }
};
struct HSB : public HBase {   // both
    using HBase::HBase;
    C20_CALLBACKS(C20_CB_C)
    C20_CALLBACKS(C20_CB_N)
    void flush() { log->add(h, "flush", 0, ""); }
};
// not a Handler: visitor style function object for DynamicHandler
struct Functor5 {
    Log* log;
    int h;
    Functor5(Log* l, int hh) : log(l), h(hh) {}
    void operator()(const osmium::Node& x) { log->rec(h, "call_Node", x, "c"); }
    void operator()(const osmium::Way& x) { log->rec(h, "call_Way", x, "c"); }
    void operator()(const osmium::Relation& x) { log->rec(h, "call_Relation", x, "c"); }
    void operator()(const osmium::Area& x) { log->rec(h, "call_Area", x, "c"); }
    void operator()(const osmium::Changeset& x) { log->rec(h, "call_Changeset", x, "c"); }
};
// function object with an overload set, one of the call operators not const
struct FunctorO {
    Log* log;
    int h;
    void operator()(const osmium::Node& x) const { log->rec(h, "call_Node", x, "c"); }
    void operator()(osmium::Area& x) const { log->rec(h, "call_Area", x, "nc"); }
    void operator()(const osmium::Changeset& x) { log->rec(h, "call_Changeset", x, "c"); }
};

// real closures; they reach their log through the slot record of the holder that owns them
struct Slot {
    Log* log = nullptr;
    int h = 0;
};
static auto make_LNc(Slot* s) { return [s](const osmium::Node& x) { s->log->rec(s->h, "call_Node", x, "c"); }; }
static auto make_LWn(Slot* s) { return [s](osmium::Way& x) { s->log->rec(s->h, "call_Way", x, "nc"); }; }
static auto make_LO(Slot* s) { return [s](const osmium::OSMObject& x) { s->log->rec(s->h, "call_OSMObject", x, "c"); }; }
static auto make_LE(Slot* s) { return [s](osmium::OSMEntity& x) { s->log->rec(s->h, "call_OSMEntity", x, "nc"); }; }
static auto make_LI(Slot* s) { return [s](const mem::Item& x) { s->log->rec(s->h, "call_Item", x, "c"); }; }
static auto make_LA(Slot* s) {
    return [s](const auto& x) {
        using T = std::decay_t<decltype(x)>;
        std::string cb = "call_auto";
        if (std::string(tname<T>::get()) != type_name(x.type())) cb += std::string("!static=") + tname<T>::get();
        s->log->rec(s->h, cb, x, "c");
    };
}
static auto make_LM(Slot* s) {
    int calls = 0;
    return [s, calls](const osmium::Relation& x) mutable { ++calls; s->log->rec(s->h, "call_Relation", x, "c"); };
}

// kind tags
struct K_SC {}; struct K_SN {}; struct K_SB {}; struct K_DY {}; struct K_DF {}; struct K_LNc {}; struct K_LWn {}; struct K_LO {};
struct K_LE {}; struct K_LI {}; struct K_LA {}; struct K_LM {}; struct K_FO {}; struct K_CH {};

// Holder<K>: owns the handler object(s) of one slot; arg() is what is passed to osmium::apply().
template <typename K> struct Holder;
#define C20_STATIC_HOLDER(K, H, NAME, CONSTOK) \
    template <> struct Holder<K> { \
        static const char* name() { return NAME; } \
        static constexpr bool const_ok = CONSTOK; \
        H hd; \
        void init(Log* log, int slot) { hd.log = log; hd.h = 10 * slot; } \
        H& arg() { return hd; } \
    };
C20_STATIC_HOLDER(K_SC, HSC, "SC", true)
C20_STATIC_HOLDER(K_SN, HSN, "SN", false)
C20_STATIC_HOLDER(K_SB, HSB, "SB", true)
template <> struct Holder<K_DY> {
    static const char* name() { return "DY"; }
    static constexpr bool const_ok = true;
    osmium::handler::DynamicHandler hd;
    void init(Log* log, int slot) { hd.set<HSC>(log, 10 * slot + 1); }
    osmium::handler::DynamicHandler& arg() { return hd; }
};
template <> struct Holder<K_DF> {
    static const char* name() { return "DF"; }
    static constexpr bool const_ok = true;
    osmium::handler::DynamicHandler hd;
    void init(Log* log, int slot) { hd.set<Functor5>(log, 10 * slot + 1); }
    osmium::handler::DynamicHandler& arg() { return hd; }
};
// closures: BYVALUE = pass a temporary copy (rvalue), else the named closure object (lvalue)
#define C20_LAMBDA_HOLDER(K, MAKE, NAME, BYVALUE) \
    template <> struct Holder<K> { \
        using F = decltype(MAKE(nullptr)); \
        static const char* name() { return NAME; } \
        static constexpr bool const_ok = true; \
        Slot slot; \
        F f = MAKE(&slot); \
        void init(Log* log, int sl) { slot.log = log; slot.h = 10 * sl; } \
        std::conditional_t<BYVALUE, F, F&> arg() { return f; } \
    };
C20_LAMBDA_HOLDER(K_LNc, make_LNc, "LNc", true)
C20_LAMBDA_HOLDER(K_LWn, make_LWn, "LWn", false)
C20_LAMBDA_HOLDER(K_LO, make_LO, "LO", true)
C20_LAMBDA_HOLDER(K_LE, make_LE, "LE", false)
C20_LAMBDA_HOLDER(K_LI, make_LI, "LI", true)
C20_LAMBDA_HOLDER(K_LA, make_LA, "LA", true)
C20_LAMBDA_HOLDER(K_LM, make_LM, "LM", true)
template <> struct Holder<K_FO> {
    static const char* name() { return "FO"; }
    static constexpr bool const_ok = true;
    FunctorO f{nullptr, 0};
    void init(Log* log, int slot) { f.log = log; f.h = 10 * slot; }
    FunctorO& arg() { return f; }
};
template <> struct Holder<K_CH> {
    static const char* name() { return "CH"; }
    static constexpr bool const_ok = false;
    HSC a;
    HSB b;
    osmium::handler::ChainHandler<HSC, HSB> chain{a, b};
    void init(Log* log, int slot) { a.log = log; a.h = 10 * slot + 1; b.log = log; b.h = 10 * slot + 2; }
    osmium::handler::ChainHandler<HSC, HSB>& arg() { return chain; }
};

// ---------------------------------------------------------------------------------------------- containers

enum : unsigned {
    C_BUF = 1, C_CBUF = 2, C_ITEM = 4, C_CITEM = 8, C_OBJ = 16, C_COBJ = 32, C_IN_ITEM = 64, C_IN_ENT = 128, C_IN_COBJ = 256, C_READER = 512,
    CONST_BITS = C_CBUF | C_CITEM | C_COBJ | C_IN_COBJ,
    MASK_SINGLES = 1023,
    MASK_PAIRS = C_BUF | C_ITEM | C_CITEM | C_IN_ITEM,
    MASK_MULTI = C_CBUF | C_ITEM | C_CITEM
};
static unsigned cont_bit(const std::string& c) {
    static const std::map<std::string, unsigned> m{{"buf", C_BUF}, {"cbuf", C_CBUF}, {"item", C_ITEM}, {"citem", C_CITEM}, {"obj", C_OBJ},
        {"cobj", C_COBJ}, {"in_item", C_IN_ITEM}, {"in_ent", C_IN_ENT}, {"in_cobj", C_IN_COBJ}, {"reader", C_READER}};
    const auto f = m.find(c);
    if (f == m.end()) throw Unsupported("container " + c);
    return f->second;
}

// How often the iterators read the source is not part of the property (only which items the handlers see), so it
// is not compared: a source that is not read to its end shows as missing callbacks if it matters.
static void check_source(const Source&, Log&) {
}

template <unsigned BIT> struct Apply;
template <> struct Apply<C_BUF> { template <typename... A> static void run(Data& d, Log&, A&&... a) {
    mem::Buffer& b = d.buffers.at(0); osmium::apply(b, std::forward<A>(a)...); } };
template <> struct Apply<C_CBUF> { template <typename... A> static void run(Data& d, Log&, A&&... a) {
    const mem::Buffer& b = d.buffers.at(0); osmium::apply(b, std::forward<A>(a)...); } };
template <> struct Apply<C_ITEM> { template <typename... A> static void run(Data& d, Log&, A&&... a) {
    mem::Buffer& b = d.buffers.at(0); osmium::apply(b.begin<mem::Item>(), b.end<mem::Item>(), std::forward<A>(a)...); } };
template <> struct Apply<C_CITEM> { template <typename... A> static void run(Data& d, Log&, A&&... a) {
    const mem::Buffer& b = d.buffers.at(0); osmium::apply(b.cbegin<mem::Item>(), b.cend<mem::Item>(), std::forward<A>(a)...); } };
template <> struct Apply<C_OBJ> { template <typename... A> static void run(Data& d, Log&, A&&... a) {
    mem::Buffer& b = d.buffers.at(0); auto range = b.select<osmium::OSMObject>(); osmium::apply(range, std::forward<A>(a)...); } };
template <> struct Apply<C_COBJ> { template <typename... A> static void run(Data& d, Log&, A&&... a) {
    const mem::Buffer& b = d.buffers.at(0); const auto range = b.select<osmium::OSMObject>(); osmium::apply(range, std::forward<A>(a)...); } };
template <> struct Apply<C_IN_ITEM> { template <typename... A> static void run(Data& d, Log& log, A&&... a) {
    Source src{d.buffers};
    using It = osmium::io::InputIterator<Source, mem::Item>;
    osmium::apply(It{src}, It{}, std::forward<A>(a)...);
    check_source(src, log); } };
template <> struct Apply<C_IN_ENT> { template <typename... A> static void run(Data& d, Log& log, A&&... a) {
    Source src{d.buffers};
    auto range = osmium::io::make_input_iterator_range<osmium::OSMEntity>(src);
    osmium::apply(range, std::forward<A>(a)...);
    check_source(src, log); } };
template <> struct Apply<C_IN_COBJ> { template <typename... A> static void run(Data& d, Log& log, A&&... a) {
    Source src{d.buffers};
    using It = osmium::io::InputIterator<Source, const osmium::OSMObject>;
    osmium::apply(It{src}, It{}, std::forward<A>(a)...);
    check_source(src, log); } };
template <> struct Apply<C_READER> { template <typename... A> static void run(Data& d, Log&, A&&... a) {
    osmium::io::File file{d.opl.data(), d.opl.size(), "opl"};
    osmium::io::Reader reader{file};
    osmium::apply(reader, std::forward<A>(a)...);
    reader.close(); } };

template <bool... B> struct all_true;
template <> struct all_true<> : std::true_type {};
template <bool B0, bool... B> struct all_true<B0, B...> : std::integral_constant<bool, B0 && all_true<B...>::value> {};

template <unsigned MASK, typename... Ks>
struct Runner {
    static constexpr bool const_ok = all_true<Holder<Ks>::const_ok...>::value;
    template <unsigned BIT> using enabled = std::integral_constant<bool, (MASK & BIT) != 0 && ((BIT & CONST_BITS) == 0 || const_ok)>;

    static std::string name() {
        std::string s;
        const char* names[] = {Holder<Ks>::name()...};
        for (const char* n : names) { if (!s.empty()) s += ","; s += n; }
        return s;
    }
    template <unsigned BIT>
    static void call(Data&, Log&, std::false_type) {
        throw Unsupported("handler list " + name() + " is not instantiated for this container");
    }
    template <unsigned BIT, std::size_t... I>
    static void call2(Data& d, Log& log, std::index_sequence<I...>) {
        std::tuple<Holder<Ks>...> hs;
        (void)std::initializer_list<int>{(std::get<I>(hs).init(&log, static_cast<int>(I) + 1), 0)...};
        try {
            Apply<BIT>::run(d, log, std::get<I>(hs).arg()...);
        } catch (const osmium::unknown_type&) {
            log.add(0, "throw", 0, "");
        }
    }
    template <unsigned BIT>
    static void call(Data& d, Log& log, std::true_type) {
        call2<BIT>(d, log, std::index_sequence_for<Ks...>{});
    }
    static void go(unsigned bit, Data& d, Log& log) {
        switch (bit) {
            case C_BUF: call<C_BUF>(d, log, enabled<C_BUF>{}); break;
            case C_CBUF: call<C_CBUF>(d, log, enabled<C_CBUF>{}); break;
            case C_ITEM: call<C_ITEM>(d, log, enabled<C_ITEM>{}); break;
            case C_CITEM: call<C_CITEM>(d, log, enabled<C_CITEM>{}); break;
            case C_OBJ: call<C_OBJ>(d, log, enabled<C_OBJ>{}); break;
            case C_COBJ: call<C_COBJ>(d, log, enabled<C_COBJ>{}); break;
            case C_IN_ITEM: call<C_IN_ITEM>(d, log, enabled<C_IN_ITEM>{}); break;
            case C_IN_ENT: call<C_IN_ENT>(d, log, enabled<C_IN_ENT>{}); break;
            case C_IN_COBJ: call<C_IN_COBJ>(d, log, enabled<C_IN_COBJ>{}); break;
            case C_READER: call<C_READER>(d, log, enabled<C_READER>{}); break;
            default: throw Unsupported("container bit");
        }
    }
};

using RunFn = void (*)(unsigned, Data&, Log&);
static std::map<std::string, RunFn>& dispatch_table() {
    static std::map<std::string, RunFn> t;
    return t;
}
template <unsigned MASK, typename... Ks>
static void reg() {
    dispatch_table()[Runner<MASK, Ks...>::name()] = &Runner<MASK, Ks...>::go;
}
template <typename A>
static void reg_pairs_with() {
    reg<MASK_PAIRS, A, K_SB>(); reg<MASK_PAIRS, A, K_SN>(); reg<MASK_PAIRS, A, K_DY>();
    reg<MASK_PAIRS, A, K_LNc>(); reg<MASK_PAIRS, A, K_LO>(); reg<MASK_PAIRS, A, K_CH>();
}
// The instantiations are split over two binaries (-DC20_PART=1: singles and diff, -DC20_PART=2: pairs and
// longer lists) only to halve the wall time of a cold build; without the macro everything is in one binary.
#ifndef C20_PART
# define C20_PART 0
#endif
static void register_dispatch() {
#if C20_PART == 0 || C20_PART == 1
    // SINGLES (all containers incl. the real Reader)
    reg<MASK_SINGLES, K_SC>(); reg<MASK_SINGLES, K_SN>(); reg<MASK_SINGLES, K_SB>(); reg<MASK_SINGLES, K_DY>(); reg<MASK_SINGLES, K_DF>();
    reg<MASK_SINGLES, K_LNc>(); reg<MASK_SINGLES, K_LWn>(); reg<MASK_SINGLES, K_LO>(); reg<MASK_SINGLES, K_LE>(); reg<MASK_SINGLES, K_LI>();
    reg<MASK_SINGLES, K_LA>(); reg<MASK_SINGLES, K_LM>(); reg<MASK_SINGLES, K_FO>(); reg<MASK_SINGLES, K_CH>();
#endif
#if C20_PART == 0 || C20_PART == 2
    // PAIRS (all ordered pairs of PairKinds)
    reg_pairs_with<K_SB>(); reg_pairs_with<K_SN>(); reg_pairs_with<K_DY>(); reg_pairs_with<K_LNc>(); reg_pairs_with<K_LO>(); reg_pairs_with<K_CH>();
    // MULTI
    reg<MASK_MULTI, K_SC, K_SC, K_SC>();
    reg<MASK_MULTI, K_SB, K_DY, K_LO>();
    reg<MASK_MULTI, K_LNc, K_CH, K_SC>();
    reg<MASK_MULTI, K_DF, K_LA, K_SN>();
    reg<MASK_MULTI, K_LM, K_FO, K_LE>();
    reg<MASK_MULTI, K_SC, K_SB, K_SC, K_SB>();
    reg<MASK_MULTI, K_SB, K_LWn, K_DF, K_CH>();
    reg<MASK_MULTI, K_LA, K_FO, K_LM, K_LO>();
    reg<MASK_MULTI, K_DY, K_DY, K_LNc, K_SN>();
#endif
}

static std::string join(const json& a) {
    std::string s;
    for (const auto& x : a) { if (!s.empty()) s += ","; s += x.get<std::string>(); }
    return s;
}

static void compare_logs(const json& exp, const json& got, const std::string& note) {
    if (exp == got) return;
    int k = 0;
    while (k < static_cast<int>(exp.size()) && k < static_cast<int>(got.size()) && exp[k] == got[k]) ++k;
    throw vh::Mismatch(k, exp, got, note);
}

static void run_dispatch(const json& c) {
    Data d;
    int i = 0;
    for (const auto& it : c["items"]) {
        ItemSpec s;
        s.t = it["t"].get<std::string>();
        s.rm = it["rm"].get<bool>();
        s.id = 100 + (++i);
        d.specs.push_back(s);
    }
    std::vector<int> chunks;
    for (const auto& x : c["chunks"]) chunks.push_back(x.get<int>());
    const std::string cont = c["cont"].get<std::string>();
    const unsigned bit = cont_bit(cont);
    if (bit & (C_IN_ITEM | C_IN_ENT | C_IN_COBJ)) {
        make_data(d, chunks, false);
    } else {
        make_data(d, std::vector<int>{static_cast<int>(d.specs.size())}, bit == C_READER);
    }
    Log log;
    log.ident = &d.ident;
    const std::string hl = join(c["hl"]);
    const auto f = dispatch_table().find(hl);
    if (f == dispatch_table().end()) throw Unsupported("handler list " + hl);
    vh::step_marker(0);
    f->second(bit, d, log);
    compare_logs(c["log"], log.entries, "callback log of apply(" + cont + "; " + hl + ")");
}

// ---------------------------------------------------------------------------------------------- diff

struct DLog {
    json entries = json::array();
    const Identity* ident = nullptr;
    const std::vector<ItemSpec>* specs = nullptr;

    void rec(int h, std::string cb, const osmium::DiffObject& d) {
        const int p = ident->index_of(d.prev());
        const int c = ident->index_of(d.curr());
        const int n = ident->index_of(d.next());
        // the accessors of the DiffObject must describe curr
        if (c >= 1) {
            const ItemSpec& s = (*specs)[static_cast<std::size_t>(c) - 1];
            if (d.id() != s.id || d.version() != s.version || s.t != type_name(d.type()) ||
                d.start_time() != osmium::Timestamp{s.ts}) cb += "!accessors-do-not-describe-curr";
        }
        if (d.empty()) cb += "!empty";
        const osmium::Timestamp et = d.end_time();
        entries.push_back(json{{"h", h}, {"cb", cb}, {"p", p}, {"c", c}, {"n", n}, {"first", d.first()}, {"last", d.last()},
                               {"et", et == osmium::end_of_time() ? 0U : static_cast<uint32_t>(et)}});
    }
    void thrown() {
        entries.push_back(json{{"h", 0}, {"cb", "throw"}, {"p", 0}, {"c", 0}, {"n", 0}, {"first", false}, {"last", false}, {"et", 0}});
    }
};

struct DBase : public osmium::diff_handler::DiffHandler {
    DLog* log = nullptr;
    int h = 0;
};
struct HDA : public DBase {
    static const char* name() { return "DA"; }
    void node(const osmium::DiffNode& d) { chk(d.curr().type() == item_type::node && d.prev().type() == item_type::node && d.next().type() == item_type::node, "node", d); }
    void way(const osmium::DiffWay& d) { chk(d.curr().type() == item_type::way && d.prev().type() == item_type::way && d.next().type() == item_type::way, "way", d); }
    void relation(const osmium::DiffRelation& d) { chk(d.curr().type() == item_type::relation && d.prev().type() == item_type::relation && d.next().type() == item_type::relation, "relation", d); }
    void chk(bool ok, const char* cb, const osmium::DiffObject& d) { log->rec(h, ok ? std::string(cb) : std::string(cb) + "!derived-type-wrong", d); }
};
struct HDN : public DBase {   // way() inherited from DiffHandler
    static const char* name() { return "DN"; }
    void node(const osmium::DiffNode& d) { log->rec(h, "node", d); }
    void relation(const osmium::DiffRelation& d) { log->rec(h, "relation", d); }
};

template <typename TIter>
static void iterate_by_hand(TIter begin, TIter end, DLog& log) {
    auto it = osmium::make_diff_iterator(begin, end);
    const auto dend = osmium::make_diff_iterator(end, end);
    for (int k = 0; it != dend; ++k) {
        if (k % 2 == 0) {
            const osmium::DiffObject& d = *it;
            log.rec(0, "visit", d);
        } else {
            log.rec(0, "visit", *(it.operator->()));
        }
        if (k % 3 == 2) { it++; } else { ++it; }
        if (k > 1000) throw vh::Mismatch(0, "end of iteration", "more than 1000 positions", "DiffIterator does not terminate");
    }
}

template <typename... Hs>
struct DiffRunner {
    static std::string name() {
        std::string s;
        const char* names[] = {Hs::name()...};
        for (const char* n : names) { if (!s.empty()) s += ","; s += n; }
        return s;
    }
    template <std::size_t... I>
    static void go2(const std::string& mode, Data& d, DLog& log, std::index_sequence<I...>) {
        std::tuple<Hs...> hs;
        (void)std::initializer_list<int>{((std::get<I>(hs).log = &log), (std::get<I>(hs).h = static_cast<int>(I) + 1), 0)...};
        try {
            if (mode == "ad_buf") {
                mem::Buffer& b = d.buffers.at(0);
                osmium::apply_diff(b, std::get<I>(hs)...);
            } else if (mode == "ad_cbuf") {
                const mem::Buffer& b = d.buffers.at(0);
                osmium::apply_diff(b, std::get<I>(hs)...);
            } else if (mode == "ad_iter") {
                mem::Buffer& b = d.buffers.at(0);
                auto first = b.begin<osmium::OSMObject>();
                auto last = b.end<osmium::OSMObject>();
                osmium::apply_diff(first, last, std::get<I>(hs)...);
            } else if (mode == "ad_src") {
                Source src{d.buffers};
                osmium::apply_diff(src, std::get<I>(hs)...);
            } else if (mode == "ad_reader") {
                osmium::io::File file{d.opl.data(), d.opl.size(), "opl"};
                osmium::io::Reader reader{file};
                osmium::apply_diff(reader, std::get<I>(hs)...);
                reader.close();
            } else {
                throw Unsupported("mode " + mode);
            }
        } catch (const osmium::unknown_type&) {
            log.thrown();
        }
    }
    static void go(const std::string& mode, Data& d, DLog& log) {
        go2(mode, d, log, std::index_sequence_for<Hs...>{});
    }
};
using DiffFn = void (*)(const std::string&, Data&, DLog&);
static std::map<std::string, DiffFn>& diff_table() {
    static std::map<std::string, DiffFn> t;
    return t;
}
template <typename... Hs>
static void dreg() {
    diff_table()[DiffRunner<Hs...>::name()] = &DiffRunner<Hs...>::go;
}
static void register_diff() {
#if C20_PART == 0 || C20_PART == 1
    // DIFF_LISTS
    dreg<HDA>(); dreg<HDN>(); dreg<HDA, HDN>(); dreg<HDN, HDA>(); dreg<HDA, HDA, HDA>();
#endif
}

static void run_diff(const json& c) {
    Data d;
    for (const auto& it : c["raw"]) {
        ItemSpec s;
        s.t = it["t"].get<std::string>();
        s.id = it["id"].get<int64_t>();
        s.version = it["v"].get<uint32_t>();
        s.ts = it["ts"].get<uint32_t>();
        if (s.t == "changeset") { s.id = 7; s.version = 0; s.ts = 1; }
        d.specs.push_back(s);
    }
    std::vector<int> chunks;
    for (const auto& x : c["chunks"]) chunks.push_back(x.get<int>());
    const std::string mode = c["mode"].get<std::string>();
    const bool input = mode == "it_input" || mode == "ad_src";
    if (input) make_data(d, chunks, false);
    else make_data(d, std::vector<int>{static_cast<int>(d.specs.size())}, mode == "ad_reader");
    DLog log;
    log.ident = &d.ident;
    log.specs = &d.specs;
    vh::step_marker(0);
    if (mode == "it_obj") {
        mem::Buffer& b = d.buffers.at(0);
        iterate_by_hand(b.begin<osmium::OSMObject>(), b.end<osmium::OSMObject>(), log);
    } else if (mode == "it_cobj") {
        const mem::Buffer& b = d.buffers.at(0);
        iterate_by_hand(b.cbegin<osmium::OSMObject>(), b.cend<osmium::OSMObject>(), log);
    } else if (mode == "it_input") {
        Source src{d.buffers};
        using It = osmium::io::InputIterator<Source, osmium::OSMObject>;
        iterate_by_hand(It{src}, It{}, log);
    } else {
        const std::string hl = join(c["hl"]);
        const auto f = diff_table().find(hl);
        if (f == diff_table().end()) throw Unsupported("diff handler list " + hl);
        f->second(mode, d, log);
    }
    compare_logs(c["log"], log.entries, "DiffObject log of " + mode);
}

int main() {
    register_dispatch();
    register_diff();
    return vh::run_cases([](const json& c) {
        const std::string kind = c["kind"].get<std::string>();
        if (kind == "dispatch") run_dispatch(c);
        else if (kind == "diff") run_diff(c);
        else throw Unsupported("case kind " + kind);
    });
}
