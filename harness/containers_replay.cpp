// C15 replay: histories exported by TLC from specs/IdSetDense.tla, IdSetSmall.tla, RelationsMap.tla and
// ItemStash.tla are executed on the real containers; the result of every call is compared with the spec.
#include "common/vh.hpp"

#include <osmium/builder/osm_object_builder.hpp>
#include <osmium/index/id_set.hpp>
#include <osmium/index/relations_map.hpp>
#include <osmium/memory/buffer.hpp>
#include <osmium/osm.hpp>
#include <osmium/storage/item_stash.hpp>

#include <cstdint>
#include <cstring>
#include <map>
#include <string>
#include <vector>

using vh::json;

// ---------------------------------------------------------------- IdSetDense

// Border-preserving embedding of model ids (chunk c of NC, byte o of NB, bit k) into the real id space.
template <typename T, std::size_t RCB>
struct Embed {
    int model_cb, model_tbits;
    uint64_t top_chunk;   // real chunk index the model's last chunk is mapped to
    T operator()(int64_t id) const {
        const int64_t chunk_ids = (1LL << model_cb) * 8;
        const int64_t nc = (1LL << model_tbits) / chunk_ids;
        const int64_t c = id / chunk_ids;
        const int64_t o = (id % chunk_ids) / 8;
        const int64_t k = id % 8;
        const uint64_t rc = (c == nc - 1) ? top_chunk : static_cast<uint64_t>(c);
        const uint64_t nb = 1ULL << model_cb;
        const uint64_t rb = (static_cast<uint64_t>(o) == nb - 1 && nb > 1) ? ((1ULL << RCB) - 1) : static_cast<uint64_t>(o);
        return static_cast<T>((rc << (RCB + 3)) | (rb << 3) | static_cast<uint64_t>(k));
    }
};

template <typename T, std::size_t RCB>
static void run_dense(const json& c, uint64_t top_chunk) {
    using Set = osmium::index::IdSetDense<T, RCB>;
    Embed<T, RCB> emb{c["cb"], c["tbits"], top_chunk};
    Set s;
    Set saved;
    int k = 0;
    for (const auto& st : c["steps"]) {
        vh::step_marker(k);
        const std::string a = st["a"];
        std::string ret = "none";
        if (a == "check_and_set") {
            const T id = emb(st["x"]);
            if (k % 3 == 2) { const bool before = s.get(id); s.set(id); ret = before ? "false" : "true"; }
            else ret = s.check_and_set(id) ? "true" : "false";
        } else if (a == "unset") {
            s.unset(emb(st["x"]));
        } else if (a == "get") {
            ret = s.get(emb(st["x"])) ? "true" : "false";
        } else if (a == "clear") {
            s.clear();
        } else if (a == "save") {
            Set copy{s};
            swap(saved, copy);
        } else if (a == "restore") {
            s = saved;
        } else {
            throw vh::Mismatch(k, "known action", a);
        }
        VH_EXPECT(k, st["ret"].get<std::string>(), ret, "return value of " + a);
        VH_EXPECT(k, st["size"].get<uint64_t>(), static_cast<uint64_t>(s.size()), "size() after " + a);
        VH_EXPECT(k, st["size"].get<uint64_t>() == 0, s.empty(), "empty() after " + a);
        std::vector<uint64_t> want;
        for (const auto& x : st["iter"]) want.push_back(static_cast<uint64_t>(emb(x.get<int64_t>())));
        std::vector<uint64_t> got;
        for (const auto id : s) {
            got.push_back(static_cast<uint64_t>(id));
            if (got.size() > want.size() + 4) break;
        }
        if (want != got) throw vh::Mismatch(k, json(want), json(got), "ascending iteration after " + a);
        ++k;
    }
}

// ---------------------------------------------------------------- IdSetSmall

static void run_small(const json& c) {
    osmium::index::IdSetSmall<uint64_t> s;
    osmium::index::IdSetSmall<uint64_t> other;
    auto val = [](int64_t x) -> uint64_t { return x < 5 ? static_cast<uint64_t>(x) : (x == 5 ? 4294967296ULL : 18446744073709551615ULL); };
    int k = 0;
    for (const auto& st : c["steps"]) {
        vh::step_marker(k);
        const std::string a = st["a"];
        std::string ret = "none";
        if (a == "set") s.set(val(st["x"]));
        else if (a == "set_other") other.set(val(st["x"]));
        else if (a == "get") ret = s.get(val(st["x"])) ? "true" : "false";
        else if (a == "get_binary_search") ret = s.get_binary_search(val(st["x"])) ? "true" : "false";
        else if (a == "sort_unique") s.sort_unique();
        else if (a == "merge_sorted") s.merge_sorted(other);
        else if (a == "clear") s.clear();
        else throw vh::Mismatch(k, "known action", a);
        VH_EXPECT(k, st["ret"].get<std::string>(), ret, "return value of " + a);
        VH_EXPECT(k, st["n"].get<std::size_t>(), s.size(), "size() after " + a);
        VH_EXPECT(k, st["n"].get<std::size_t>() == 0, s.empty(), "empty() after " + a);
        std::vector<uint64_t> want;
        for (const auto& x : st["list"]) want.push_back(val(x.get<int64_t>()));
        std::vector<uint64_t> got(s.begin(), s.end());
        if (want != got) throw vh::Mismatch(k, json(want), json(got), "content after " + a);
        ++k;
    }
}

// ---------------------------------------------------------------- RelationsMap

static void run_relmap(const json& c) {
    const int w = c["w"];
    auto val = [w](int64_t x) -> uint64_t {
        const uint64_t m = 1ULL << w;
        return (static_cast<uint64_t>(x) % m) + (static_cast<uint64_t>(x) / m) * 4294967296ULL;
    };
    osmium::index::RelationsMapStash stash;
    int k = 0;
    for (const auto& st : c["steps"]) {
        vh::step_marker(k);
        const std::string a = st["a"];
        if (a == "add") {
            stash.add(val(st["x"][0]), val(st["x"][1]));
        }
        ++k;
    }
    const std::string phase = c["phase"];
    auto collect = [](const osmium::index::RelationsMapIndex& idx, uint64_t id) {
        std::vector<uint64_t> out;
        idx.for_each(id, [&](osmium::unsigned_object_id_type v) { out.push_back(v); });
        return out;
    };
    auto expect_list = [&](const json& l) {
        std::vector<uint64_t> out;
        for (const auto& x : l) out.push_back(val(x.get<int64_t>()));
        return out;
    };
    const std::size_t n = c["size"];
    if (phase == "m2p" || phase == "p2m") {
        auto idx = phase == "m2p" ? stash.build_member_to_parent_index() : stash.build_parent_to_member_index();
        VH_EXPECT(k, n, idx.size(), "index size (pairs without duplicates)");
        VH_EXPECT(k, n == 0, idx.empty(), "index empty()");
        for (const auto& p : c["probes"]) {
            const auto got = collect(idx, val(p["id"]));
            const auto want = expect_list(phase == "m2p" ? p["parents"] : p["members"]);
            if (got != want) throw vh::Mismatch(k, json(want), json(got), "for_each(" + std::to_string(val(p["id"])) + ") on " + phase + " index");
        }
    } else {
        auto idx = stash.build_indexes();
        VH_EXPECT(k, n, idx.size(), "indexes size");
        VH_EXPECT(k, n == 0, idx.empty(), "indexes empty()");
        for (const auto& p : c["probes"]) {
            auto got = collect(idx.member_to_parent(), val(p["id"]));
            auto want = expect_list(p["parents"]);
            if (got != want) throw vh::Mismatch(k, json(want), json(got), "member_to_parent().for_each(" + std::to_string(val(p["id"])) + ")");
            got = collect(idx.parent_to_member(), val(p["id"]));
            want = expect_list(p["members"]);
            if (got != want) throw vh::Mismatch(k, json(want), json(got), "parent_to_member().for_each(" + std::to_string(val(p["id"])) + ")");
        }
    }
}

// ---------------------------------------------------------------- ItemStash

static const std::size_t UNIT = 65536;

static void make_item(osmium::memory::Buffer& scratch, int64_t h, std::size_t units) {
    scratch.clear();
    {
        osmium::builder::NodeBuilder nb{scratch};
        nb.set_id(h);
        osmium::builder::TagListBuilder tl{nb};
        const std::string full(1023, static_cast<char>('a' + h % 26));
        const std::string rest(995, static_cast<char>('A' + h % 26));
        const std::size_t total = units * UNIT - 56;
        const std::size_t nfull = (total - 1992) / 2048;
        for (std::size_t i = 0; i < nfull; ++i) tl.add_tag(full, full);
        tl.add_tag(rest, rest);
    }
    scratch.commit();
}

static void check_item(const osmium::memory::Item& item, int64_t h, std::size_t units, int k) {
    if (item.type() != osmium::item_type::node) throw vh::Mismatch(k, "node", osmium::item_type_to_name(item.type()), "handle " + std::to_string(h));
    const auto& n = static_cast<const osmium::Node&>(item);
    VH_EXPECT(k, h, n.id(), "id of item behind handle");
    VH_EXPECT(k, units * UNIT, static_cast<std::size_t>(n.padded_size()), "size of item behind handle " + std::to_string(h));
    VH_EXPECT(k, false, n.removed(), "live item must not be marked removed");
    std::size_t cnt = 0;
    const char f = static_cast<char>('a' + h % 26);
    const char r = static_cast<char>('A' + h % 26);
    const std::size_t ntags = n.tags().size();
    for (const auto& t : n.tags()) {
        const char want = (cnt + 1 == ntags) ? r : f;
        const std::size_t wl = (cnt + 1 == ntags) ? 995 : 1023;
        if (std::strlen(t.key()) != wl || std::strlen(t.value()) != wl || t.key()[0] != want || t.value()[wl - 1] != want || t.key()[wl / 2] != want) {
            throw vh::Mismatch(k, std::string(1, want), std::string(1, t.key()[0]), "tag bytes of item behind handle " + std::to_string(h));
        }
        ++cnt;
    }
}

static void run_stash(const json& c) {
    osmium::ItemStash stash;
    osmium::memory::Buffer scratch{8 * UNIT, osmium::memory::Buffer::auto_grow::yes};
    std::vector<osmium::ItemStash::handle_type> handles;   // index = spec handle - 1
    std::size_t mem_after_gc = 0;
    int k = 0;
    for (const auto& st : c["steps"]) {
        vh::step_marker(k);
        const std::string a = st["a"];
        if (a == "add_item") {
            make_item(scratch, static_cast<int64_t>(handles.size()) + 1, st["x"].get<std::size_t>());
            handles.push_back(stash.add_item(scratch.get<osmium::memory::Item>(0)));
            if (!handles.back().valid()) throw vh::Mismatch(k, "valid handle", "invalid");
        } else if (a == "remove_item") {
            stash.remove_item(handles.at(st["x"].get<std::size_t>() - 1));
        } else if (a == "garbage_collect") {
            stash.garbage_collect();
        } else if (a == "clear") {
            stash.clear();
            handles.clear();
        } else {
            throw vh::Mismatch(k, "known action", a);
        }
        VH_EXPECT(k, st["size"].get<std::size_t>(), stash.size(), "size() after " + a);
        VH_EXPECT(k, st["removed"].get<std::size_t>(), stash.count_removed(), "count_removed() after " + a + " (tells whether a collection ran)");
        int64_t h = 0;
        for (const auto& lv : st["live"]) {
            ++h;
            if (lv.get<std::size_t>() == 0) continue;      // removed
            const auto& item = stash.get_item(handles.at(static_cast<std::size_t>(h) - 1));
            check_item(item, h, lv.get<std::size_t>(), k);
            const auto& node = stash.get<osmium::Node>(handles.at(static_cast<std::size_t>(h) - 1));
            VH_EXPECT(k, h, node.id(), "get<Node>(handle)");
        }
        (void)mem_after_gc;
        ++k;
    }
}

int main() {
    return vh::run_cases([](const json& c) {
        const std::string kind = c["kind"];
        if (kind == "dense") {
            const std::string v = c["variant"];
            if (v == "u32low") run_dense<uint32_t, 4>(c, 3);
            else if (v == "u64low") run_dense<uint64_t, 4>(c, 3);
            else if (v == "u32top") run_dense<uint32_t, 22>(c, 127);       // last chunk of the 32 bit range
            else if (v == "u64big") run_dense<uint64_t, 22>(c, 200);       // ids beyond 2^32
            else if (v == "u32mid") run_dense<uint32_t, 8>(c, 5);
            else throw vh::Mismatch(-1, "known variant", v);
        } else if (kind == "small") {
            run_small(c);
        } else if (kind == "relmap") {
            run_relmap(c);
        } else if (kind == "stash") {
            run_stash(c);
        } else {
            throw vh::Mismatch(-1, "known kind", kind);
        }
    });
}
