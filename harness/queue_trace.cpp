// C19 trace recorder: runs real osmium::thread::Queue<int64_t> / osmium::thread::Pool scenarios under a
// seeded schedule perturbation and records the linearization events emitted by the OSMIUM_VERIF hooks
// (under the queue's mutex) plus call-level events of the harness threads.  The trace is validated by
// TLC against specs/ThreadQueueTrace.tla.
//
// usage: queue_trace <scenario.json> <out.ndjson>
//   scenario: {"mode":"queue"|"pool","kind":[...],"script":[[...],...],"max":N,"throwing":[ids],"seeds":[...],
//              "sched_prob":0..100, "sched_max_us":N}
#include "common/vh.hpp"

#include <osmium/thread/pool.hpp>
#include <osmium/thread/queue.hpp>

#include <atomic>
#include <chrono>
#include <cstdint>
#include <deque>
#include <functional>
#include <fstream>
#include <future>
#include <map>
#include <memory>
#include <mutex>
#include <random>
#include <stdexcept>
#include <thread>
#include <vector>

using vh::json;

namespace {

struct Ev { const char* e; int t; int64_t x; int64_t n; bool hasx; bool hasn; };

std::mutex g_trace_mutex;
std::vector<Ev> g_trace;
std::ofstream g_out;

thread_local int tl_tid = 0;
thread_local std::mt19937_64* tl_rng = nullptr;

const void* g_ticket_queue = nullptr;   // the Queue<int64_t> whose elements are tickets
std::atomic<int> g_next_worker{0};
std::vector<int> g_worker_ids;
int g_sched_prob = 30;
int g_sched_max_us = 200;
uint64_t g_seed = 1;

int tid() {
    if (tl_tid == 0) {
        // a thread created by the library (pool worker): take the next worker id of the scenario
        int k = g_next_worker.fetch_add(1);
        tl_tid = k < static_cast<int>(g_worker_ids.size()) ? g_worker_ids[k] : 900 + k;
    }
    return tl_tid;
}

std::atomic<bool> g_recording{true};

void record(const char* e, int64_t x, bool hasx, int64_t n, bool hasn) {
    if (!g_recording.load(std::memory_order_relaxed)) return;
    const int t = tid();
    const std::lock_guard<std::mutex> lock{g_trace_mutex};
    g_trace.push_back(Ev{e, t, x, n, hasx, hasn});
}

void event_sink(const void* object, const char* name, const void* ptr, std::int64_t value) {
    bool hasx = false;
    int64_t x = 0;
    if (ptr && object == g_ticket_queue) {
        x = *static_cast<const int64_t*>(ptr);
        hasx = true;
    }
    record(name, x, hasx, value, true);
}

void sched_sink(const char* /*point*/) {
    if (!tl_rng) {
        tl_rng = new std::mt19937_64(g_seed * 1000003ULL + static_cast<uint64_t>(tid()) * 7919ULL);
    }
    auto& r = *tl_rng;
    const int p = static_cast<int>(r() % 100);
    if (p < g_sched_prob) {
        const int us = static_cast<int>(r() % static_cast<uint64_t>(g_sched_max_us + 1));
        if (us < 5) {
            std::this_thread::yield();
        } else {
            std::this_thread::sleep_for(std::chrono::microseconds(us));
        }
    }
}

void flush_trace() {
    const std::lock_guard<std::mutex> lock{g_trace_mutex};
    for (const auto& ev : g_trace) {
        json j;
        j["e"] = ev.e;
        j["t"] = ev.t;
        if (ev.hasx) j["x"] = ev.x;
        if (ev.hasn) j["n"] = ev.n;
        g_out << j.dump() << "\n";
    }
    g_trace.clear();
    g_out.flush();
}

std::atomic<bool> g_exec_running{false};
std::atomic<uint64_t> g_exec_no{0};

void watchdog(int seconds) {
    uint64_t last = ~0ULL;
    int same = 0;
    for (;;) {
        std::this_thread::sleep_for(std::chrono::milliseconds(500));
        const uint64_t now = g_exec_no.load();
        if (g_exec_running.load() && now == last) {
            if (++same >= seconds * 2) {
                flush_trace();
                g_out << json{{"e", "Hang"}, {"t", 0}}.dump() << "\n";
                g_out.flush();
                ::_exit(3);
            }
        } else {
            same = 0;
            last = now;
        }
    }
}

struct ThrowingTask : std::runtime_error { ThrowingTask() : std::runtime_error("task throws") {} };

void run_queue(const json& sc) {
    const auto kinds = sc["kind"].get<std::vector<std::string>>();
    const auto scripts = sc["script"].get<std::vector<std::vector<int64_t>>>();
    osmium::thread::Queue<int64_t> queue{sc["max"].get<std::size_t>(), "q"};
    g_ticket_queue = &queue;
    std::vector<std::thread> threads;
    std::atomic<int> go{0};
    // "storm" scenarios: the shutdown thread waits until every consumer is about to call wait_and_pop() and then shuts
    // the queue down after a spin delay that sweeps (with the execution number) across the few hundred nanoseconds in
    // which a consumer is between its predicate check and its sleep
    const bool storm = sc.value("storm", false);
    std::atomic<int> about_to_wait{0};
    int nconsumers = 0;
    for (const auto& k : kinds) if (k == "consumer") ++nconsumers;
    for (std::size_t i = 0; i < kinds.size(); ++i) {
        const int id = static_cast<int>(i) + 1;
        threads.emplace_back([&, id, i] {
            tl_tid = id;
            tl_rng = nullptr;
            while (!go.load()) std::this_thread::yield();
            const std::string& k = kinds[i];
            if (k == "producer") {
                for (auto x : scripts[i]) {
                    sched_sink("harness.before_push");
                    record("PushCall", x, true, 0, false);
                    queue.push(x);
                }
            } else if (k == "consumer") {
                int64_t quota = scripts[i].at(0);
                while (quota != 0) {
                    if (!storm) sched_sink("harness.before_pop");
                    int64_t v = INT64_MIN;
                    ++about_to_wait;
                    queue.wait_and_pop(v);
                    if (v == INT64_MIN) break;     // returned without a value: shut down
                    if (quota > 0) --quota;
                }
            } else if (k == "trypopper") {
                for (int64_t n = scripts[i].at(0); n > 0; --n) {
                    sched_sink("harness.before_trypop");
                    int64_t v = INT64_MIN;
                    (void)queue.try_pop(v);
                }
            } else if (k == "shutdown") {
                for (std::size_t n = 0; n < scripts[i].size(); ++n) {
                    // shut down at a seeded moment
                    std::mt19937_64 r(g_seed * 31 + id);
                    static const uint64_t span[] = {20, 200, 1000, 5000};
                    if (storm) {
                        while (about_to_wait.load() < nconsumers) { /* spin */ }
                        const uint64_t spins = (g_exec_no.load() * 37) % 600;
                        for (volatile uint64_t w = 0; w < spins; ++w) { }
                    } else {
                        std::this_thread::sleep_for(std::chrono::microseconds(r() % span[(g_seed >> 3) % 4]));
                    }
                    record("ShutdownCall", 0, false, 0, false);
                    queue.shutdown();
                }
            }
            record("ThreadDone", 0, false, 0, false);
            delete tl_rng;
            tl_rng = nullptr;
        });
    }
    go = 1;
    for (auto& t : threads) t.join();
    g_ticket_queue = nullptr;
}

void run_pool(const json& sc) {
    const auto kinds = sc["kind"].get<std::vector<std::string>>();
    const auto scripts = sc["script"].get<std::vector<std::vector<int64_t>>>();
    std::vector<int64_t> throwing = sc.value("throwing", std::vector<int64_t>{});
    g_worker_ids.clear();
    int destroyer = 0;
    int nworkers = 0;
    for (std::size_t i = 0; i < kinds.size(); ++i) {
        if (kinds[i] == "worker") { g_worker_ids.push_back(static_cast<int>(i) + 1); ++nworkers; }
        if (kinds[i] == "destroyer") destroyer = static_cast<int>(i) + 1;
    }
    g_next_worker = 0;
    tl_tid = destroyer;
    const bool lvalue = sc.value("lvalue", false);
    std::mutex fm;
    std::map<int64_t, std::future<int64_t>> futures;
    // "lvalue" scenarios (one submitter, one worker): every task is the SAME named std::function object,
    // submitted again and again (it takes its ticket from a FIFO of pending tickets); submit() must copy it
    std::mutex pm;
    std::deque<std::pair<int64_t, bool>> pending;
    std::function<int64_t()> named_task = [&pm, &pending]() -> int64_t {
        std::pair<int64_t, bool> job;
        {
            const std::lock_guard<std::mutex> lock{pm};
            job = pending.front();
            pending.pop_front();
        }
        record("Run", job.first, true, 0, false);
        sched_sink("harness.in_task");
        if (job.second) throw ThrowingTask{};
        return job.first * 2;
    };
    {
        osmium::thread::Pool pool{nworkers, sc["max"].get<std::size_t>()};
        std::vector<std::thread> threads;
        std::atomic<int> go{0};
        for (std::size_t i = 0; i < kinds.size(); ++i) {
            if (kinds[i] != "submitter") continue;
            const int id = static_cast<int>(i) + 1;
            threads.emplace_back([&, id, i] {
                tl_tid = id;
                tl_rng = nullptr;
                while (!go.load()) std::this_thread::yield();
                for (auto x : scripts[i]) {
                    sched_sink("harness.before_submit");
                    const bool th = std::find(throwing.begin(), throwing.end(), x) != throwing.end();
                    record("PushCall", x, true, 0, false);
                    if (lvalue) {
                        {
                            const std::lock_guard<std::mutex> lock{pm};
                            pending.emplace_back(x, th);
                        }
                        auto f = pool.submit(named_task);
                        const std::lock_guard<std::mutex> lock{fm};
                        futures.emplace(x, std::move(f));
                        continue;
                    }
                    auto f = pool.submit([x, th]() -> int64_t {
                        record("Run", x, true, 0, false);
                        sched_sink("harness.in_task");
                        if (th) throw ThrowingTask{};
                        return x * 2;
                    });
                    const std::lock_guard<std::mutex> lock{fm};
                    futures.emplace(x, std::move(f));
                }
                record("ThreadDone", 0, false, 0, false);
                delete tl_rng;
                tl_rng = nullptr;
            });
        }
        go = 1;
        for (auto& t : threads) t.join();
        record("DestroyCall", 0, false, 0, false);
    }   // ~Pool: one stop marker per worker, join
    record("Joined", 0, false, 0, false);
    // the result or the exception arrives in the future returned by submit()
    for (auto& kv : futures) {
        int64_t kind;  // 1 = value, 2 = exception, 0 = not ready / broken
        if (kv.second.wait_for(std::chrono::seconds(0)) != std::future_status::ready) {
            kind = 0;
        } else {
            try {
                const int64_t v = kv.second.get();
                kind = (v == kv.first * 2) ? 1 : 3;
            } catch (const ThrowingTask&) {
                kind = 2;
            } catch (...) {
                kind = 4;
            }
        }
        record("Future", kv.first, true, kind, true);
    }
    tl_tid = destroyer;
}

} // namespace

int main(int argc, char** argv) {
    if (argc < 3) return 2;
    std::ifstream in{argv[1]};
    json sc = json::parse(in);
    g_out.open(argv[2]);
    g_sched_prob = sc.value("sched_prob", 30);
    g_sched_max_us = sc.value("sched_max_us", 200);
    osmium::verif::event_sink().store(&event_sink);
    osmium::verif::sched_sink().store(&sched_sink);
    std::thread{watchdog, sc.value("watchdog_s", 60)}.detach();
    std::set_terminate([] {
        flush_trace();
        g_out << json{{"e", "Terminate"}, {"t", 0}}.dump() << "\n";
        g_out.flush();
        ::_exit(4);
    });

    json header = {{"e", "Header"}, {"t", 0}, {"kind", sc["kind"]}, {"script", sc["script"]}, {"max", sc["max"]},
                   {"throwing", sc.value("throwing", json::array())}, {"mode", sc["mode"]}};
    g_out << header.dump() << "\n";
    const std::string mode = sc["mode"];
    bool first = true;
    // executions beyond "trace_first" run without a trace (their termination is still watched by the watchdog): the trace
    // of a storm of tens of thousands of tiny executions is validated on a prefix
    const long trace_first = sc.value("trace_first", -1L);
    long nexec = 0;
    for (const auto& s : sc["seeds"]) {
        g_seed = s.get<uint64_t>();
        if (trace_first >= 0 && nexec >= trace_first) g_recording = false;
        ++nexec;
        if (!first && g_recording.load()) {
            g_out << json{{"e", "Reset"}, {"t", 0}, {"seed", g_seed}}.dump() << "\n";
        }
        first = false;
        tl_tid = 999;
        ++g_exec_no;
        g_exec_running = true;
        if (mode == "queue") run_queue(sc); else run_pool(sc);
        g_exec_running = false;
        tl_tid = 999;
        record("AllJoined", 0, false, 0, false);
        flush_trace();
    }
    g_out.flush();
    return 0;
}
