// C09 replay harness: drives the real gzip/bzip2 decompressors (file descriptor and memory buffer
// flavours, created through CompressionFactory exactly like the Reader does) and ReadThreadManager over
// files whose layout, fault and expected outcome were exported by TLC from specs/Decompress.tla.
//
// A case (one NDJSON line):
//   {"id":..,"kind":"bz2fd|gzfd|bz2buf|gzbuf","lib":"<dir>","streams":["<sid>",..],
//    "fault":{"k":"none|trunc|corrupt","at":<byte>,"xor":<mask>},
//    "exp":{"verdict":"ok|error","nstreams":n}}
//   round trip: {"id":..,"kind":..,"rt":true,"chunks":[sizes..],"seed":s,"exp":{"verdict":"ok"}}
// <dir>/<sid>.c = one compressed stream, <dir>/<sid>.p = its payload (written by checks/C09.py; the payload is
// what Python's reference decompressor yields for the stream).
//
// Steps: phase 1 calls Decompressor::read() directly until it returns an empty string, then close();
// phase 2 (steps 1000+) runs the same file through ReadThreadManager and takes the strings from the queue.
// After every read: offset <= file size, and (fault none/trunc) what was delivered so far is a prefix of the
// reference output.  At the end: verdict (ok / error = an osmium::io_error was thrown by read() or close())
// and, for ok, output == reference output of the first exp.nstreams streams.
#include "common/vh.hpp"

#include <osmium/io/bzip2_compression.hpp>
#include <osmium/io/compression.hpp>
#include <osmium/io/detail/queue_util.hpp>
#include <osmium/io/detail/read_thread.hpp>
#include <osmium/io/error.hpp>
#include <osmium/io/gzip_compression.hpp>

#include <atomic>
#include <csignal>
#include <cstdint>
#include <fcntl.h>
#include <fstream>
#include <map>
#include <memory>
#include <sstream>
#include <string>
#include <sys/stat.h>
#include <unistd.h>

using vh::json;
namespace oio = osmium::io;

static std::string slurp(const std::string& fn) {
    std::ifstream f(fn, std::ios::binary);
    if (!f) {
        throw std::runtime_error("cannot open " + fn);
    }
    std::stringstream s;
    s << f.rdbuf();
    return s.str();
}

static const std::string& blob(const std::string& dir, const std::string& name) {
    static std::map<std::string, std::string> cache;
    const std::string key = dir + "/" + name;
    auto it = cache.find(key);
    if (it == cache.end()) {
        it = cache.emplace(key, slurp(key)).first;
    }
    return it->second;
}

static int make_fd(const std::string& dir, const std::string& content) {
    std::string fn = dir + "/tmpXXXXXX";
    const int fd = ::mkstemp(&fn[0]);
    if (fd < 0) {
        throw std::runtime_error("mkstemp failed in " + dir);
    }
    ::unlink(fn.c_str());
    std::size_t done = 0;
    while (done < content.size()) {
        const auto n = ::write(fd, content.data() + done, content.size() - done);
        if (n <= 0) {
            throw std::runtime_error("write to temp file failed");
        }
        done += static_cast<std::size_t>(n);
    }
    ::lseek(fd, 0, SEEK_SET);
    return fd;
}

struct Outcome {
    std::string verdict;  // ok | error
    std::string data;
    std::string what;
    int reads = 0;
    bool zlib_accepts = false;
};

struct Source {
    oio::file_compression comp;
    bool fd;
    const std::string& dir;
    const std::string& content;

    std::unique_ptr<oio::Decompressor> open() const {
        const auto& factory = oio::CompressionFactory::instance();
        if (fd) {
            return factory.create_decompressor(comp, make_fd(dir, content));
        }
        return factory.create_decompressor(comp, content.data(), content.size());
    }
};

// phase 1: the loop of ReadThreadManager::run_in_thread done by hand, with a check after every read()
static Outcome run_direct(const Source& src, const std::string& reference, bool check_prefix, int step0) {
    Outcome o;
    std::atomic<std::size_t> offset{0};
    try {
        auto d = src.open();
        d->set_offset_ptr(&offset);
        for (int k = 0; k < 10000000; ++k) {
            vh::step_marker(step0 + k);
            std::string piece = d->read();
            ++o.reads;
            const std::size_t off = offset;
            if (off > src.content.size()) {
                throw vh::Mismatch(step0 + k, json{{"offset_le", src.content.size()}}, json{{"offset", off}},
                                   "read offset exceeds the size of the file");
            }
            if (piece.empty()) {
                break;
            }
            if (check_prefix && (o.data.size() + piece.size() > reference.size() ||
                                 reference.compare(o.data.size(), piece.size(), piece) != 0)) {
                throw vh::Mismatch(step0 + k, json{{"prefix_of_reference", true}, {"reference_len", reference.size()}},
                                   json{{"delivered_before", o.data.size()}, {"piece_len", piece.size()}},
                                   "delivered bytes are not the beginning of the reference output");
            }
            o.data += piece;
        }
        d->close();
        o.verdict = "ok";
    } catch (const osmium::io_error& e) {
        o.verdict = "error";
        o.what = e.what();
    } catch (const std::system_error& e) {
        o.verdict = "error";
        o.what = e.what();
    }
    return o;
}

// phase 2: the real ReadThreadManager; the consumer side does what the parsers' input queue wrapper does
static Outcome run_thread(const Source& src) {
    Outcome o;
    std::atomic<std::size_t> offset{0};
    try {
        auto d = src.open();
        d->set_offset_ptr(&offset);
        oio::detail::future_string_queue_type queue{4, "raw_input"};
        oio::detail::ReadThreadManager manager{*d, queue};
        oio::detail::queue_wrapper<std::string> wrapper{queue};
        try {
            for (;;) {
                std::string piece = wrapper.pop();
                ++o.reads;
                if (piece.empty()) {
                    break;
                }
                o.data += piece;
            }
            manager.close();
            o.verdict = "ok";
        } catch (...) {
            wrapper.shutdown();   // let the thread run into the closed queue
            try {
                manager.close();
            } catch (...) {
            }
            // drain so that nothing is left blocked
            throw;
        }
        if (static_cast<std::size_t>(offset) > src.content.size()) {
            o.verdict = "offset";
        }
    } catch (const osmium::io_error& e) {
        o.verdict = "error";
        o.what = e.what();
    } catch (const std::system_error& e) {
        o.verdict = "error";
        o.what = e.what();
    }
    return o;
}

// Environment probe: does zlib's own gzread()/gzclose_r(), called with the same request size and nothing else,
// accept this file?  Used to tell a deviation of the environment (zlib does not report the premature EOF, open
// finding F3d) from libosmium losing an error that zlib did report.
static bool zlib_gzread_accepts(const Source& src) {
    const int fd = make_fd(src.dir, src.content);
    gzFile gz = ::gzdopen(fd, "rb");
    if (!gz) {
        ::close(fd);
        return false;
    }
    std::string buf(oio::Decompressor::input_buffer_size, '\0');
    bool ok = true;
    for (;;) {
        const int n = ::gzread(gz, &buf[0], static_cast<unsigned int>(buf.size()));
        if (n < 0) {
            ok = false;
        }
        if (n <= 0) {
            break;
        }
    }
    if (::gzclose_r(gz) != Z_OK) {
        ok = false;
    }
    return ok;
}

static void compare(int step, const json& exp, const std::string& reference, const Outcome& got, const char* phase) {
    const std::string ev = exp.at("verdict").get<std::string>();
    const bool same = ev == got.verdict && (ev != "ok" || got.data == reference);
    if (!same) {
        json e{{"verdict", ev}};
        json g{{"verdict", got.verdict}, {"len", got.data.size()}, {"reads", got.reads}};
        if (ev == "ok") {
            e["len"] = reference.size();
        }
        if (!got.what.empty()) {
            g["what"] = got.what;
        }
        if (got.zlib_accepts) {
            g["zlib_gzread_accepts"] = true;
        }
        if (ev == "ok" && got.verdict == "ok") {
            std::size_t i = 0;
            while (i < got.data.size() && i < reference.size() && got.data[i] == reference[i]) {
                ++i;
            }
            g["first_difference_at"] = i;
        }
        throw vh::Mismatch(step, e, g, phase);
    }
}

static std::string prng_bytes(std::uint64_t seed, std::size_t n) {
    std::string s(n, '\0');
    std::uint64_t x = seed * 0x9E3779B97F4A7C15ULL + 0x1234567ULL;
    for (std::size_t i = 0; i < n; ++i) {
        x ^= x << 13U;
        x ^= x >> 7U;
        x ^= x << 17U;
        // half of the bytes compressible
        s[i] = static_cast<char>((i / 97) % 2 == 0 ? (x & 0xffU) : ('a' + (i % 7)));
    }
    return s;
}

static void run_roundtrip(const json& c, oio::file_compression comp, const std::string& dir) {
    // the library's own compressor writes the chunks, all decompressors of that format read them back
    std::string payload;
    std::string fn = dir + "/rtXXXXXX";
    const int wfd = ::mkstemp(&fn[0]);
    if (wfd < 0) {
        throw std::runtime_error("mkstemp failed");
    }
    const std::uint64_t seed = c.at("seed").get<std::uint64_t>();
    std::string file;
    try {
        vh::step_marker(0);
        auto comp_obj = oio::CompressionFactory::instance().create_compressor(comp, wfd, oio::fsync::no);
        int k = 0;
        for (const auto& sz : c.at("chunks")) {
            std::string chunk = prng_bytes(seed + static_cast<std::uint64_t>(k) * 7919U, sz.get<std::size_t>());
            comp_obj->write(chunk);
            payload += chunk;
            ++k;
        }
        comp_obj->close();
        file = slurp(fn);
        const std::size_t fsz = comp_obj->file_size();
        if (fsz != 0 && fsz != file.size()) {
            ::unlink(fn.c_str());
            throw vh::Mismatch(0, json{{"file_size", file.size()}}, json{{"file_size", fsz}}, "Compressor::file_size()");
        }
    } catch (const osmium::io_error& e) {
        ::unlink(fn.c_str());
        throw vh::Mismatch(0, json{{"verdict", "ok"}}, json{{"verdict", "error"}, {"what", e.what()}}, "compressor");
    }
    ::unlink(fn.c_str());
    const json exp = c.at("exp");
    const Source fds{comp, true, dir, file};
    const Source bufs{comp, false, dir, file};
    compare(1, exp, payload, run_direct(fds, payload, true, 1), "round trip, fd decompressor");
    compare(1000, exp, payload, run_thread(fds), "round trip, fd decompressor, ReadThreadManager");
    compare(2000, exp, payload, run_direct(bufs, payload, true, 2000), "round trip, buffer decompressor");
}

// A decompressor that never reaches the end of its input (e.g. a read() loop that makes no progress) must not block
// the check: every case runs under a watchdog of VH_WATCHDOG seconds (default 20; a normal case takes milliseconds).
static void on_alarm(int) {
    static const char msg[] = "HANG: watchdog expired, the decompressor did not finish\n";
    (void)!::write(2, msg, sizeof(msg) - 1);
    ::_exit(96);
}

struct Watchdog {
    Watchdog() {
        static const unsigned int secs = [] {
            const char* e = std::getenv("VH_WATCHDOG");
            const int v = e ? std::atoi(e) : 0;
            return static_cast<unsigned int>(v > 0 ? v : 20);
        }();
        ::signal(SIGALRM, on_alarm);
        ::alarm(secs);
    }
    ~Watchdog() {
        ::alarm(0);
    }
};

static void run_case(const json& c) {
    const Watchdog watchdog;
    const std::string kind = c.at("kind").get<std::string>();
    const std::string dir = c.at("lib").get<std::string>();
    const oio::file_compression comp = kind.compare(0, 2, "gz") == 0 ? oio::file_compression::gzip : oio::file_compression::bzip2;
    const bool fd = kind.size() > 2 && kind.compare(kind.size() - 2, 2, "fd") == 0;

    if (c.value("rt", false)) {
        run_roundtrip(c, comp, dir);
        return;
    }

    std::string content;
    std::string reference;
    const int nstreams = c.at("exp").at("nstreams").get<int>();
    int i = 0;
    for (const auto& sid : c.at("streams")) {
        content += blob(dir, sid.get<std::string>() + ".c");
        if (i < nstreams) {
            reference += blob(dir, sid.get<std::string>() + ".p");
        }
        ++i;
    }
    const json& fault = c.at("fault");
    const std::string fk = fault.at("k").get<std::string>();
    if (fk == "trunc") {
        content.resize(fault.at("at").get<std::size_t>());
    } else if (fk == "corrupt") {
        content.at(fault.at("at").get<std::size_t>()) ^= static_cast<char>(fault.at("xor").get<int>());
    }
    const bool check_prefix = fk != "corrupt" && !c.value("lenient", false);

    const Source src{comp, fd, dir, content};
    const json exp = c.at("exp");
    const bool probe = kind == "gzfd" && fk == "trunc" && exp.at("verdict") == "error";
    Outcome o1 = run_direct(src, reference, check_prefix, 0);
    if (probe && o1.verdict == "ok") {
        o1.zlib_accepts = zlib_gzread_accepts(src);
    }
    compare(900, exp, reference, o1, "Decompressor::read() loop");
    Outcome o2 = run_thread(src);
    if (probe && o2.verdict == "ok") {
        o2.zlib_accepts = zlib_gzread_accepts(src);
    }
    compare(1900, exp, reference, o2, "ReadThreadManager");
}

int main() {
    // make sure the registration of the compression formats is not optimized away
    (void)oio::detail::get_registered_gzip_compression();
    (void)oio::detail::get_registered_bzip2_compression();
    return vh::run_cases(run_case);
}
