// C05 / C07 conformance driver for specs/ReaderPipeline.tla.
//
// Runs the real osmium::io::Reader (with the real ReadThreadManager, Parser base class, queues and Pool)
// on configurations exported by TLC.  Per case the consumer script of the configuration is executed,
// the result of every API call is compared with the spec's expected log, and (mock / realpbf modes) the
// execution is recorded as an NDJSON trace for validation against ReaderPipelineTrace.tla.
//
// modes
//   mock     format opl + "gzip" compression bound to a mock decompressor; mock parser (existing factory seams).
//            chunk m <-> block m, nested buffers, faults: j-th read throws, decompressor close throws, parser
//            throws before/after the header while parsing chunk m, pool task of block m throws.
//   mockfd   format pbf: DummyDecompressor, the (mock) parser reads blobs from the descriptor itself.
//   realpbf  a real .osm.pbf written by the library; the real PBFParser reads the descriptor itself; reads are
//            observed by interposing read(2); faults: file truncated inside blob m, blob m corrupted.
//   real     real xml / opl / pbf(.none) files and parsers: only the API level log is compared (objects form a
//            prefix of / equal the selected objects of the file, in file order).
//
// stdin: NDJSON cases, stdout: NDJSON results (see common/vh.hpp).
#include "common/vh.hpp"

#include <osmium/builder/osm_object_builder.hpp>
#include <osmium/io/detail/input_format.hpp>
#include <osmium/io/opl_input.hpp>
#include <osmium/io/opl_output.hpp>
#include <osmium/io/pbf_input.hpp>
#include <osmium/io/pbf_output.hpp>
#include <osmium/io/reader.hpp>
#include <osmium/io/writer.hpp>
#include <osmium/io/xml_input.hpp>
#include <osmium/io/xml_output.hpp>
#include <osmium/io/o5m_input.hpp>
#include <osmium/thread/pool.hpp>
#include <osmium/verif_hooks.hpp>

#include <atomic>
#include <chrono>
#include <cstdint>
#include <cstring>
#include <dirent.h>
#include <fcntl.h>
#include <fstream>
#include <future>
#include <mutex>
#include <random>
#include <stdexcept>
#include <sys/stat.h>
#include <sys/syscall.h>
#include <thread>
#include <vector>

using vh::json;
namespace oio = osmium::io;
namespace oid = osmium::io::detail;

namespace {

struct Injected : public std::runtime_error {
    explicit Injected(const std::string& w) : std::runtime_error("injected: " + w) {}
};

// ---------------------------------------------------------------- trace
std::mutex g_trace_mutex;
std::vector<json> g_trace;
std::atomic<bool> g_tracing{false};

const void* g_inq = nullptr;
const void* g_outq = nullptr;

void rec(json ev) {
    if (!g_tracing.load(std::memory_order_relaxed)) return;
    const std::lock_guard<std::mutex> lock{g_trace_mutex};
    g_trace.push_back(std::move(ev));
}

void event_sink(const void* object, const char* name, const void* /*ptr*/, std::int64_t value) {
    // the queue's name is resolved when the trace is written: the read thread pushes before the parser thread
    // (which tells us the addresses) has been created
    if (!std::strcmp(name, "Size")) return;           // polls of push() are not modelled
    rec(json{{"e", name}, {"qp", reinterpret_cast<std::uintptr_t>(object)}, {"n", value}});
}

// ---------------------------------------------------------------- schedule perturbation
int g_start_delay_us = 0;
int g_sched_prob = 30;
int g_sched_max_us = 200;
std::atomic<uint64_t> g_seed{1};
std::atomic<uint64_t> g_thread_counter{0};

void perturb() {
    thread_local uint64_t my_seed = 0;
    thread_local std::mt19937_64 rng;
    const uint64_t s = g_seed.load();
    if (my_seed != s) {
        my_seed = s;
        rng.seed(s * 1000003ULL + g_thread_counter.fetch_add(1) * 7919ULL);
    }
    const int p = static_cast<int>(rng() % 100);
    if (p < g_sched_prob) {
        const int us = static_cast<int>(rng() % static_cast<uint64_t>(g_sched_max_us + 1));
        if (us < 5) std::this_thread::yield();
        else std::this_thread::sleep_for(std::chrono::microseconds(us));
    }
}
void sched_sink(const char* /*point*/) { perturb(); }

// ---------------------------------------------------------------- read(2) interposition (realpbf mode)
std::atomic<int> g_watch_fd{-1};
std::atomic<bool> g_watch_pbf{false};
std::vector<int64_t> g_blob_starts;      // file offsets at which blob frames start (realpbf)
std::atomic<int64_t> g_watch_pos{0};

}  // namespace

extern "C" ssize_t read(int fd, void* buf, size_t count) {
    if (fd >= 0 && fd == g_watch_fd.load(std::memory_order_relaxed)) {
        const int64_t pos = g_watch_pos.load();
        for (std::size_t i = 0; i < g_blob_starts.size(); ++i) {
            if (g_blob_starts[i] == pos) {
                rec(json{{"e", "P.FdRead"}, {"m", static_cast<int>(i) + 1}});
                perturb();
                break;
            }
        }
        const ssize_t r = syscall(SYS_read, fd, buf, count);
        if (r > 0) g_watch_pos.fetch_add(r);
        return r;
    }
    return syscall(SYS_read, fd, buf, count);
}

namespace {

// ---------------------------------------------------------------- the configuration of the current case
struct Cfg {
    int n = 0;
    std::vector<int> nest;
    std::string fk = "none"; int fat = 0; bool fpre = false;
    bool pool = false, fd = false, fdstop = true, hdrblk = false;
    std::vector<int> skip;
    std::vector<std::string> script;
} g_cfg;

bool skipped(int m) { for (int s : g_cfg.skip) if (s == m) return true; return false; }

void add_node(osmium::memory::Buffer& b, int64_t id) {
    {
        osmium::builder::NodeBuilder nb{b};
        nb.set_id(id).set_version(1).set_location(osmium::Location{1.0, 2.0});
        nb.set_user("a-user-name-long-enough-to-make-every-node-larger-than-half-of-the-buffer-0123456789");
    }
    b.commit();
}

// block m of the model as a real buffer: nest[m] nested buffers with one node (id m*100+s) each
osmium::memory::Buffer make_block(int m) {
    const int k = skipped(m) ? 0 : g_cfg.nest.at(static_cast<std::size_t>(m - 1));
    static const std::size_t node_size = [] {
        osmium::memory::Buffer probe{4096, osmium::memory::Buffer::auto_grow::no};
        add_node(probe, 1);
        return probe.committed();
    }();
    // room for exactly one node: every further node freezes the committed one into the nested chain
    osmium::memory::Buffer b{node_size + 8, osmium::memory::Buffer::auto_grow::internal};
    for (int s = 1; s <= k; ++s) add_node(b, m * 100 + s);
    int nested = 0;
    // count the chain without consuming it
    if (k > 0) {
        // has_nested_buffers() only tells whether there is at least one; the exact number is checked by the
        // consumer side (one read() per nested buffer), a wrong layout shows up as a mismatch of buffer names
        nested = b.has_nested_buffers() ? 1 : 0;
        if ((k > 1) != (nested == 1)) throw std::logic_error{"harness: nested buffer layout not as intended"};
    }
    return b;
}

std::atomic<long> g_tasks_submitted{0};
std::atomic<long> g_tasks_started{0};

struct BlockTask {
    int m;
    bool fail;
    osmium::memory::Buffer operator()() {
        rec(json{{"e", "W.Run"}, {"m", m}});
        ++g_tasks_started;
        perturb();
        if (fail) throw Injected{"worker task of block " + std::to_string(m)};
        return make_block(m);
    }
};

// realpbfq mode: the pieces the mock decompressor hands out
bool g_q_mode = false;
std::vector<std::string> g_q_chunks;

// ---------------------------------------------------------------- mock decompressor (mock mode)
class MockDecompressor : public oio::Decompressor {
    int m_fd;
    int m_j = 0;
public:
    explicit MockDecompressor(int fd) : m_fd(fd) {}
    ~MockDecompressor() noexcept override { if (m_fd >= 0) ::close(m_fd); }
    std::string read() override {
        const int j = ++m_j;
        rec(json{{"e", "RT.Read"}, {"j", j}});
        perturb();
        if (g_cfg.fk == "read" && g_cfg.fat == j) throw Injected{"read " + std::to_string(j)};
        if (g_q_mode) {                                   // realpbfq: piece j is blob frame j of a real PBF file
            if (j <= static_cast<int>(g_q_chunks.size())) return g_q_chunks[static_cast<std::size_t>(j - 1)];
            return std::string{};
        }
        if (j <= g_cfg.n) return "C" + std::to_string(j);
        return std::string{};
    }
    void close() override {
        rec(json{{"e", "RT.DClose"}});
        perturb();
        if (m_fd >= 0) { ::close(m_fd); m_fd = -1; }
        if (g_cfg.fk == "dclose") throw Injected{"decompressor close"};
    }
};

// ---------------------------------------------------------------- mock parser (mock and mockfd modes)
class MockParser : public oid::Parser {
    int m_fd;
    void parse_chunk(int m) {
        rec(json{{"e", "P.Parse"}, {"m", m}});       // logged before the header is set (see ReaderPipelineTrace.tla)
        perturb();
        if (g_cfg.fk == "parse" && g_cfg.fat == m && g_cfg.fpre) throw Injected{"parse (before header) " + std::to_string(m)};
        set_header_value(oio::Header{});
        if (g_cfg.fk == "parse" && g_cfg.fat == m) throw Injected{"parse " + std::to_string(m)};
        if (g_cfg.pool) {
            ++g_tasks_submitted;
            send_to_output_queue(get_pool().submit(BlockTask{m, g_cfg.fk == "work" && g_cfg.fat == m}));
        } else {
            send_to_output_queue(make_block(m));
        }
    }
public:
    explicit MockParser(oid::parser_arguments& args) : Parser(args), m_fd(args.fd) {}
    ~MockParser() noexcept override { if (m_fd >= 0) ::close(m_fd); }
    void run() override {
        if (g_cfg.fd) {
            int n = 0;
            for (;;) {
                const int m = n + 1;
                rec(json{{"e", "P.FdRead"}, {"m", m}});
                perturb();
                if (g_cfg.fk == "read" && g_cfg.fat == m) throw Injected{"fd read " + std::to_string(m)};
                if (m > g_cfg.n) {
                    if (g_cfg.fk == "end") throw Injected{"input ends too early"};
                    break;
                }
                n = m;
                parse_chunk(m);
                if (g_cfg.fdstop && !output_queue_in_use()) break;
            }
            rec(json{{"e", "P.End"}});
            const int fd = m_fd; m_fd = -1;
            if (fd >= 0) ::close(fd);
        } else {
            while (!input_done()) {
                const std::string d = get_input();
                if (d.empty()) continue;
                parse_chunk(std::atoi(d.c_str() + 1));
            }
            if (g_cfg.fk == "end") throw Injected{"input ends too early"};
            rec(json{{"e", "P.End"}});
        }
        perturb();
        set_header_value(oio::Header{});
    }
};

// ---------------------------------------------------------------- leak observation
int count_dir(const char* p) {
    int n = 0;
    DIR* d = opendir(p);
    if (!d) return -1;
    while (readdir(d)) ++n;
    closedir(d);
    return n;
}
int count_fds() { return count_dir("/proc/self/fd"); }
int count_threads() { return count_dir("/proc/self/task"); }

// ---------------------------------------------------------------- real files
std::string g_tmpdir;

// the model's file: block m holds nest[m] "sub-buffers"; sub-buffer (m,s) is expanded to R objects of the
// block's type with ids (m*100+s)*1000 + r.  Type of block m: m % 3 -> node, way, relation (so PBF puts every
// block in its own blob), skip = blocks whose type is not in the entity mask.
int type_of_block(int m) { return m % 3; }   // 1 node, 2 way, 0 relation

// history files (.osh.*): every object with r % 3 == 1 is a deleted version (visible flag false); the Reader must
// deliver the flag whatever read_meta says (the PBF parser finds it in the metadata block)
bool g_history = false;
bool is_deleted(int64_t id) { return g_history && (id % 100000) % 3 == 1; }

void write_model_file(const std::string& path, const std::string& fmt, int R) {
    oio::File file{path, fmt};
    oio::Header header;
    header.set("generator", "verif");
    oio::Writer w{file, header, oio::overwrite::allow};
    for (int m = (g_cfg.hdrblk ? 2 : 1); m <= g_cfg.n; ++m) {
        osmium::memory::Buffer b{1024UL * 1024UL, osmium::memory::Buffer::auto_grow::yes};
        for (int s = 1; s <= g_cfg.nest.at(static_cast<std::size_t>(m - 1)); ++s) {
            for (int r = 0; r < R; ++r) {
                const int64_t id = static_cast<int64_t>(m * 100 + s) * 100000 + r;
                const int t = type_of_block(m);
                if (t == 1) {
                    osmium::builder::NodeBuilder nb{b};
                    nb.set_id(id).set_version(2).set_changeset(7).set_uid(9).set_timestamp(osmium::Timestamp{static_cast<uint32_t>(1500000000 + r)})
                      .set_location(osmium::Location{1.0 + r * 1e-5, 2.0});
                    nb.set_user("user"); nb.set_visible(!is_deleted(id));
                    nb.add_tags({{"k", "v"}, {"name", "some name to make the object bigger"}});
                } else if (t == 2) {
                    osmium::builder::WayBuilder wb{b};
                    wb.set_id(id).set_version(2).set_changeset(7).set_uid(9).set_timestamp(osmium::Timestamp{static_cast<uint32_t>(1500000000 + r)});
                    wb.set_user("user"); wb.set_visible(!is_deleted(id));
                    { osmium::builder::WayNodeListBuilder nl{wb}; nl.add_node_ref(1); nl.add_node_ref(2); nl.add_node_ref(3); }
                    wb.add_tags({{"highway", "residential"}});
                } else {
                    osmium::builder::RelationBuilder rb{b};
                    rb.set_id(id).set_version(2).set_changeset(7).set_uid(9).set_timestamp(osmium::Timestamp{static_cast<uint32_t>(1500000000 + r)});
                    rb.set_user("user"); rb.set_visible(!is_deleted(id));
                    { osmium::builder::RelationMemberListBuilder ml{rb}; ml.add_member(osmium::item_type::node, 1, "role"); ml.add_member(osmium::item_type::way, 2, ""); }
                    rb.add_tags({{"type", "multipolygon"}});
                }
                b.commit();
            }
        }
        w(std::move(b));
        if (fmt.find("pbf") != std::string::npos) w.flush();
    }
    w.close();
}

std::string slurp(const std::string& p) {
    std::ifstream f{p, std::ios::binary};
    return std::string{std::istreambuf_iterator<char>(f), std::istreambuf_iterator<char>()};
}
void spit(const std::string& p, const std::string& d) {
    std::ofstream f{p, std::ios::binary | std::ios::trunc};
    f.write(d.data(), static_cast<std::streamsize>(d.size()));
}

// frames of a PBF file: offsets of [4 byte length][BlobHeader][Blob]; returns (start, blob_data_offset, end)
struct Frame { int64_t start, blob, end; };
std::vector<Frame> pbf_frames(const std::string& d) {
    std::vector<Frame> out;
    std::size_t pos = 0;
    while (pos + 4 <= d.size()) {
        const uint32_t hl = (static_cast<uint8_t>(d[pos]) << 24) | (static_cast<uint8_t>(d[pos + 1]) << 16) | (static_cast<uint8_t>(d[pos + 2]) << 8) | static_cast<uint8_t>(d[pos + 3]);
        // BlobHeader: find datasize (field 3, varint)
        protozero::pbf_reader hdr{d.data() + pos + 4, hl};
        int64_t datasize = 0;
        while (hdr.next()) {
            if (hdr.tag() == 3) datasize = hdr.get_int32(); else hdr.skip();
        }
        const int64_t blob = static_cast<int64_t>(pos) + 4 + hl;
        out.push_back(Frame{static_cast<int64_t>(pos), blob, blob + datasize});
        pos = static_cast<std::size_t>(blob + datasize);
    }
    return out;
}

// ---------------------------------------------------------------- the consumer
std::string classify(const std::exception& e) {
    if (dynamic_cast<const Injected*>(&e)) return "exc-pipe";
    if (dynamic_cast<const std::future_error*>(&e)) return "exc-future";      // e.g. broken promise: not the error that happened
    const std::string w = e.what();
    if (w.find("Can not read from reader when in status") != std::string::npos) return "exc-state";
    if (w.find("Can not get header from reader when in status") != std::string::npos) return "exc-state";
    return "exc-pipe";
}

struct RunResult {
    std::vector<std::string> log;
    std::vector<std::string> detail;     // what() of exceptions, diagnostics
    int fdleak = 0, thrleak = 0;
};

// mock modes: a delivered buffer is named b<m>.<s> after its single node (id m*100+s)
std::string name_mock_buffer(const osmium::memory::Buffer& b) {
    std::string name;
    int cnt = 0;
    for (const auto& item : b) {
        if (item.type() != osmium::item_type::node) return "bad-item";
        const auto id = static_cast<const osmium::Node&>(item).id();
        name = "b" + std::to_string(id / 100) + "." + std::to_string(id % 100);
        ++cnt;
    }
    if (cnt != 1) return "bad-count-" + std::to_string(cnt);
    if (b.has_nested_buffers()) return name + "+nested";
    return name;
}

// real modes: objects of a delivered buffer as (block, sub) run-length list; all objects of sub-buffer (m,s) must
// come complete and in order
struct RealAcc {
    int R;
    std::vector<int64_t> ids;
};

template <typename MakeReader>
RunResult run_script(MakeReader&& make_reader, bool real, RealAcc* acc, bool meta_expected) {
    RunResult rr;
    // A joined thread can still be listed in /proc/self/task for a moment (pthread_join returns when the kernel
    // clears the tid, before the task is reaped): take the baseline only when the count has settled, and count
    // only a persistent surplus as a leak.
    const int fds0 = count_fds();
    int thr0 = count_threads();
    for (int i = 0, same = 0; i < 200 && same < 3; ++i) {
        std::this_thread::sleep_for(std::chrono::milliseconds(1));
        const int t = count_threads();
        if (t == thr0) ++same; else { same = 0; thr0 = t; }
    }
    {
        std::unique_ptr<oio::Reader> reader = make_reader();
        // scheduling only (not an action of the model): give the read thread and the parser time to fill both queues
        // before the consumer makes its first call
        if (g_start_delay_us > 0) std::this_thread::sleep_for(std::chrono::microseconds(g_start_delay_us));
        for (std::size_t si = 0; si < g_cfg.script.size();) {
            const bool all = g_cfg.script[si] == "readall";
            const std::string op = all ? std::string{"read"} : g_cfg.script[si];
            rec(json{{"e", "C.Call"}, {"op", op}});
            perturb();
            std::string res;
            try {
                if (op == "header") {
                    (void)reader->header();
                    res = "hdr";
                } else if (op == "read") {
                    osmium::memory::Buffer b = reader->read();
                    if (!b) {
                        res = "eod";
                        if (!reader->eof()) res = "eod-but-not-eof";
                    } else if (!real) {
                        res = name_mock_buffer(b);
                    } else {
                        res = "data";
                        for (const auto& obj : b.select<osmium::OSMObject>()) {
                            acc->ids.push_back(obj.id());
                            const bool has_meta = obj.version() != 0 || obj.changeset() != 0 || !obj.user_is_anonymous();
                            // read_meta::no allows the parser to drop metadata (only the PBF parser does); it must
                            // never go missing when it was asked for, and nothing else may change
                            if (meta_expected && !has_meta) res = "data-meta-lost";
                            if (obj.tags().empty()) res = "data-tags-lost";
                            if (obj.visible() == is_deleted(obj.id())) res = "data-visible-flag-wrong";
                        }
                        if (b.committed() == 0) res = "empty-buffer";
                    }
                } else if (op == "close") {
                    reader->close();
                    res = "closed";
                }
            } catch (const std::exception& e) {
                res = classify(e);
                rr.detail.push_back(op + ": " + e.what());
            }
            rec(json{{"e", "C.Ret"}, {"res", res}});
            rr.log.push_back(res);
            const bool is_data = res[0] == 'b' || res.compare(0, 4, "data") == 0;
            if (!(all && is_data)) ++si;
            if (rr.log.size() > 100000) throw std::logic_error{"harness: read() keeps returning data"};
        }
        rec(json{{"e", "C.Call"}, {"op", "destroy"}});
        perturb();
        reader.reset();
    }
    // pool workers stay; Reader threads must be gone.  Give detached bookkeeping of the kernel a moment.
    int fds1 = count_fds(), thr1 = count_threads();
    for (int i = 0; i < 250 && (thr1 > thr0); ++i) {
        std::this_thread::sleep_for(std::chrono::milliseconds(2));
        thr1 = count_threads();
    }
    // pool tasks of this execution that have not started yet (the Reader may be gone before they run) must log their
    // W.Run event into THIS execution's trace, not into the next one
    for (int i = 0; i < 2500 && g_tasks_started.load() < g_tasks_submitted.load(); ++i) {
        std::this_thread::sleep_for(std::chrono::milliseconds(2));
    }
    rr.fdleak = fds1 > fds0 ? fds1 - fds0 : 0;
    rr.thrleak = thr1 > thr0 ? thr1 - thr0 : 0;
    rec(json{{"e", "C.Ret"}, {"res", "destroyed"}, {"fdleak", rr.fdleak}, {"thrleak", rr.thrleak}});
    rr.log.emplace_back("destroyed");
    return rr;
}

oid::ParserFactory::create_parser_type g_real_opl, g_real_pbf, g_real_xml, g_real_o5m;

oid::ParserFactory::create_parser_type wrap(const oid::ParserFactory::create_parser_type& real) {
    return [real](oid::parser_arguments& args) {
        g_inq = &args.input_queue;
        g_outq = &args.output_queue;
        if (g_watch_pbf) g_watch_fd = args.fd;          // the descriptor the PBF parser is going to read itself
        return real(args);
    };
}
oid::ParserFactory::create_parser_type mock_creator() {
    return [](oid::parser_arguments& args) {
        g_inq = &args.input_queue;
        g_outq = &args.output_queue;
        return std::unique_ptr<oid::Parser>(new MockParser{args});
    };
}

void load_cfg(const json& c) {
    Cfg g;
    g.n = c["n"];
    for (const auto& x : c["nest"]) g.nest.push_back(x.get<int>());
    g.fk = c["fault"]["k"].get<std::string>();
    g.fat = c["fault"]["at"];
    g.fpre = c["fault"]["pre"];
    g.pool = c["pool"];
    g.fd = c["fd"];
    g.fdstop = c["fdstop"];
    g.hdrblk = c.value("hdrblk", false);
    for (const auto& x : c["skip"]) g.skip.push_back(x.get<int>());
    for (const auto& x : c["script"]) g.script.push_back(x.get<std::string>());
    g_cfg = g;
}

void set_env(const json& c) {
    ::setenv("OSMIUM_MAX_INPUT_QUEUE_SIZE", std::to_string(c.value("qin", 2)).c_str(), 1);
    ::setenv("OSMIUM_MAX_OSMDATA_QUEUE_SIZE", std::to_string(c.value("qout", 2)).c_str(), 1);
    ::setenv("OSMIUM_MAX_WORK_QUEUE_SIZE", std::to_string(c.value("qwork", 10)).c_str(), 1);
    ::setenv("OSMIUM_USE_POOL_THREADS_FOR_PBF_PARSING", c["cfg"]["pool"].get<bool>() ? "on" : "off", 1);
}

// expected log for the real modes: buffers b<m>.<s> become the ids of their objects
void check_log(const json& c, const RunResult& rr, bool real, const RealAcc* acc, int R) {
    const auto& exp = c["expected"];
    if (!real) {
        std::vector<std::string> e;
        for (const auto& x : exp) e.push_back(x.get<std::string>());
        if (e != rr.log) throw vh::Mismatch(-1, json(e), json{{"log", rr.log}, {"detail", rr.detail}}, "consumer-visible log differs from Expected(cfg)");
    } else {
        // reads that deliver data may split/merge the model's buffers: compare the flattened id sequence (prefix /
        // complete) and the non-data results in order
        std::vector<std::string> e_other, g_other;
        std::vector<int64_t> e_ids;
        bool complete = false;
        for (const auto& x : exp) {
            const std::string s = x.get<std::string>();
            if (s[0] != 'b') {
                if (s == "eod") complete = true;
                e_other.push_back(s);
            }
        }
        // the selected objects of the model's file in file order (a real read() may deliver more than one model buffer)
        for (int m = (g_cfg.hdrblk ? 2 : 1); m <= g_cfg.n; ++m) {
            if (skipped(m)) continue;
            for (int sub = 1; sub <= g_cfg.nest.at(static_cast<std::size_t>(m - 1)); ++sub) {
                for (int r = 0; r < R; ++r) e_ids.push_back(static_cast<int64_t>(m * 100 + sub) * 100000 + r);
            }
        }
        for (const auto& s : rr.log) if (s != "data") g_other.push_back(s);
        // the model's script reads one model buffer per read(); the real reader may need fewer or more reads for
        // the same data, the driver therefore issues reads until the model's next non-data result is due (see
        // run_real) and this comparison is on the id sequence
        if (e_other != g_other) throw vh::Mismatch(-1, json(e_other), json{{"log", rr.log}, {"detail", rr.detail}}, "results of the API calls (other than data) differ from Expected(cfg)");
        const auto& ids = acc->ids;
        if (complete || true) {
            // delivered ids must be a prefix of the expected ids; equal when the model reads to the end of data
            const std::size_t k = std::min(ids.size(), e_ids.size());
            for (std::size_t i = 0; i < k; ++i) {
                if (ids[i] != e_ids[i]) throw vh::Mismatch(static_cast<int>(i), e_ids[i], ids[i], "object sequence differs from the file order at this position");
            }
            if (ids.size() > e_ids.size()) throw vh::Mismatch(-1, e_ids.size(), ids.size(), "more objects delivered than selected objects in the file");
            if (complete && ids.size() != e_ids.size()) throw vh::Mismatch(-1, e_ids.size(), ids.size(), "end of data reported before all selected objects were delivered");
        }
    }
    if (rr.fdleak != 0) throw vh::Mismatch(-1, 0, rr.fdleak, "file descriptors left open after the Reader was destroyed");
    if (rr.thrleak != 0) throw vh::Mismatch(-1, 0, rr.thrleak, "threads left running after the Reader was destroyed");
}

void write_trace(const json& c, const std::string& path, const json& hdr, bool append) {
    std::ofstream out{path, append ? (std::ios::app) : (std::ios::trunc)};
    out << hdr.dump() << "\n";
    for (auto ev : g_trace) {
        if (ev.contains("qp")) {
            const auto qp = ev["qp"].get<std::uintptr_t>();
            ev.erase("qp");
            if (qp == reinterpret_cast<std::uintptr_t>(g_inq)) ev["q"] = "in";
            else if (qp == reinterpret_cast<std::uintptr_t>(g_outq)) ev["q"] = "out";
            else continue;                           // the pool's work queue: C19's business
        }
        out << ev.dump() << "\n";
    }
    (void)c;
}

std::atomic<int64_t> g_deadline_ms{0};
std::string g_current_id;
int64_t now_ms() { return std::chrono::duration_cast<std::chrono::milliseconds>(std::chrono::steady_clock::now().time_since_epoch()).count(); }
void run_case_inner(const json& c);
void run_case(const json& c) {
    g_current_id = c["id"].get<std::string>();
    g_deadline_ms = now_ms() + static_cast<int64_t>(c.value("budget_s", 30)) * 1000 * static_cast<int64_t>(c["seeds"].size());
    try {
        run_case_inner(c);
    } catch (...) {
        g_deadline_ms = 0;
        throw;
    }
    g_deadline_ms = 0;
}
void run_case_inner(const json& c) {
    load_cfg(c["cfg"]);
    set_env(c);
    const std::string mode = c["mode"];
    const int pool_threads = c.value("pool_threads", 2);
    g_sched_prob = c.value("sched_prob", 30);
    g_sched_max_us = c.value("sched_max_us", 200);
    g_start_delay_us = c.value("start_delay_us", 0);
    const std::string trace_path = c.value("trace", std::string{});
    osmium::thread::Pool pool{pool_threads, static_cast<std::size_t>(c.value("qwork", 10))};
    bool first = true;
    for (const auto& seedj : c["seeds"]) {
        g_seed = seedj.get<uint64_t>();
        g_trace.clear();
        g_inq = g_outq = nullptr;
        g_watch_fd = -1;
        g_watch_pbf = false;
        RunResult rr;
        RealAcc acc{c.value("R", 1), {}};
        const bool real = (mode == "real" || mode == "realpbf" || mode == "realpbfq" || mode == "realxmlq");
        g_q_mode = false;
        if (mode == "mock" || mode == "mockfd") {
            const std::string path = g_tmpdir + (mode == "mock" ? "/empty.opl.gz" : "/empty.osm.pbf");
            spit(path, "x");
            oid::ParserFactory::instance().register_parser(mode == "mock" ? oio::file_format::opl : oio::file_format::pbf, mock_creator());
            g_tracing = true;
            rr = run_script([&]() { return std::unique_ptr<oio::Reader>(new oio::Reader{oio::File{path}, pool}); }, false, nullptr, true);
            g_tracing = false;
        } else {
            // real parsers
            const std::string fmt = c["format"];                 // "pbf", "xml", "opl", "pbf,pbf_dense_nodes=false", ...
            g_history = c.value("history", false);
            const std::string osx = g_history ? ".osh" : ".osm";
            const std::string suffix = fmt.substr(0, 3) == "pbf" ? osx + ".pbf" : (fmt.substr(0, 3) == "xml" ? osx : osx + ".opl");
            const std::string path = g_tmpdir + "/model" + suffix;
            const int R = acc.R;
            // an explicit format string replaces the detection from the file name: say "osh..." for history files
            write_model_file(path, g_history ? (fmt.substr(0, 3) == "xml" ? "osh" + fmt.substr(3) : "osh." + fmt) : fmt, R);
            std::string data = slurp(path);
            std::string rpath = path;
            if (mode == "realpbf") {
                auto frames = pbf_frames(data);
                if (static_cast<int>(frames.size()) != g_cfg.n) {
                    throw vh::Mismatch(-1, g_cfg.n, frames.size(), "harness: PBF file does not have one blob per model chunk (header + data blocks)");
                }
                if (g_cfg.fk == "read") {
                    // the file ends inside blob 'at' (at = n+1: the read that finds the end of file fails: not expressible -> excluded by the generator)
                    const auto& f = frames.at(static_cast<std::size_t>(g_cfg.fat - 1));
                    data.resize(static_cast<std::size_t>(f.start + (f.end - f.start) / 2));
                } else if (g_cfg.fk == "parse" || g_cfg.fk == "work") {
                    const auto& f = frames.at(static_cast<std::size_t>(g_cfg.fat - 1));
                    for (int64_t p = f.blob + 8; p < f.end - 2 && p < f.blob + 40; ++p) data[static_cast<std::size_t>(p)] ^= 0x5a;
                }
                rpath = g_tmpdir + "/faulty.osm.pbf";
                spit(rpath, data);
                g_blob_starts.clear();
                for (const auto& f : frames) g_blob_starts.push_back(f.start);
                g_blob_starts.push_back(static_cast<int64_t>(slurp(path).size()));     // the read that finds the end of the file
                g_watch_pos = 0;
            }
            g_watch_pbf = (mode == "realpbf");
            if (mode == "realpbfq") {
                // PBF data through the input queue: one blob frame per piece from the mock decompressor (gzip slot)
                auto frames = pbf_frames(data);
                if (static_cast<int>(frames.size()) != g_cfg.n) {
                    throw vh::Mismatch(-1, g_cfg.n, frames.size(), "harness: PBF file does not have one blob per model chunk (header + data blocks)");
                }
                g_q_chunks.clear();
                for (const auto& f : frames) g_q_chunks.push_back(data.substr(static_cast<std::size_t>(f.start), static_cast<std::size_t>(f.end - f.start)));
                if (g_cfg.fk == "parse" || g_cfg.fk == "work") {
                    std::string& ch = g_q_chunks.at(static_cast<std::size_t>(g_cfg.fat - 1));
                    const auto& f = frames.at(static_cast<std::size_t>(g_cfg.fat - 1));
                    const bool len = c.value("corrupt", std::string{"data"}) == "len" && g_cfg.fk == "parse";
                    if (len) {
                        ch[0] = 0x00; ch[1] = 0x7f; ch[2] = 0x00; ch[3] = 0x01;       // BlobHeader length far above 64 KiB
                    } else {
                        const int64_t b0 = f.blob - f.start;
                        for (int64_t p = b0 + 8; p < static_cast<int64_t>(ch.size()) - 2 && p < b0 + 40; ++p) ch[static_cast<std::size_t>(p)] ^= 0x5a;
                    }
                }
                g_q_mode = true;
                rpath = g_tmpdir + "/queue.osm.pbf.gz";
                spit(rpath, "x");
            }
            if (mode == "realxmlq") {
                // a real XML document through the input queue: piece m of n from the mock decompressor (gzip slot); fault
                // "end": the document stops short of its closing tags
                if (g_cfg.fk == "end") data.resize(data.size() - std::min<std::size_t>(data.size() / 2, c.value("cut", 9)));
                g_q_chunks.clear();
                const std::size_t n = static_cast<std::size_t>(g_cfg.n);
                for (std::size_t i = 0; i < n; ++i) {
                    const std::size_t a = data.size() * i / n;
                    const std::size_t b = data.size() * (i + 1) / n;
                    g_q_chunks.push_back(data.substr(a, b - a));
                }
                g_q_mode = true;
                rpath = g_tmpdir + "/queue.osm.gz";
                spit(rpath, "x");
            }
            const auto fmt_enum = fmt.substr(0, 3) == "pbf" ? oio::file_format::pbf : (fmt.substr(0, 3) == "xml" ? oio::file_format::xml : oio::file_format::opl);
            oid::ParserFactory::instance().register_parser(fmt_enum, wrap(fmt_enum == oio::file_format::pbf ? g_real_pbf : (fmt_enum == oio::file_format::xml ? g_real_xml : g_real_opl)));
            osmium::osm_entity_bits::type mask = osmium::osm_entity_bits::nothing;
            for (const auto& t : c["mask"]) {
                const std::string s = t;
                if (s == "node") mask |= osmium::osm_entity_bits::node;
                if (s == "way") mask |= osmium::osm_entity_bits::way;
                if (s == "relation") mask |= osmium::osm_entity_bits::relation;
                if (s == "changeset") mask |= osmium::osm_entity_bits::changeset;
            }
            const bool meta = c.value("meta", true);
            const bool single = c.value("single", false);
            g_tracing = (mode == "realpbf" || mode == "realpbfq");
            rr = run_script([&]() {
                std::unique_ptr<oio::Reader> r{new oio::Reader{oio::File{rpath}, pool, mask, meta ? oio::read_meta::yes : oio::read_meta::no,
                                                               single ? oio::buffers_type::single : oio::buffers_type::any}};
                return r;
            }, true, &acc, meta);
            g_tracing = false;
            (void)R;
        }
        if (!trace_path.empty() && mode != "real" && mode != "realxmlq") {
            json hdr{{"e", "Config"}, {"cfg", c["cfg"]}, {"real", real}, {"seed", g_seed.load()}};
            write_trace(c, trace_path, hdr, !first);
        }
        first = false;
        check_log(c, rr, real, &acc, acc.R);
    }
}

// A pipeline that deadlocks must not hang the check: a case that does not finish within its budget is reported
// (with the tail of the trace recorded so far) and the process exits.
void watchdog() {
    for (;;) {
        std::this_thread::sleep_for(std::chrono::milliseconds(100));
        const int64_t d = g_deadline_ms.load();
        if (d != 0 && now_ms() > d) {
            json tail = json::array();
            {
                const std::lock_guard<std::mutex> lock{g_trace_mutex};
                const std::size_t n = g_trace.size();
                for (std::size_t i = n > 25 ? n - 25 : 0; i < n; ++i) tail.push_back(g_trace[i]);
            }
            vh::emit(json{{"id", g_current_id}, {"ok", false}, {"step", -1}, {"note", "hang: the Reader did not finish (deadlock or livelock)"},
                          {"exp", "termination"}, {"got", tail}});
            ::_exit(0);
        }
    }
}

}  // namespace

int main(int argc, char** argv) {
    g_tmpdir = argc > 1 ? argv[1] : "/tmp";
    std::thread{watchdog}.detach();
    ::mkdir(g_tmpdir.c_str(), 0700);
    g_real_opl = oid::ParserFactory::instance().get_creator_function(oio::File{"a.osm.opl"});
    g_real_pbf = oid::ParserFactory::instance().get_creator_function(oio::File{"a.osm.pbf"});
    g_real_xml = oid::ParserFactory::instance().get_creator_function(oio::File{"a.osm"});
    oio::CompressionFactory::instance().register_compression(oio::file_compression::gzip,
        [](int, oio::fsync) -> oio::Compressor* { return nullptr; },
        [](int fd) -> oio::Decompressor* { return new MockDecompressor{fd}; },
        [](const char*, std::size_t) -> oio::Decompressor* { return nullptr; });
    osmium::verif::event_sink().store(&event_sink);
    osmium::verif::sched_sink().store(&sched_sink);
    return vh::run_cases(run_case);
}
