// C08 replay harness: runs the real osmium::io::Writer (real encoders, real compressors) on configurations
// exported by TLC from specs/WriterPipeline.tla and makes the *kernel* refuse:
//   write  -> setrlimit(RLIMIT_FSIZE, o) with SIGXFSZ ignored: the write that crosses byte offset o is cut short and
//             the next one fails with EFBIG (works through plain write(2), zlib and libbz2/stdio alike); /dev/full
//             gives ENOSPC at offset 0
//   fsync  -> fsync() is defined in this executable (forwarding to the syscall) and fails with EIO for the output file
//   close  -> close() is defined in this executable: the n-th close of a descriptor of the output file reports EIO
//             (after really closing it); fclose() likewise for the FILE* libosmium's bzip2 compressor owns
//   encoder-> an object the OPL encoder refuses (invalid UTF-8) in block n, or a mock OutputFormat (file_format::debug slot)
//   compressor -> a mock compressor registered in the gzip slot of CompressionFactory (switchable, the real one otherwise)
// The oracle is the spec: the log of results of the script's calls must be one of the exported allowed logs
// (exception <=> fault, refusal after an exception, returned size), a close() that returned a size must have
// produced exactly the objects handed in (read back with osmium::io::Reader) and a file of that size, and after
// ~Writer all threads are joined and no descriptor is left.  A watchdog turns a deadlock into a reported "hang".
//
// stdin: NDJSON cases; stdout: one NDJSON result per case.  argv[1]: scratch directory.

#include <osmium/io/compression.hpp>

// The gzip slot of the CompressionFactory is taken before <osmium/io/gzip_compression.hpp> can register itself (the
// factory ignores a second registration), so that the harness can choose between the real GzipCompressor and a mock.
namespace wf {
osmium::io::Compressor* make_gzip_compressor(int fd, osmium::io::fsync sync);
osmium::io::Decompressor* make_gzip_decompressor(int fd);
osmium::io::Decompressor* make_gzip_decompressor_buffer(const char* buffer, std::size_t size);
static const bool slot_taken = osmium::io::CompressionFactory::instance().register_compression(
    osmium::io::file_compression::gzip, make_gzip_compressor, make_gzip_decompressor, make_gzip_decompressor_buffer);
} // namespace wf

#include <osmium/builder/attr.hpp>
#include <osmium/builder/osm_object_builder.hpp>
#include <osmium/io/bzip2_compression.hpp>
#include <osmium/io/gzip_compression.hpp>
#include <osmium/io/opl_input.hpp>
#include <osmium/io/opl_output.hpp>
#include <osmium/io/pbf_input.hpp>
#include <osmium/io/pbf_output.hpp>
#include <osmium/io/reader.hpp>
#include <osmium/io/writer.hpp>
#include <osmium/io/xml_input.hpp>
#include <osmium/io/xml_output.hpp>
#include <osmium/verif_hooks.hpp>

#include "common/vh.hpp"

#include <atomic>
#include <chrono>
#include <csignal>
#include <cstring>
#include <dirent.h>
#include <dlfcn.h>
#include <fcntl.h>
#include <fstream>
#include <mutex>
#include <random>
#include <sys/resource.h>
#include <sys/stat.h>
#include <sys/syscall.h>
#include <thread>
#include <unistd.h>

using vh::json;

// ------------------------------------------------------------------------------------------------ libc interposition

namespace inj {
std::atomic<bool> armed{false};
std::atomic<int> kind{0};        // 1 = fsync fails, 2 = the n-th close fails
std::atomic<int> close_at{0};
std::atomic<int> closes_seen{0};
std::atomic<int> hits{0};
char path[4096];

bool is_target(int fd) {
    struct stat a;
    struct stat b;
    if (::fstat(fd, &a) != 0 || ::stat(path, &b) != 0) {
        return false;
    }
    return a.st_dev == b.st_dev && a.st_ino == b.st_ino;
}
} // namespace inj

extern "C" int fsync(int fd) {
    if (inj::armed.load() && inj::kind.load() == 1 && inj::is_target(fd)) {
        ++inj::hits;
        errno = EIO;
        return -1;
    }
    return static_cast<int>(::syscall(SYS_fsync, fd));
}

extern "C" int close(int fd) {
    bool fail = false;
    if (inj::armed.load() && inj::kind.load() == 2 && inj::is_target(fd)) {
        fail = (++inj::closes_seen == inj::close_at.load());
    }
    const int r = static_cast<int>(::syscall(SYS_close, fd));
    if (fail) {
        ++inj::hits;
        errno = EIO;
        return -1;
    }
    return r;
}

extern "C" int fclose(FILE* f) {
    using fn_type = int (*)(FILE*);
    static const fn_type real = reinterpret_cast<fn_type>(::dlsym(RTLD_NEXT, "fclose"));
    bool fail = false;
    if (inj::armed.load() && inj::kind.load() == 2 && inj::is_target(::fileno(f))) {
        fail = (++inj::closes_seen == inj::close_at.load());
    }
    const int r = real(f);
    if (fail) {
        ++inj::hits;
        errno = EIO;
        return EOF;
    }
    return r;
}

// ------------------------------------------------------------------------------------------------ schedule perturbation

namespace sched {
std::atomic<uint64_t> seed{1};
std::atomic<int> prob{0};       // percent
std::atomic<int> max_us{0};

uint64_t next(uint64_t& s) {
    s ^= s << 13U;
    s ^= s >> 7U;
    s ^= s << 17U;
    return s;
}

void perturb(const char* /*point*/) {
    const int p = prob.load(std::memory_order_relaxed);
    if (p == 0) {
        return;
    }
    thread_local uint64_t state = 0;
    thread_local uint64_t for_seed = 0;
    const uint64_t sd = seed.load(std::memory_order_relaxed);
    if (for_seed != sd) {
        for_seed = sd;
        state = sd * 0x9E3779B97F4A7C15ULL ^ std::hash<std::thread::id>{}(std::this_thread::get_id());
        if (state == 0) {
            state = 1;
        }
    }
    const uint64_t r = next(state);
    if (static_cast<int>(r % 100) < p) {
        const int m = max_us.load(std::memory_order_relaxed);
        const int us = m > 0 ? static_cast<int>((r >> 8U) % static_cast<uint64_t>(m)) : 0;
        if (us < 5) {
            std::this_thread::yield();
        } else {
            std::this_thread::sleep_for(std::chrono::microseconds(us));
        }
    }
}
} // namespace sched

// ------------------------------------------------------------------------------------------------ event trace

namespace trace {
std::mutex mutex;
std::vector<json> events;
std::atomic<bool> on{false};
std::atomic<const void*> output_queue{nullptr};    // the Writer's output queue (told by the output format factories)

void rec(json ev) {
    if (!on.load(std::memory_order_relaxed)) {
        return;
    }
    const std::lock_guard<std::mutex> lock{mutex};
    events.push_back(std::move(ev));
}

// OSMIUM_VERIF_EVENT sink: queue events are delivered while the queue's mutex is held
void sink(const void* object, const char* name, const void* /*ptr*/, std::int64_t value) {
    if (!on.load(std::memory_order_relaxed)) {
        return;
    }
    if (name[0] == 'W' && name[1] == '.') {
        rec(json{{"e", name}});
        return;
    }
    if (object != output_queue.load() || !std::strcmp(name, "Size")) {
        return;                                   // the pool's work queue; polls of push() are not modelled
    }
    rec(json{{"e", name}, {"n", value}});
}
} // namespace trace

// ------------------------------------------------------------------------------------------------ mocks

namespace wf {

std::atomic<bool> use_mock_compressor{false};
std::atomic<int> mockc_fail_write{0};    // n-th write() throws
std::atomic<bool> mockc_fail_close{false};

class MockCompressor final : public osmium::io::Compressor {
    int m_fd;
    int m_writes = 0;
    std::size_t m_size = 0;

public:
    MockCompressor(int fd, osmium::io::fsync sync) : Compressor(sync), m_fd(fd) {
    }
    ~MockCompressor() noexcept override {
        try {
            close();
        } catch (...) {
        }
    }
    void write(const std::string& data) override {
        sched::perturb("mockc.write");
        if (++m_writes == mockc_fail_write.load()) {
            ++inj::hits;
            throw std::runtime_error{"mock compressor: write failed"};
        }
        osmium::io::detail::reliable_write(m_fd, data.data(), data.size());
        m_size += data.size();
    }
    void close() override {
        if (m_fd >= 0) {
            const int fd = m_fd;
            m_fd = -1;
            osmium::io::detail::reliable_close(fd);
            if (mockc_fail_close.load()) {
                ++inj::hits;
                throw std::runtime_error{"mock compressor: close failed"};
            }
        }
    }
    std::size_t file_size() const override {
        return m_size;
    }
};

osmium::io::Compressor* make_gzip_compressor(int fd, osmium::io::fsync sync) {
    if (use_mock_compressor.load()) {
        return new MockCompressor{fd, sync};
    }
    return new osmium::io::GzipCompressor{fd, sync};
}
osmium::io::Decompressor* make_gzip_decompressor(int fd) {
    return new osmium::io::GzipDecompressor{fd};
}
osmium::io::Decompressor* make_gzip_decompressor_buffer(const char* buffer, std::size_t size) {
    return new osmium::io::GzipBufferDecompressor{buffer, size};
}

struct SyncEncoderFault : public std::logic_error {
    explicit SyncEncoderFault(const char* w) : std::logic_error(w) {
    }
};

struct MockEncoderConfig {
    bool fail_header = false;
    int fail_buffer = 0;      // n-th write_buffer() throws in the user thread
    bool fail_end = false;
    int pool_fail = 0;        // the encoder task of block n throws on its pool worker
    bool use_pool = true;
};
MockEncoderConfig mock_encoder;

struct MockBlock {
    std::shared_ptr<osmium::memory::Buffer> buffer;
    bool fail;
    std::string operator()() {
        sched::perturb("mockenc.task");
        if (fail) {
            ++inj::hits;
            throw std::runtime_error{"mock encoder: unencodable object"};
        }
        std::string out;
        for (const auto& node : buffer->select<osmium::Node>()) {
            out += std::to_string(node.id());
            out += '\n';
        }
        return out;
    }
};

class MockOutputFormat final : public osmium::io::detail::OutputFormat {
    MockEncoderConfig m_cfg;
    int m_blocks = 0;

public:
    MockOutputFormat(osmium::thread::Pool& pool, osmium::io::detail::future_string_queue_type& queue) :
        OutputFormat(pool, queue), m_cfg(mock_encoder) {
    }
    void write_header(const osmium::io::Header& /*header*/) override {
        if (m_cfg.fail_header) {
            throw SyncEncoderFault{"mock encoder: write_header"};
        }
        send_to_output_queue(std::string{"H\n"});
    }
    void write_buffer(osmium::memory::Buffer&& buffer) override {
        if (buffer.select<osmium::Node>().empty()) {
            return;       // nothing to write: the empty string is the end marker of the output queue
        }
        ++m_blocks;
        if (m_cfg.fail_buffer == m_blocks) {
            throw SyncEncoderFault{"mock encoder: write_buffer"};
        }
        MockBlock block{std::make_shared<osmium::memory::Buffer>(std::move(buffer)), m_cfg.pool_fail == m_blocks};
        if (m_cfg.use_pool) {
            m_output_queue.push(m_pool.submit(std::move(block)));
        } else {
            send_to_output_queue(block());
        }
    }
    void write_end() override {
        if (m_cfg.fail_end) {
            throw SyncEncoderFault{"mock encoder: write_end"};
        }
        send_to_output_queue(std::string{"E\n"});
    }
};

} // namespace wf

// ------------------------------------------------------------------------------------------------ helpers

namespace {

int64_t now_ms() {
    return std::chrono::duration_cast<std::chrono::milliseconds>(std::chrono::steady_clock::now().time_since_epoch()).count();
}

int count_dir(const char* p) {
    int n = 0;
    DIR* d = ::opendir(p);
    if (!d) {
        return -1;
    }
    while (::readdir(d)) {
        ++n;
    }
    ::closedir(d);
    return n;
}
int count_fds() { return count_dir("/proc/self/fd"); }
int count_threads() { return count_dir("/proc/self/task"); }

std::string g_scratch;
std::atomic<int64_t> g_deadline_ms{0};
std::mutex g_id_mutex;
std::string g_current_id;
std::string g_current_where;

void set_where(const std::string& w) {
    const std::lock_guard<std::mutex> lock{g_id_mutex};
    g_current_where = w;
}

// A Writer that deadlocks must not hang the check: a case that does not finish within its budget is reported as
// a failed case ("hang") and the process ends; the driver re-runs the remaining cases of the shard.
void watchdog() {
    while (true) {
        std::this_thread::sleep_for(std::chrono::milliseconds(100));
        const int64_t d = g_deadline_ms.load();
        if (d != 0 && now_ms() > d) {
            std::string id;
            std::string where;
            {
                const std::lock_guard<std::mutex> lock{g_id_mutex};
                id = g_current_id;
                where = g_current_where;
            }
            struct rlimit rl;
            ::getrlimit(RLIMIT_FSIZE, &rl);
            rl.rlim_cur = rl.rlim_max;
            ::setrlimit(RLIMIT_FSIZE, &rl);
            vh::emit(json{{"id", id}, {"ok", false}, {"step", -1}, {"exp", "every call returns and ~Writer joins its thread"},
                          {"got", where}, {"note", "hang: the Writer did not finish (deadlock or livelock) in " + where}});
            ::_exit(0);
        }
    }
}

int32_t coord(int64_t id, int salt) {
    uint64_t x = static_cast<uint64_t>(id) * 0x9E3779B97F4A7C15ULL + static_cast<uint64_t>(salt) * 0xC2B2AE3D27D4EB4FULL;
    x ^= x >> 29U;
    x *= 0xBF58476D1CE4E5B9ULL;
    x ^= x >> 32U;
    return static_cast<int32_t>(x % 1600000000ULL) - 800000000;
}

std::string tag_value(int64_t id) {
    return "v" + std::to_string(id);
}

void add_node(osmium::memory::Buffer& buffer, int64_t id, int64_t poison, std::size_t user_len = 1) {
    using namespace osmium::builder::attr; // NOLINT
    const std::string user(user_len, 'u');
    const std::string value = (id == poison) ? std::string{"\xff\xfe"} : tag_value(id);
    osmium::builder::add_node(buffer, _id(id), _version(1), _timestamp(osmium::Timestamp{static_cast<uint32_t>(1500000000)}),
                              _cid(7), _uid(9), _user(user), _location(osmium::Location{coord(id, 1), coord(id, 2) / 2}),
                              _tag("k", value));
}

struct Entry {
    std::string r;          // ok | refused | exc | ret | destroyed
    uint64_t n = 0;         // returned size (ret)
    int64_t st_size = -1;   // size of the file when close() returned
    std::string what;
};

json entry_json(const Entry& e) {
    json j{{"r", e.r}};
    if (e.r == "ret") {
        j["n"] = e.n;
        j["stat"] = e.st_size;
    }
    if (!e.what.empty()) {
        j["what"] = e.what;
    }
    return j;
}

bool entry_matches(const Entry& e, const std::string& exp) {
    if (exp == "ok" || exp == "refused" || exp == "exc" || exp == "destroyed") {
        return e.r == exp;
    }
    if (exp == "size") {
        return e.r == "ret" && e.st_size >= 0 && e.n == static_cast<uint64_t>(e.st_size);
    }
    if (exp == "zero") {
        return e.r == "ret" && e.n == 0;
    }
    return false;
}

std::string format_string(const json& c) {
    const std::string fmt = c["fmt"];
    const std::string comp = c["comp"];
    std::string f = fmt == "xml" ? "osm" : fmt == "mock" ? "debug" : fmt;
    if (comp == "gzip" || comp == "mockc") {
        f += ".gz";
    } else if (comp == "bzip2") {
        f += ".bz2";
    }
    return f;
}

struct RunResult {
    std::vector<Entry> log;
    int threads_before = 0;
    int threads_after = 0;
    int fds_before = 0;
    int fds_after = 0;
    int hits = 0;
    bool early = false;     // an exception came out of operator() / flush() (not close())
};

struct Fault {
    std::string k = "none";
    int at = 0;
};

// One execution of the script on a real Writer.  limit < 0: no file size limit.
RunResult run_script(const json& c, const std::string& path, const Fault& fault, int64_t limit, uint64_t seed, bool perturb) {
    RunResult res;
    const std::vector<std::string> script = c["script"].get<std::vector<std::string>>();
    const int nobj = c.value("nobj", 1);
    const bool mock = c["fmt"] == "mock";
    const bool mockc = c["comp"] == "mockc";

    // which object is unencodable (real OPL encoder): the first object of block fault.at
    int64_t poison = -1;
    if (fault.k == "epool" && !mock) {
        const auto& blocks = c["blocks"];
        if (fault.at >= 1 && static_cast<std::size_t>(fault.at) <= blocks.size()) {
            poison = blocks[fault.at - 1][0].get<int64_t>() * 1000;
        }
    }
    wf::mock_encoder = wf::MockEncoderConfig{};
    wf::mock_encoder.use_pool = c.value("pool", true);
    if (mock) {
        wf::mock_encoder.fail_header = fault.k == "ehdr";
        wf::mock_encoder.fail_buffer = fault.k == "ebuf" ? fault.at : 0;
        wf::mock_encoder.fail_end = fault.k == "eend";
        wf::mock_encoder.pool_fail = fault.k == "epool" ? fault.at : 0;
    }
    wf::use_mock_compressor = mockc;
    wf::mockc_fail_write = (mockc && fault.k == "cwrite") ? fault.at : 0;
    wf::mockc_fail_close = mockc && fault.k == "cclose";

    ::setenv("OSMIUM_MAX_OUTPUT_QUEUE_SIZE", std::to_string(c.value("qsize", 20)).c_str(), 1);
    osmium::thread::Pool pool{c.value("pool_threads", 2), 16};

    uint64_t rng = seed * 0x2545F4914F6CDD1DULL + 0x9E3779B97F4A7C15ULL;
    if (rng == 0) {
        rng = 1;
    }
    sched::seed = seed;
    sched::prob = perturb ? c.value("sched_prob", 30) : 0;
    sched::max_us = c.value("sched_max_us", 300);

    // size of one item / of the internal buffer (two items fit, a third does not)
    osmium::memory::Buffer one{1024, osmium::memory::Buffer::auto_grow::no};
    add_node(one, 1000, -1);
    const std::size_t item_size = one.committed();

    std::strncpy(inj::path, path.c_str(), sizeof(inj::path) - 1);
    inj::kind = fault.k == "fsync" ? 1 : fault.k == "close" ? 2 : 0;
    inj::close_at = fault.at;
    inj::closes_seen = 0;
    inj::hits = 0;

    // let the pool threads come up before the baseline is taken
    for (int i = 0; i < 200 && count_threads() < 2 + c.value("pool_threads", 2); ++i) {
        std::this_thread::sleep_for(std::chrono::microseconds(200));
    }
    res.threads_before = count_threads();
    res.fds_before = count_fds();

    struct LimitGuard {      // the limit and the armed interposers never outlive this execution, whatever is thrown
        struct rlimit old_limit;
        LimitGuard() { ::getrlimit(RLIMIT_FSIZE, &old_limit); }
        void restore() {
            inj::armed = false;
            ::setrlimit(RLIMIT_FSIZE, &old_limit);
        }
        ~LimitGuard() { restore(); }
    } guard;
    if (limit >= 0) {
        struct rlimit rl = guard.old_limit;
        rl.rlim_cur = static_cast<rlim_t>(limit);
        ::setrlimit(RLIMIT_FSIZE, &rl);
    }
    inj::armed = true;

    const osmium::io::File file{path, format_string(c)};
    const auto sync = c.value("fsync", false) ? osmium::io::fsync::yes : osmium::io::fsync::no;
    {
        set_where("Writer()");
        osmium::io::Writer writer{file, osmium::io::overwrite::allow, pool, sync};
        writer.set_buffer_size(2 * item_size);
        for (std::size_t k = 0; k < script.size(); ++k) {
            vh::step_marker(static_cast<int>(k));
            const std::string& op = script[k];
            const int64_t base = static_cast<int64_t>(k + 1) * 1000;
            if (perturb) {   // seeded delay between the calls: lets the write thread run ahead of the caller or not
                switch (sched::next(rng) % 5) {
                    case 1: std::this_thread::yield(); break;
                    case 2: std::this_thread::sleep_for(std::chrono::microseconds(150)); break;
                    case 3: std::this_thread::sleep_for(std::chrono::milliseconds(2)); break;
                    case 4: std::this_thread::sleep_for(std::chrono::milliseconds(8)); break;
                    default: break;
                }
            }
            set_where(op + " (call " + std::to_string(k + 1) + ")");
            trace::rec(json{{"e", "C.Call"}, {"op", op}});
            Entry e;
            try {
                if (op == "buf") {
                    osmium::memory::Buffer buffer{static_cast<std::size_t>(nobj) * 2 * item_size + 1024, osmium::memory::Buffer::auto_grow::yes};
                    for (int j = 0; j < nobj; ++j) {
                        add_node(buffer, base + j, poison);
                    }
                    writer(std::move(buffer));
                    e.r = "ok";
                } else if (op == "nul") {       // a buffer the encoders write nothing for: only an Area (or only a bare TagList)
                    osmium::memory::Buffer buffer{1024, osmium::memory::Buffer::auto_grow::yes};
                    if ((sched::next(rng) & 1U) != 0 || !perturb) {
                        using namespace osmium::builder::attr; // NOLINT
                        osmium::builder::add_area(buffer, _id(base), _tag("k", "area"));
                    } else {
                        {
                            osmium::builder::TagListBuilder tags{buffer};
                            tags.add_tag("k", "v");
                        }
                        buffer.commit();
                    }
                    writer(std::move(buffer));
                    e.r = "ok";
                } else if (op == "item" || op == "big") {
                    osmium::memory::Buffer buffer{8 * item_size + 1024, osmium::memory::Buffer::auto_grow::yes};
                    add_node(buffer, base, poison, op == "big" ? 4 * item_size : 1);
                    writer(*buffer.begin());
                    e.r = "ok";
                } else if (op == "flush") {
                    writer.flush();
                    e.r = "ok";
                } else if (op == "close") {
                    e.n = writer.close();
                    e.r = "ret";
                    struct stat st;
                    e.st_size = ::stat(path.c_str(), &st) == 0 ? static_cast<int64_t>(st.st_size) : -1;
                } else {
                    throw std::runtime_error{"unknown op " + op};
                }
            } catch (const osmium::io_error& ex) {
                e.what = ex.what();
                e.r = std::strncmp(ex.what(), "Can not write to writer when in status", 38) == 0 ? "refused" : "exc";
            } catch (const std::exception& ex) {
                e.what = std::string{typeid(ex).name()} + ": " + ex.what();
                e.r = "exc";
            } catch (...) {
                e.what = "non-standard exception";
                e.r = "exc";
            }
            if (e.r == "exc" && op != "close") {
                res.early = true;
            }
            if (e.r == "ret") {
                trace::rec(json{{"e", "C.Ret"}, {"res", "ret"}, {"n", e.n}});
            } else {
                trace::rec(json{{"e", "C.Ret"}, {"res", e.r}});
            }
            res.log.push_back(e);
        }
        vh::step_marker(static_cast<int>(script.size()));
        set_where("~Writer");
        trace::rec(json{{"e", "C.Call"}, {"op", "destroy"}});
    }
    Entry d;
    d.r = "destroyed";
    res.log.push_back(d);
    guard.restore();
    res.hits = inj::hits.load();

    // a joined thread may still be listed for a moment
    for (int i = 0; i < 400; ++i) {
        res.threads_after = count_threads();
        if (res.threads_after <= res.threads_before) {
            break;
        }
        std::this_thread::sleep_for(std::chrono::milliseconds(5));
    }
    res.fds_after = count_fds();
    trace::rec(json{{"e", "C.Ret"}, {"res", "destroyed"}, {"thrleak", std::max(0, res.threads_after - res.threads_before)}});
    set_where("after ~Writer");
    return res;
}

std::vector<int64_t> expected_ids(const json& c) {
    std::vector<int64_t> ids;
    const int nobj = c.value("nobj", 1);
    for (const auto& i : c["content"]) {
        const int64_t k = i.get<int64_t>();
        if (c["script"][k - 1] == "buf") {
            for (int j = 0; j < nobj; ++j) {
                ids.push_back(k * 1000 + j);
            }
        } else {
            ids.push_back(k * 1000);
        }
    }
    return ids;
}

// The file a successful close() left behind must decode to exactly the objects handed in.
void check_content(const json& c, const std::string& path, int step) {
    const std::vector<int64_t> exp = expected_ids(c);
    std::vector<int64_t> got;
    std::string problem;
    if (c["fmt"] == "mock") {
        std::ifstream in{path};
        std::string line;
        std::vector<std::string> lines;
        while (std::getline(in, line)) {
            lines.push_back(line);
        }
        if (lines.size() < 2 || lines.front() != "H" || lines.back() != "E") {
            problem = "header/trailer missing";
        } else {
            for (std::size_t i = 1; i + 1 < lines.size(); ++i) {
                got.push_back(std::atoll(lines[i].c_str()));
            }
        }
    } else {
        try {
            osmium::io::Reader reader{osmium::io::File{path, format_string(c)}};
            while (osmium::memory::Buffer buffer = reader.read()) {
                for (const auto& item : buffer) {
                    if (item.type() != osmium::item_type::node) {
                        problem = "unexpected item type";
                        continue;
                    }
                    const auto& node = static_cast<const osmium::Node&>(item);
                    got.push_back(node.id());
                    const char* v = node.tags().get_value_by_key("k");
                    if (!v || tag_value(node.id()) != v || node.location() != osmium::Location{coord(node.id(), 1), coord(node.id(), 2) / 2} ||
                        node.version() != 1 || node.uid() != 9 || std::strcmp(node.user(), "u") != 0) {
                        problem = "object " + std::to_string(node.id()) + " came back changed";
                    }
                }
            }
            reader.close();
        } catch (const std::exception& ex) {
            problem = std::string{"file reported as complete cannot be read: "} + ex.what();
        }
    }
    if (problem.empty() && got != exp) {
        problem = "objects in the file differ from the objects handed to the Writer";
    }
    if (!problem.empty()) {
        if (got.size() > 40) {
            got.resize(40);
        }
        throw vh::Mismatch(step, json{{"objects", exp.size()}, {"first", exp.empty() ? -1 : exp.front()}, {"last", exp.empty() ? -1 : exp.back()}},
                           json{{"problem", problem}, {"ids_head", got}}, "content: close() returned a size but " + problem);
    }
}

int64_t file_size_of(const std::string& path) {
    struct stat st;
    return ::stat(path.c_str(), &st) == 0 ? static_cast<int64_t>(st.st_size) : -1;
}

// The configuration line of a recorded execution: the exported configuration, but a kernel fault is represented by
// the Compressor call that was observed to fail (see specs/WriterPipelineTrace.tla).
json trace_config(const json& c, const Fault& fault, const std::vector<json>& events) {
    json f{{"k", fault.k}, {"at", fault.at}};
    if (fault.k == "write" || fault.k == "fsync" || fault.k == "close") {
        f = json{{"k", "none"}, {"at", 0}};
        int writes = 0;
        std::string last;
        for (const auto& ev : events) {
            const std::string e = ev["e"];
            if (e == "W.Catch") {
                if (last == "W.Data") {
                    f = json{{"k", "cwrite"}, {"at", writes + 1}};
                } else if (last == "Drain" || last == "PopEmpty") {
                    f = json{{"k", "cclose"}, {"at", 0}};
                }
                break;
            }
            if (e == "W.Write") {
                ++writes;
            }
            if (e == "Deq" || e == "PopEmpty" || e == "Drain" || e == "W.Data" || e == "W.Write" || e == "W.Close") {
                last = e;
            }
        }
    }
    const std::string fmt = c["fmt"];
    return json{{"e", "Config"},
                {"cfg", {{"script", c["script"]}, {"hdr", fmt != "opl"}, {"trl", fmt == "xml" || fmt == "mock"}, {"defer", fmt == "pbf"},
                         {"fault", f}, {"pool", c.value("pool", true)}, {"maxQ", std::max(2, c.value("qsize", 20))}, {"cap", 2}}}};
}

void run_case(const json& c, json& result) {
    static int counter = 0;
    const std::string path = g_scratch + "/w" + std::to_string(::getpid()) + "_" + std::to_string(++counter) + ".dat";
    Fault fault;
    fault.k = c["fault"]["k"].get<std::string>();
    fault.at = c["fault"]["at"].get<int>();
    const json inst = c.value("inst", json::object());
    const std::string ikind = inst.value("kind", "none");
    const std::vector<uint64_t> seeds = c.value("seeds", std::vector<uint64_t>{1});
    const int64_t budget_ms = static_cast<int64_t>(c.value("budget_s", 20)) * 1000;

    // would-be size of the output: a fault-free run of the same script
    int64_t S = -1;
    if (c.value("mode", "real") == "probe" || (fault.k == "write" && ikind != "devfull" && !(ikind == "offset" && !inst.value("need_size", false)))) {
        g_deadline_ms = now_ms() + budget_ms;
        const RunResult dry = run_script(c, path, Fault{}, -1, 1, false);
        g_deadline_ms = 0;
        S = file_size_of(path);
        bool closed_ok = false;
        for (const auto& e : dry.log) {
            if (e.r == "ret" && e.st_size >= 0 && e.n == static_cast<uint64_t>(e.st_size) && !closed_ok) {
                closed_ok = true;
                S = e.st_size;
            }
        }
        result["S"] = S;
        result["dry_closed"] = closed_ok;
        if (c.value("mode", "real") == "probe") {
            json lg = json::array();
            for (const auto& e : dry.log) {
                lg.push_back(entry_json(e));
            }
            result["log"] = lg;
            ::unlink(path.c_str());
            return;
        }
    }

    int64_t limit = -1;
    std::string target = path;
    if (fault.k == "write") {
        if (ikind == "devfull") {
            target = "/dev/full";
        } else if (ikind == "offset") {
            limit = inst["o"].get<int64_t>();
        } else if (ikind == "first") {
            limit = 0;
        } else if (ikind == "last") {
            limit = S - 1 - inst.value("delta", 0);
        } else if (ikind == "end") {
            limit = S + inst.value("delta", 0);
        } else if (ikind == "frac") {
            limit = static_cast<int64_t>(inst["frac"].get<double>() * static_cast<double>(S));
            const int64_t hi = S - 1 - c.value("tail", 0);
            if (limit > hi) {
                limit = hi;
            }
            if (limit < 0) {
                limit = 0;
            }
        } else {
            throw std::runtime_error{"write fault without instantiation"};
        }
        if (limit < -1) {
            limit = 0;
        }
        result["o"] = limit;
    }

    const std::vector<std::vector<std::string>> allowed = c["allowed"].get<std::vector<std::vector<std::string>>>();
    int early = 0;
    int late = 0;
    int hits = 0;
    int execs = 0;
    for (const uint64_t seed : seeds) {
        ::unlink(path.c_str());
        g_deadline_ms = now_ms() + budget_ms;
        const bool tracing = c.contains("trace");
        if (tracing) {
            const std::lock_guard<std::mutex> lock{trace::mutex};
            trace::events.clear();
        }
        trace::on = tracing;
        const RunResult r = run_script(c, target, fault, limit, seed, true);
        trace::on = false;
        g_deadline_ms = 0;
        ++execs;
        if (tracing) {
            std::string text = trace_config(c, fault, trace::events).dump() + "\n";
            for (const auto& ev : trace::events) {
                text += ev.dump();
                text += '\n';
            }
            std::ofstream out{c["trace"].get<std::string>(), std::ios::app};
            out << text;
        }
        hits += r.hits;

        json got = json::array();
        for (const auto& e : r.log) {
            got.push_back(entry_json(e));
        }
        // the log must be one of the allowed logs
        int best = -1;
        bool matched = false;
        for (const auto& a : allowed) {
            std::size_t k = 0;
            while (k < a.size() && k < r.log.size() && entry_matches(r.log[k], a[k])) {
                ++k;
            }
            if (k == a.size() && k == r.log.size()) {
                matched = true;
                break;
            }
            best = std::max(best, static_cast<int>(k));
        }
        if (!matched) {
            std::string note = "log: result of call " + std::to_string(best + 1) + " is not allowed by the spec";
            const bool any_exc_allowed = std::any_of(allowed.begin(), allowed.end(), [](const std::vector<std::string>& a) {
                return std::find(a.begin(), a.end(), "exc") != a.end();
            });
            const bool got_exc = std::any_of(r.log.begin(), r.log.end(), [](const Entry& e) { return e.r == "exc"; });
            if (any_exc_allowed && !got_exc) {
                note = "lost: a fault occurred but no call reported it (" + note + ")";
            } else if (!any_exc_allowed && got_exc) {
                note = "spurious: an exception without a fault (" + note + ")";
            }
            throw vh::Mismatch(best, json(allowed), json{{"log", got}, {"seed", seed}, {"o", limit}}, note);
        }
        bool any_exc = false;
        int size_step = -1;
        for (std::size_t k = 0; k < r.log.size(); ++k) {
            any_exc = any_exc || r.log[k].r == "exc";
            if (r.log[k].r == "ret" && size_step < 0 && k < c["script"].size()) {
                // the first close(): did it report success?
                bool first_close = true;
                for (std::size_t j = 0; j < k; ++j) {
                    first_close = first_close && c["script"][j] != "close";
                }
                if (first_close && !any_exc) {
                    size_step = static_cast<int>(k);
                }
            }
        }
        if (r.early) {
            ++early;
        } else if (any_exc) {
            ++late;
        }
        const int last = static_cast<int>(r.log.size()) - 1;
        if (r.threads_after > r.threads_before) {
            throw vh::Mismatch(last, r.threads_before, r.threads_after, "threads: ~Writer returned but a thread of the Writer is still there");
        }
        if (r.fds_after > r.fds_before) {
            throw vh::Mismatch(last, r.fds_before, r.fds_after, "fdleak: descriptors left open after ~Writer");
        }
        if (size_step >= 0 && target == path) {
            check_content(c, path, size_step);
        }
    }
    ::unlink(path.c_str());
    result["execs"] = execs;
    result["early"] = early;
    result["late"] = late;
    result["hits"] = hits;
}

} // namespace

int main(int argc, char** argv) {
    ::signal(SIGXFSZ, SIG_IGN);
    ::signal(SIGPIPE, SIG_IGN);
    g_scratch = argc > 1 ? argv[1] : "/tmp";
    osmium::verif::sched_sink().store(sched::perturb);
    osmium::verif::event_sink().store(trace::sink);
    // the real output formats, wrapped only to learn the address of the Writer's output queue
    using osmium::io::file_format;
    auto& factory = osmium::io::detail::OutputFormatFactory::instance();
    factory.register_output_format(file_format::xml, [](osmium::thread::Pool& pool, const osmium::io::File& file, osmium::io::detail::future_string_queue_type& queue) -> osmium::io::detail::OutputFormat* {
        trace::output_queue = &queue;
        return new osmium::io::detail::XMLOutputFormat{pool, file, queue};
    });
    factory.register_output_format(file_format::opl, [](osmium::thread::Pool& pool, const osmium::io::File& file, osmium::io::detail::future_string_queue_type& queue) -> osmium::io::detail::OutputFormat* {
        trace::output_queue = &queue;
        return new osmium::io::detail::OPLOutputFormat{pool, file, queue};
    });
    factory.register_output_format(file_format::pbf, [](osmium::thread::Pool& pool, const osmium::io::File& file, osmium::io::detail::future_string_queue_type& queue) -> osmium::io::detail::OutputFormat* {
        trace::output_queue = &queue;
        return new osmium::io::detail::PBFOutputFormat{pool, file, queue};
    });
    osmium::io::detail::OutputFormatFactory::instance().register_output_format(
        osmium::io::file_format::debug,
        [](osmium::thread::Pool& pool, const osmium::io::File& /*file*/, osmium::io::detail::future_string_queue_type& queue) {
            trace::output_queue = &queue;
            return new wf::MockOutputFormat{pool, queue};
        });
    std::thread{watchdog}.detach();

    std::string line;
    while (std::getline(std::cin, line)) {
        if (line.empty()) {
            continue;
        }
        const json c = json::parse(line);
        json r;
        r["id"] = c["id"];
        {
            const std::lock_guard<std::mutex> lock{g_id_mutex};
            g_current_id = c["id"].get<std::string>();
            g_current_where = "start";
        }
        try {
            run_case(c, r);
            r["ok"] = true;
        } catch (const vh::Mismatch& m) {
            r["ok"] = false;
            r["step"] = m.step;
            r["exp"] = m.exp;
            r["got"] = m.got;
            r["note"] = m.note;
        } catch (const std::exception& e) {
            r["ok"] = false;
            r["step"] = -1;
            r["note"] = std::string{"harness: unexpected exception: "} + typeid(e).name() + ": " + e.what();
        }
        g_deadline_ms = 0;
        vh::emit(r);
    }
    return 0;
}
