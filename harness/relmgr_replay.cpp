// C11 replay: first-pass / second-pass histories exported by TLC from specs/RelMgr.tla are fed to a real
// osmium::relations::RelationsManager (all eight TNodes/TWays/TRelations instantiations); completion
// callbacks, member retrievability inside the callback and afterwards, "not in any relation" reports, the
// number of pending relations and the incomplete list are compared with the spec after every call.
#include "common/vh.hpp"

#include <osmium/builder/osm_object_builder.hpp>
#include <osmium/memory/buffer.hpp>
#include <osmium/osm.hpp>
#include <osmium/relations/relations_manager.hpp>

#include <algorithm>
#include <cstring>
#include <string>
#include <vector>

using vh::json;

static osmium::item_type type_of(const std::string& t) {
    return t == "n" ? osmium::item_type::node : t == "w" ? osmium::item_type::way : osmium::item_type::relation;
}
static std::string name_of(osmium::item_type t) {
    return t == osmium::item_type::node ? "n" : t == osmium::item_type::way ? "w" : "r";
}

struct Shared {
    bool interest = true;
    std::vector<bool> want;
    json events = json::array();
};

template <bool N, bool W, bool R>
class Mgr : public osmium::relations::RelationsManager<Mgr<N, W, R>, N, W, R> {
public:
    Shared* sh = nullptr;

    bool new_relation(const osmium::Relation& /*relation*/) const noexcept { return sh->interest; }
    bool new_member(const osmium::Relation& /*relation*/, const osmium::RelationMember& /*member*/, std::size_t n) const noexcept {
        return sh->want.at(n);
    }
    void complete_relation(const osmium::Relation& relation) {
        json ev;
        ev["e"] = "complete";
        ev["id"] = relation.id();
        json probe = json::array();
        for (const auto& member : relation.members()) {
            if (member.ref() == 0) {
                probe.push_back("unwanted");
                continue;
            }
            const osmium::OSMObject* obj = this->get_member_object(member);
            bool ok = obj != nullptr && obj->id() == member.ref() && obj->type() == member.type();
            if (ok) {
                const char* v = obj->tags().get_value_by_key("k");
                const std::string wantv = name_of(member.type()) + std::to_string(member.ref());
                ok = v != nullptr && wantv == v;
            }
            if (ok) {
                // the typed accessors must agree
                switch (member.type()) {
                    case osmium::item_type::node: ok = this->get_member_node(member.ref()) == obj; break;
                    case osmium::item_type::way: ok = this->get_member_way(member.ref()) == obj; break;
                    default: ok = this->get_member_relation(member.ref()) == obj; break;
                }
            }
            probe.push_back(ok ? "present" : "MISSING");
        }
        ev["probe"] = probe;
        sh->events.push_back(ev);
    }
    void node_not_in_any_relation(const osmium::Node& o) { sh->events.push_back({{"e", "not_in_any_relation"}, {"t", "n"}, {"id", o.id()}}); }
    void way_not_in_any_relation(const osmium::Way& o) { sh->events.push_back({{"e", "not_in_any_relation"}, {"t", "w"}, {"id", o.id()}}); }
    void relation_not_in_any_relation(const osmium::Relation& o) { sh->events.push_back({{"e", "not_in_any_relation"}, {"t", "r"}, {"id", o.id()}}); }
};

static json sorted_events(json ev) {
    std::vector<json> v(ev.begin(), ev.end());
    std::stable_sort(v.begin(), v.end(), [](const json& a, const json& b) { return a["id"].get<int64_t>() < b["id"].get<int64_t>(); });
    return json(v);
}

template <bool N, bool W, bool R>
static void run_case_t(const json& c) {
    Mgr<N, W, R> mgr;
    Shared sh;
    mgr.sh = &sh;
    osmium::memory::Buffer buf{4096, osmium::memory::Buffer::auto_grow::yes};
    std::vector<json> first_pass;    // relation definitions, to rebuild relation objects fed in the second pass
    std::vector<std::pair<std::string, int64_t>> universe;   // everything that could be looked up

    auto build_relation = [&](int64_t id, const json& members) -> const osmium::Relation& {
        buf.clear();
        {
            osmium::builder::RelationBuilder rb{buf};
            rb.set_id(id);
            {
                osmium::builder::RelationMemberListBuilder ml{rb};
                for (const auto& m : members) ml.add_member(type_of(m["t"]), m["ref"].get<int64_t>(), "role");
            }
            osmium::builder::TagListBuilder tl{rb};
            tl.add_tag("k", "r" + std::to_string(id));
        }
        buf.commit();
        return buf.get<osmium::Relation>(0);
    };

    // "big" cases: every member object is padded with tags to exactly a quarter of the stash's initial buffer minus
    // 1 KiB, so that after 4 (and again after 8) stored members less than 10 KiB are free and ItemStash's automatic
    // garbage collection (threshold lowered by OSMIUM_VERIF_STASH_GC_MIN) runs inside add_item() in the middle of
    // a scenario - the place where offsets/handles can go stale.
    // "wide" cases: member number wide_idx of relation wide_rel is listed wide_k times in a row (same type, ref and
    // want flag).  RelMgr.tla counts and stores member-list ENTRIES, so the scenario is a behaviour of the
    // specification with a longer member list; callbacks, pending count and held objects are those of the exported
    // scenario, the probe of the completion callback has the entry repeated.  This takes the countdown of a relation
    // across 2^8 and 2^16, which TLC's member lists of <= 4 entries cannot.
    const int64_t wide_rel = c.contains("wide") ? c["wide"]["rel"].get<int64_t>() : 0;
    const std::size_t wide_idx = c.contains("wide") ? c["wide"]["idx"].get<std::size_t>() : 0;
    const std::size_t wide_k = c.contains("wide") ? c["wide"]["k"].get<std::size_t>() : 1;
    auto widen = [&](int64_t id, const json& list) {
        if (!c.contains("wide") || id != wide_rel) return list;
        json out = json::array();
        for (std::size_t i = 0; i < list.size(); ++i) {
            const std::size_t reps = i == wide_idx ? wide_k : 1;
            for (std::size_t j = 0; j < reps; ++j) out.push_back(list[i]);
        }
        return out;
    };
    const bool big = c.value("big", false);
    const std::size_t target = 1024UL * 1024UL / 4 - 1024;
    auto pad_tags = [&](osmium::builder::TagListBuilder& tl, std::size_t base_size) {
        if (!big) return;
        // size so far: base_size (object incl. the first tag, unpadded tag list).  Fill with 1000-byte values.
        std::size_t have = base_size;
        int n = 0;
        const std::string v1000(1000, 'x');
        while (have + 1100 < target) {
            const std::string key = "p" + std::to_string(n++);
            tl.add_tag(key, v1000);
            have += key.size() + 1 + v1000.size() + 1;
        }
        const std::string key = "q";
        const std::size_t rest = target - have;          // bytes still missing (incl. key, two NULs)
        const std::size_t vlen = rest > key.size() + 2 ? rest - key.size() - 2 : 0;
        tl.add_tag(key, std::string(vlen > 8 ? vlen - 8 : vlen, 'y'));   // stay a little below; padding to 8 bytes rounds up
    };

    int k = 0;
    for (const auto& st : c["steps"]) {
        vh::step_marker(k);
        const std::string a = st["a"];
        sh.events = json::array();
        if (a == "relation") {
            json x = st["x"];
            x["members"] = widen(x["id"].get<int64_t>(), x["members"]);
            sh.interest = x["interest"];
            sh.want.clear();
            for (const auto& m : x["members"]) {
                sh.want.push_back(m["want"]);
                universe.emplace_back(m["t"].get<std::string>(), m["ref"].get<int64_t>());
            }
            first_pass.push_back(x);
            mgr.relation(build_relation(x["id"], x["members"]));
        } else if (a == "prepare") {
            mgr.prepare_for_lookup();
        } else if (a == "feed") {
            const std::string t = st["x"]["t"];
            const int64_t id = st["x"]["id"];
            universe.emplace_back(t, id);
            if (t == "n") {
                buf.clear();
                {
                    osmium::builder::NodeBuilder nb{buf};
                    nb.set_id(id);
                    osmium::builder::TagListBuilder tl{nb};
                    tl.add_tag("k", "n" + std::to_string(id));
                    pad_tags(tl, buf.written());
                }
                buf.commit();
                mgr.handle_node(buf.get<osmium::Node>(0));
            } else if (t == "w") {
                buf.clear();
                {
                    osmium::builder::WayBuilder wb{buf};
                    wb.set_id(id);
                    osmium::builder::TagListBuilder tl{wb};
                    tl.add_tag("k", "w" + std::to_string(id));
                    pad_tags(tl, buf.written());
                }
                buf.commit();
                mgr.handle_way(buf.get<osmium::Way>(0));
            } else {
                json members = json::array();
                for (const auto& fp : first_pass) if (fp["id"] == id) members = fp["members"];
                mgr.handle_relation(build_relation(id, members));
            }
        } else if (a == "finish") {
            mgr.for_each_incomplete_relation([&](const osmium::relations::RelationHandle& h) {
                sh.events.push_back({{"e", "incomplete"}, {"id", h->id()}});
            });
        } else {
            throw vh::Mismatch(k, "known action", a);
        }
        json exp_ev = st["ev"];
        for (auto& e : exp_ev) {
            if (e["e"] == "complete") e["probe"] = widen(e["id"].get<int64_t>(), e["probe"]);
        }
        const json want_ev = sorted_events(exp_ev);
        const json got_ev = sorted_events(sh.events);
        if (want_ev != got_ev) throw vh::Mismatch(k, want_ev, got_ev, "callbacks of " + a + " " + st["x"].dump());
        VH_EXPECT(k, st["nrel"].get<std::size_t>(), mgr.relations_database().count_relations(), "relations still pending after " + a);
        if (a == "feed" || a == "finish") {
            // an object can be retrieved exactly while a pending relation needs it; anything else is absent
            for (const auto& u : universe) {
                bool held = false;
                for (const auto& h : st["held"]) if (h[0] == u.first && h[1] == u.second) held = true;
                const osmium::OSMObject* p = nullptr;
                if (u.first == "n") p = mgr.get_member_node(u.second);
                else if (u.first == "w") p = mgr.get_member_way(u.second);
                else p = mgr.get_member_relation(u.second);
                if (held) {
                    if (!p) throw vh::Mismatch(k, "retrievable", "nullptr", "lookup of " + u.first + std::to_string(u.second) + " needed by a pending relation");
                    if (p->id() != u.second || p->type() != type_of(u.first)) throw vh::Mismatch(k, u.second, p->id(), "lookup returned a different object");
                } else if (p) {
                    throw vh::Mismatch(k, "absent (nullptr)", "non-null pointer", "lookup of " + u.first + std::to_string(u.second) + " which no pending relation needs");
                }
            }
        }
        ++k;
    }
}

int main() {
    return vh::run_cases([](const json& c) {
        bool n = false, w = false, r = false;
        for (const auto& t : c["wanted"]) {
            if (t == "n") n = true;
            if (t == "w") w = true;
            if (t == "r") r = true;
        }
        if (n && w && r) run_case_t<true, true, true>(c);
        else if (n && w) run_case_t<true, true, false>(c);
        else if (n && r) run_case_t<true, false, true>(c);
        else if (w && r) run_case_t<false, true, true>(c);
        else if (n) run_case_t<true, false, false>(c);
        else if (w) run_case_t<false, true, false>(c);
        else if (r) run_case_t<false, false, true>(c);
        else run_case_t<false, false, false>(c);
    });
}
