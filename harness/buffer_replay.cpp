// C04 replay: histories of builder/buffer API calls exported by TLC from specs/Buffer.tla are executed on the
// real osmium::memory::Buffer and builder classes; after every call the projection the property names
// (pending bytes, the committed item sequence with full content incl. nested blocks, purge callbacks,
// exception outcome) is compared with the spec's expectation.
#include "common/vh.hpp"

#include <osmium/builder/osm_object_builder.hpp>
#include <osmium/memory/buffer.hpp>
#include <osmium/osm.hpp>
#include <osmium/osm/changeset.hpp>

#include <cstring>
#include <memory>
#include <string>
#include <vector>

using vh::json;
using osmium::memory::Buffer;
namespace ob = osmium::builder;

static std::string gen(int len, int salt) {
    std::string s(static_cast<std::size_t>(len), 'x');
    for (int i = 0; i < len; ++i) s[i] = static_cast<char>('a' + (i * 7 + salt) % 26);
    return s;
}

static void expect_str(const char* got, int len, int salt, const char* what) {
    const std::string e = gen(len, salt);
    if (std::strlen(got) != e.size() || e != got) {
        throw vh::Mismatch(-10, e, std::string(got, strnlen(got, e.size() + 8)), what);
    }
}

// ---- projection: parse the committed items of a buffer into the spec's Content records -----------------

template <typename TObject>
static json parse_object_subs(const TObject& obj) {
    json subs = json::array();
    const unsigned char* const end = obj.data() + obj.padded_size();
    for (auto it = obj.cbegin(); it != obj.cend(); ++it) {
        if (it->data() + 8 > end || it->data() + it->padded_size() > end || it->byte_size() < 8) {
            throw vh::Mismatch(-11, "sub-item inside its object", "sub-item leaves the object");
        }
        json s;
        s["size"] = it->byte_size();
        json e = json::array();
        switch (it->type()) {
            case osmium::item_type::tag_list: {
                s["t"] = "taglist";
                int idx = 0;
                for (const auto& tag : static_cast<const osmium::TagList&>(*it)) {
                    const int kl = static_cast<int>(std::strlen(tag.key()));
                    const int vl = static_cast<int>(std::strlen(tag.value()));
                    expect_str(tag.key(), kl, 2 * idx, "tag key bytes");
                    expect_str(tag.value(), vl, 2 * idx + 1, "tag value bytes");
                    e.push_back(json::array({kl, vl}));
                    ++idx;
                }
                break;
            }
            case osmium::item_type::way_node_list: {
                s["t"] = "nodes";
                int idx = 0;
                for (const auto& nr : static_cast<const osmium::WayNodeList&>(*it)) {
                    if (nr.ref() == 0 && it->byte_size() == 8 + 32 && idx < 2) {
                        // the pre-built way of the second buffer uses refs 0
                    } else if (nr.ref() != idx + 1 || nr.location() != osmium::Location{static_cast<int32_t>(idx), static_cast<int32_t>(idx)}) {
                        throw vh::Mismatch(-10, idx + 1, nr.ref(), "node ref content");
                    }
                    e.push_back(0);
                    ++idx;
                }
                break;
            }
            case osmium::item_type::relation_member_list: {
                s["t"] = "members";
                int idx = 0;
                for (const auto& m : static_cast<const osmium::RelationMemberList&>(*it)) {
                    const int rl = static_cast<int>(std::strlen(m.role()));
                    expect_str(m.role(), rl, idx, "role bytes");
                    if (m.ref() != 1000 + idx || m.type() != osmium::item_type::node) {
                        throw vh::Mismatch(-10, 1000 + idx, m.ref(), "member ref/type");
                    }
                    json jm;
                    jm["rl"] = rl;
                    if (m.full_member()) {
                        jm["full"] = m.get_object().padded_size();
                        jm["fid"] = m.get_object().id();
                    } else {
                        jm["full"] = 0;
                        jm["fid"] = 0;
                    }
                    e.push_back(jm);
                    ++idx;
                }
                break;
            }
            case osmium::item_type::changeset_discussion: {
                s["t"] = "disc";
                int idx = 0;
                for (const auto& c : static_cast<const osmium::ChangesetDiscussion&>(*it)) {
                    const int ul = static_cast<int>(std::strlen(c.user()));
                    const int tl = static_cast<int>(std::strlen(c.text()));
                    expect_str(c.user(), ul, idx, "comment user bytes");
                    expect_str(c.text(), tl, idx + 100, "comment text bytes");
                    if (c.uid() != static_cast<osmium::user_id_type>(idx + 7) || c.date() != osmium::Timestamp{static_cast<uint32_t>(idx + 1)}) {
                        throw vh::Mismatch(-10, idx + 7, c.uid(), "comment uid/date");
                    }
                    e.push_back(json::array({ul, tl}));
                    ++idx;
                }
                break;
            }
            default:
                s["t"] = std::string("unexpected:") + osmium::item_type_to_name(it->type());
        }
        s["e"] = e;
        subs.push_back(s);
    }
    return subs;
}

struct ParsedItem { json content; std::size_t offset; std::size_t psize; bool removed; };

static std::vector<ParsedItem> parse_block(const unsigned char* data, std::size_t committed) {
    std::vector<ParsedItem> out;
    std::size_t off = 0;
    while (off < committed) {
        if (off % 8 != 0) throw vh::Mismatch(-11, 0, off % 8, "item not 8-byte aligned");
        const auto& item = *reinterpret_cast<const osmium::memory::Item*>(data + off);
        const std::size_t ps = item.padded_size();
        if (ps < 8 || off + ps > committed) {
            throw vh::Mismatch(-11, committed, off + ps, "item sequence leaves the committed region");
        }
        json c;
        c["removed"] = item.removed();
        switch (item.type()) {
            case osmium::item_type::node:
            case osmium::item_type::way:
            case osmium::item_type::relation: {
                const auto& o = static_cast<const osmium::OSMObject&>(item);
                c["t"] = osmium::item_type_to_name(item.type());
                c["id"] = o.id();
                const int ul = static_cast<int>(std::strlen(o.user()));
                if (o.id() < 900) expect_str(o.user(), ul, static_cast<int>(o.id()), "user bytes");
                c["ul"] = ul;
                c["subs"] = parse_object_subs(o);
                break;
            }
            case osmium::item_type::changeset: {
                const auto& o = static_cast<const osmium::Changeset&>(item);
                c["t"] = "changeset";
                c["id"] = o.id();
                const int ul = static_cast<int>(std::strlen(o.user()));
                expect_str(o.user(), ul, static_cast<int>(o.id()), "user bytes");
                c["ul"] = ul;
                c["subs"] = parse_object_subs(o);
                break;
            }
            default:
                c["t"] = std::string("unexpected:") + osmium::item_type_to_name(item.type());
        }
        out.push_back(ParsedItem{c, off, ps, item.removed()});
        off += ps;
    }
    return out;
}

// ---- the system under test ---------------------------------------------------------------------------

struct Side {
    Buffer buf;
    std::vector<json> delivered;   // content of nested blocks already taken out, oldest first
};

static void drain_nested(Side& s) {
    while (s.buf.has_nested_buffers()) {
        std::unique_ptr<Buffer> nb = s.buf.get_last_nested();
        for (auto& p : parse_block(nb->data(), nb->committed())) s.delivered.push_back(p.content);
    }
}

struct Builders {
    std::unique_ptr<ob::NodeBuilder> node;
    std::unique_ptr<ob::WayBuilder> way;
    std::unique_ptr<ob::RelationBuilder> relation;
    std::unique_ptr<ob::ChangesetBuilder> changeset;
    std::unique_ptr<ob::TagListBuilder> tags;
    std::unique_ptr<ob::WayNodeListBuilder> nodes;
    std::unique_ptr<ob::RelationMemberListBuilder> members;
    std::unique_ptr<ob::ChangesetDiscussionBuilder> disc;
    int64_t id = 0;
    int nelem = 0;
    ob::Builder* object() {
        if (node) return node.get();
        if (way) return way.get();
        if (relation) return relation.get();
        return changeset.get();
    }
    void close_sub() { tags.reset(); nodes.reset(); members.reset(); disc.reset(); }
    void close_object() { close_sub(); node.reset(); way.reset(); relation.reset(); changeset.reset(); }
};

struct PurgeCb {
    std::vector<std::pair<std::size_t, std::size_t>> log;
    void moving_in_buffer(std::size_t o, std::size_t n) { log.emplace_back(o, n); }
};

static Buffer::auto_grow mode_of(const std::string& m) {
    return m == "no" ? Buffer::auto_grow::no : m == "yes" ? Buffer::auto_grow::yes : Buffer::auto_grow::internal;
}

static void build_other(Buffer& o) {
    {
        ob::NodeBuilder nb{o};
        nb.set_id(900);
    }
    o.commit();
    {
        ob::WayBuilder wb{o};
        wb.set_id(901);
        wb.set_user("abcdef");
        ob::WayNodeListBuilder wnl{wb};
        wnl.add_node_ref(0);
        wnl.add_node_ref(0);
    }
    o.commit();
}

static void run_case(const json& c) {
    // layout constants the spec assumes
    static_assert(sizeof(osmium::Node) == 40 && sizeof(osmium::Way) == 32 && sizeof(osmium::Relation) == 32 &&
                  sizeof(osmium::Changeset) == 56 && sizeof(osmium::TagList) == 8 && sizeof(osmium::NodeRef) == 16 &&
                  sizeof(osmium::RelationMember) == 16 && sizeof(osmium::ChangesetComment) == 16, "spec constants");
    Side b{Buffer{c["cap"].get<std::size_t>(), mode_of(c["mode"])}, {}};
    Side oth{Buffer{256, Buffer::auto_grow::yes}, {}};
    build_other(oth.buf);
    Builders bs;
    const bool policy_free = true;
    int k = 0;
    try {
        for (const auto& st : c["steps"]) {
            vh::step_marker(k);
            const std::string a = st["a"];
            const json& args = st["args"];
            const json& exp = st["exp"];
            std::string out = "ok";
            std::vector<std::pair<std::size_t, std::size_t>> plog;
            std::vector<ParsedItem> before;
            bool purged = false;
            try {
                if (a == "OpenObject") {
                    const std::string kind = args["k"];
                    bs.id = args["id"];
                    if (kind == "node") { bs.node.reset(new ob::NodeBuilder{b.buf}); bs.node->set_id(bs.id); }
                    else if (kind == "way") { bs.way.reset(new ob::WayBuilder{b.buf}); bs.way->set_id(bs.id); }
                    else if (kind == "relation") { bs.relation.reset(new ob::RelationBuilder{b.buf}); bs.relation->set_id(bs.id); }
                    else { bs.changeset.reset(new ob::ChangesetBuilder{b.buf}); bs.changeset->set_id(static_cast<osmium::changeset_id_type>(bs.id)); }
                } else if (a == "SetUser") {
                    const std::string u = gen(args["ul"], static_cast<int>(bs.id));
                    if (bs.node) { if (k % 2) bs.node->set_user(u); else bs.node->set_user(u.c_str()); }
                    else if (bs.way) bs.way->set_user(u.c_str(), static_cast<osmium::string_size_type>(u.size()));
                    else if (bs.relation) bs.relation->set_user(u);
                    else { if (k % 2) bs.changeset->set_user(u); else bs.changeset->set_user(u.c_str()); }
                } else if (a == "OpenSub") {
                    const std::string kind = args["k"];
                    bs.nelem = 0;
                    if (kind == "taglist") {
                        if (k % 2) bs.tags.reset(new ob::TagListBuilder{*bs.object()});
                        else bs.tags.reset(new ob::TagListBuilder{b.buf, bs.object()});
                    } else if (kind == "nodes") bs.nodes.reset(new ob::WayNodeListBuilder{*bs.object()});
                    else if (kind == "members") bs.members.reset(new ob::RelationMemberListBuilder{*bs.object()});
                    else bs.disc.reset(new ob::ChangesetDiscussionBuilder{*bs.object()});
                } else if (a == "AddTag") {
                    const std::string key = gen(args["k"], 2 * bs.nelem);
                    const std::string val = gen(args["v"], 2 * bs.nelem + 1);
                    switch (bs.nelem % 3) {
                        case 0: bs.tags->add_tag(key.c_str(), val.c_str()); break;
                        case 1: bs.tags->add_tag(key.data(), key.size(), val.data(), val.size()); break;
                        default: bs.tags->add_tag(key, val); break;
                    }
                    ++bs.nelem;
                } else if (a == "AddNodeRef") {
                    bs.nodes->add_node_ref(osmium::NodeRef{bs.nelem + 1, osmium::Location{static_cast<int32_t>(bs.nelem), static_cast<int32_t>(bs.nelem)}});
                    ++bs.nelem;
                } else if (a == "AddMember") {
                    const std::string role = gen(args["rl"], bs.nelem);
                    const osmium::OSMObject* full = args["full"].get<bool>() ? &oth.buf.get<osmium::OSMObject>(0) : nullptr;
                    if (bs.nelem % 2) bs.members->add_member(osmium::item_type::node, 1000 + bs.nelem, role, full);
                    else bs.members->add_member(osmium::item_type::node, 1000 + bs.nelem, role.c_str(), full);
                    ++bs.nelem;
                } else if (a == "AddComment") {
                    const std::string user = gen(args["ul"], bs.nelem);
                    bs.disc->add_comment(osmium::Timestamp{static_cast<uint32_t>(bs.nelem + 1)}, static_cast<osmium::user_id_type>(bs.nelem + 7), user.c_str());
                } else if (a == "AddCommentText") {
                    const std::string text = gen(args["tl"], bs.nelem + 100);
                    if (bs.nelem % 2) bs.disc->add_comment_text(text); else bs.disc->add_comment_text(text.c_str());
                    ++bs.nelem;
                } else if (a == "CloseSub") {
                    bs.close_sub();
                } else if (a == "CloseObject") {
                    bs.close_object();
                } else if (a == "Commit") {
                    const std::size_t ret = b.buf.commit();
                    if (c["mode"] != "internal") VH_EXPECT(k, st["cret"].get<std::size_t>(), ret, "value returned by commit()");
                } else if (a == "Rollback") {
                    b.buf.rollback();
                } else if (a == "Clear") {
                    const std::size_t ret = b.buf.clear();
                    if (c["mode"] != "internal") VH_EXPECT(k, st["cret"].get<std::size_t>(), ret, "value returned by clear()");
                } else if (a == "AddBuffer") {
                    b.buf.add_buffer(oth.buf);
                } else if (a == "PushBack") {
                    // the last committed item of the other buffer
                    auto items = parse_block(oth.buf.data(), oth.buf.committed());
                    b.buf.push_back(oth.buf.get<osmium::memory::Item>(items.back().offset));
                } else if (a == "SetRemoved") {
                    auto items = parse_block(b.buf.data(), b.buf.committed());
                    const std::size_t i = args["i"].get<std::size_t>();
                    if (i > items.size()) throw vh::Mismatch(k, i, items.size(), "current block has fewer items than the spec says");
                    b.buf.get<osmium::memory::Item>(items[i - 1].offset).set_removed(true);
                } else if (a == "Purge") {
                    before = parse_block(b.buf.data(), b.buf.committed());
                    PurgeCb cb;
                    if (k % 2) {
                        b.buf.purge_removed(&cb);
                        plog = cb.log;
                        purged = true;
                    } else {
                        b.buf.purge_removed();
                    }
                } else if (a == "Swap") {
                    if (k % 2) b.buf.swap(oth.buf); else { using std::swap; swap(b.buf, oth.buf); }
                    std::swap(b.delivered, oth.delivered);
                } else if (a == "Move") {
                    Buffer tmp{std::move(b.buf)};
                    if (b.buf) throw vh::Mismatch(k, "moved-from buffer invalid", "still valid");
                    b.buf = std::move(tmp);
                } else {
                    throw vh::Mismatch(k, "known action", a);
                }
            } catch (const osmium::buffer_is_full&) {
                out = "full";
            }
            VH_EXPECT(k, exp["out"].get<std::string>(), out, "outcome of " + a);
            drain_nested(b);
            VH_EXPECT(k, exp["pb"].get<std::size_t>(), b.buf.written() - b.buf.committed(), "written - committed after " + a);
            if (b.buf.committed() > b.buf.written() || b.buf.written() > b.buf.capacity() || b.buf.committed() % 8 != 0) {
                throw vh::Mismatch(k, "committed <= written <= capacity, aligned", "violated");
            }
            json all = json::array();
            for (const auto& d : b.delivered) all.push_back(d);
            auto cur = parse_block(b.buf.data(), b.buf.committed());
            for (const auto& p : cur) all.push_back(p.content);
            if (all != exp["all"]) throw vh::Mismatch(k, exp["all"], all, "committed item sequence after " + a);
            if (purged) {
                // the callbacks are exactly the kept items that changed position (old offset, new offset), in order
                std::vector<std::pair<std::size_t, std::size_t>> want;
                std::size_t wr = 0;
                for (const auto& p : before) {
                    if (!p.removed) {
                        if (p.offset != wr) want.emplace_back(p.offset, wr);
                        wr += p.psize;
                    }
                }
                if (want != plog) throw vh::Mismatch(k, json(want), json(plog), "purge_removed callbacks vs actual item moves");
                if (policy_free && c["mode"] != "internal") {
                    json jl = json::array();
                    for (const auto& p : plog) jl.push_back(json::array({p.first, p.second}));
                    if (jl != st["plog"]) throw vh::Mismatch(k, st["plog"], jl, "purge_removed callbacks vs spec");
                }
            }
            ++k;
        }
    } catch (...) {
        bs.close_object();
        throw;
    }
    bs.close_object();
}

int main() {
    return vh::run_cases(run_case);
}
