// C20 (extension) replay: cases exported by TLC from specs/TagRules.tla are executed on the real rule-list filters:
// osmium::tags::KeyFilter / KeyValueFilter / KeyPrefixFilter, osmium::TagsFilter, osmium::TagMatcher,
// osmium::StringMatcher, the filter iterator and match_any_of / match_all_of / match_none_of, on a real TagList in a
// Buffer.  Every value compared comes out of the case (computed by the spec): the boolean per tag, the filtered
// sequence, the count, the three quantifiers, every rule's matcher on every tag and on the whole list, every
// StringMatcher on every key and value.
//
// Steps: 0 count()/empty(); 1+i filter(tag i); 100 traversal with ++it; 101 traversal with it++ (only with
// -DC20X_POSTINC); 102 std::distance / std::count_if; 103 match_*_of; 104 copies of the filter; 200+j rule j's matcher
// on tags and on the list; 300+j rule j's StringMatchers.
#include "common/vh.hpp"

#include <osmium/builder/osm_object_builder.hpp>
#include <osmium/memory/buffer.hpp>
#include <osmium/osm/tag.hpp>
#include <osmium/tags/filter.hpp>
#include <osmium/tags/matcher.hpp>
#include <osmium/tags/taglist.hpp>
#include <osmium/tags/tags_filter.hpp>
#include <osmium/util/string_matcher.hpp>

#include <algorithm>
#include <functional>
#include <iterator>
#include <regex>
#include <string>
#include <utility>
#include <vector>

using vh::json;

namespace {

struct TagListInBuffer {
    osmium::memory::Buffer buffer{1024, osmium::memory::Buffer::auto_grow::yes};
    const osmium::TagList* list = nullptr;
    std::vector<const osmium::Tag*> addr;
    std::vector<std::pair<std::string, std::string>> kv;

    explicit TagListInBuffer(const json& tags) {
        for (const auto& t : tags) kv.emplace_back(t["k"].get<std::string>(), t["v"].get<std::string>());
        {
            osmium::builder::TagListBuilder builder{buffer};
            for (const auto& p : kv) builder.add_tag(p.first.c_str(), p.second.c_str());
        }
        buffer.commit();
        list = &buffer.get<osmium::TagList>(0);
        for (const auto& tag : *list) addr.push_back(&tag);
        if (addr.size() != kv.size()) throw vh::Mismatch(-2, kv.size(), addr.size(), "harness: TagList has another size than the case");
        for (std::size_t i = 0; i < kv.size(); ++i) {
            if (kv[i].first != addr[i]->key() || kv[i].second != addr[i]->value())
                throw vh::Mismatch(-2, kv[i].first + "=" + kv[i].second, std::string(addr[i]->key()) + "=" + addr[i]->value(), "harness: TagList content");
        }
    }

    int index_of(const osmium::Tag* p) const {
        for (std::size_t i = 0; i < addr.size(); ++i) if (addr[i] == p) return static_cast<int>(i) + 1;
        return -1;
    }
};

std::string pattern_of(const json& m) {
    return std::string(m["as"].get<bool>() ? "^" : "") + m["s"].get<std::string>() + (m["ae"].get<bool>() ? "$" : "");
}

std::vector<std::string> strings_of(const json& m) {
    std::vector<std::string> v;
    for (const auto& s : m["ss"]) v.push_back(s.get<std::string>());
    return v;
}

// the StringMatcher the template describes, made through the constructor the template names (copy-initialisation:
// the converting constructors are the documented shortcuts)
osmium::StringMatcher make_sm(const json& m) {
    const std::string c = m["c"];
    const std::string k = m["k"];
    const std::string s = m["s"];
    if (c == "default") { return osmium::StringMatcher{}; }
    if (c == "bool") { const bool b = (k == "true"); osmium::StringMatcher x = b; return x; }
    if (c == "cstr") { const char* p = s.c_str(); osmium::StringMatcher x = p; return x; }
    if (c == "string") { osmium::StringMatcher x = s; return x; }
    if (c == "vector") { const std::vector<std::string> v = strings_of(m); osmium::StringMatcher x = v; return x; }
    if (c == "regex") { const std::regex r{pattern_of(m)}; osmium::StringMatcher x = r; return x; }
    if (c == "list_add") {
        osmium::StringMatcher::list l;
        bool flip = false;
        for (const auto& str : strings_of(m)) {
            if (flip) l.add_string(str); else l.add_string(str.c_str());
            flip = !flip;
        }
        osmium::StringMatcher x = std::move(l);    // (an lvalue matcher object is not accepted by the converting constructor)
        return x;
    }
    if (c == "class") {
        if (k == "false") { osmium::StringMatcher x = osmium::StringMatcher::always_false{}; return x; }
        if (k == "true") { osmium::StringMatcher x = osmium::StringMatcher::always_true{}; return x; }
        if (k == "equal") { osmium::StringMatcher x = osmium::StringMatcher::equal{s}; return x; }
        if (k == "prefix") { osmium::StringMatcher x = osmium::StringMatcher::prefix{s.c_str()}; return x; }
        if (k == "substring") { osmium::StringMatcher x = osmium::StringMatcher::substring{s}; return x; }
        if (k == "regex") { osmium::StringMatcher x = osmium::StringMatcher::regex{std::regex{pattern_of(m)}}; return x; }
        if (k == "list") { osmium::StringMatcher x = osmium::StringMatcher::list{strings_of(m)}; return x; }
    }
    throw vh::Mismatch(-2, "known StringMatcher template", m, "harness");
}

osmium::TagMatcher make_tm(const json& r) {
    const std::string tmc = r["tmc"];
    if (tmc == "default") return osmium::TagMatcher{};
    if (tmc == "key") return osmium::TagMatcher{make_sm(r["km"])};
    if (tmc == "kv") return osmium::TagMatcher{make_sm(r["km"]), make_sm(r["vm"])};
    if (tmc == "kvi") return osmium::TagMatcher{make_sm(r["km"]), make_sm(r["vm"]), r["inv"].get<bool>()};
    throw vh::Mismatch(-2, "known TagMatcher template", r, "harness");
}

// ---- building the filters
void add_rule(osmium::tags::KeyFilter& f, const json& r) {
    f.add(r["res"].get<bool>(), r["key"].get<std::string>());
}
void add_rule(osmium::tags::KeyPrefixFilter& f, const json& r) {
    f.add(r["res"].get<bool>(), r["key"].get<std::string>());
}
void add_rule(osmium::tags::KeyValueFilter& f, const json& r) {
    if (r["ign"].get<bool>()) f.add(r["res"].get<bool>(), r["key"].get<std::string>());
    else f.add(r["res"].get<bool>(), r["key"].get<std::string>(), r["val"].get<std::string>());
}
void add_rule(osmium::TagsFilter& f, const json& r) {
    f.add_rule(r["res"].get<bool>(), make_tm(r));
}
// second way of filling a TagsFilter: the forwarding add_rule(result, args...) that constructs the TagMatcher itself
void add_rule_fwd(osmium::TagsFilter& f, const json& r) {
    const std::string tmc = r["tmc"];
    const bool res = r["res"];
    const bool cstr_k = r["km"]["c"] == "cstr";
    const bool cstr_v = r["vm"]["c"] == "cstr";
    const std::string ks = r["km"]["s"];
    const std::string vs = r["vm"]["s"];
    if (tmc == "default") f.add_rule(res, osmium::TagMatcher{});
    else if (tmc == "key") { if (cstr_k) f.add_rule(res, ks.c_str()); else f.add_rule(res, make_sm(r["km"])); }
    else if (tmc == "kv") {
        if (cstr_k && cstr_v) f.add_rule(res, ks.c_str(), vs.c_str());
        else if (cstr_v) f.add_rule(res, make_sm(r["km"]), vs.c_str());
        else f.add_rule(res, make_sm(r["km"]), make_sm(r["vm"]));
    } else f.add_rule(res, make_sm(r["km"]), make_sm(r["vm"]), r["inv"].get<bool>());
}

template <typename TFilter>
void check_per_tag(const TFilter& f, const TagListInBuffer& tl, const json& c, const char* how) {
    std::vector<bool> got;
    int i = 0;
    for (const auto* tag : tl.addr) {
        vh::step_marker(1 + i);
        const bool b = f(*tag);
        if (b != c["res"][i].get<bool>()) throw vh::Mismatch(1 + i, c["res"][i], b, std::string("filter(tag) ") + how + " for tag " + tl.kv[i].first + "=" + tl.kv[i].second);
        ++i;
    }
}

template <typename TFilter>
void check_iteration(const TFilter& f, const TagListInBuffer& tl, const json& c, const char* how) {
    using iterator = typename TFilter::iterator;
    const std::vector<int> want = c["out"].get<std::vector<int>>();
    const std::size_t limit = tl.addr.size() + 3;
    {
        vh::step_marker(100);
        iterator it{f, tl.list->begin(), tl.list->end()};
        const iterator end{f, tl.list->end(), tl.list->end()};
        if ((it == end) != want.empty() || (it != end) == want.empty())
            throw vh::Mismatch(100, want.empty(), it == end, std::string("filter begin == filter end ") + how);
        std::vector<int> got;
        for (; it != end && got.size() < limit; ++it) {
            got.push_back(tl.index_of(&*it));
            if (got.back() > 0 && it->key() != tl.addr[static_cast<std::size_t>(got.back()) - 1]->key()) got.back() = -2;
        }
        if (got != want) throw vh::Mismatch(100, want, got, std::string("tags yielded by the filter iterator (++it) ") + how);
    }
#ifdef C20X_POSTINC
    {
        vh::step_marker(101);
        iterator it{f, tl.list->cbegin(), tl.list->cend()};
        const iterator end{f, tl.list->cend(), tl.list->cend()};
        std::vector<int> got;
        while (it != end && got.size() < limit) {
            const iterator old = it++;
            got.push_back(tl.index_of(&*old));
        }
        if (got != want) throw vh::Mismatch(101, want, got, std::string("tags yielded by the filter iterator (it++) ") + how);
    }
#endif
    {
        vh::step_marker(102);
        // as area/assembler_legacy.hpp does it: the filter handed over through std::cref
        const iterator b{std::cref(f), tl.list->cbegin(), tl.list->cend()};
        const iterator e{std::cref(f), tl.list->cend(), tl.list->cend()};
        const long d = static_cast<long>(std::distance(b, e));
        VH_EXPECT(102, c["cnt"].get<long>(), d, std::string("std::distance(filter begin, filter end) ") + how);
        const long n = static_cast<long>(std::count_if(tl.list->cbegin(), tl.list->cend(), std::cref(f)));
        VH_EXPECT(102, c["cnt"].get<long>(), n, std::string("std::count_if(tags, filter) ") + how);
    }
    {
        vh::step_marker(103);
        VH_EXPECT(103, c["any"].get<bool>(), osmium::tags::match_any_of(*tl.list, f), std::string("match_any_of ") + how);
        VH_EXPECT(103, c["all"].get<bool>(), osmium::tags::match_all_of(*tl.list, f), std::string("match_all_of ") + how);
        VH_EXPECT(103, c["none"].get<bool>(), osmium::tags::match_none_of(*tl.list, f), std::string("match_none_of ") + how);
    }
}

template <typename TFilter>
void check_filter(const TFilter& f, const TagListInBuffer& tl, const json& c, const char* how) {
    vh::step_marker(0);
    VH_EXPECT(0, c["rules"].size(), f.count(), std::string("count() ") + how);
    VH_EXPECT(0, c["rules"].empty(), f.empty(), std::string("empty() ") + how);
    check_per_tag(f, tl, c, how);
    check_iteration(f, tl, c, how);
}

template <typename TFilter>
void run_legacy(const json& c, const TagListInBuffer& tl) {
    TFilter f{c["dflt"].get<bool>()};
    for (const auto& r : c["rules"]) add_rule(f, r);
    check_filter(f, tl, c, "");
    {
        vh::step_marker(104);
        const TFilter copy{f};
        check_filter(copy, tl, c, "(copy of the filter)");
    }
    // every rule's matcher alone: a filter with this one rule saying true, default false
    int j = 0;
    for (const auto& r : c["rules"]) {
        vh::step_marker(200 + j);
        TFilter one{false};
        json r1 = r;
        r1["res"] = true;
        add_rule(one, r1);
        bool any = false;
        for (std::size_t i = 0; i < tl.addr.size(); ++i) {
            const bool b = one(*tl.addr[i]);
            any = any || b;
            if (b != c["mm"][j][i].get<bool>()) throw vh::Mismatch(200 + j, c["mm"][j][i], b, "rule " + r.dump() + " alone on tag " + tl.kv[i].first + "=" + tl.kv[i].second);
        }
        VH_EXPECT(200 + j, c["tl"][j].get<bool>(), osmium::tags::match_any_of(*tl.list, one), "rule " + r.dump() + " alone on the whole list");
        (void)any;
        ++j;
    }
}

void run_tagsfilter(const json& c, const TagListInBuffer& tl) {
    const bool dflt = c["dflt"];
    osmium::TagsFilter f{dflt};
    for (const auto& r : c["rules"]) add_rule(f, r);
    check_filter(f, tl, c, "");
    {
        vh::step_marker(104);
        osmium::TagsFilter f2;                       // default constructed (false), then set_default_result()
        if (dflt) f2.set_default_result(true);
        for (const auto& r : c["rules"]) add_rule_fwd(f2, r);
        check_filter(f2, tl, c, "(filter filled through add_rule(result, args...))");
        osmium::TagsFilter f3{!dflt};
        f3 = f;                                      // copy assignment replaces rules and default
        check_filter(f3, tl, c, "(copy assigned filter)");
    }
    int j = 0;
    for (const auto& r : c["rules"]) {
        vh::step_marker(200 + j);
        const osmium::TagMatcher tm = make_tm(r);
        const std::string tmc = r["tmc"];
        VH_EXPECT(200 + j, tmc == "kv" || tmc == "kvi", tm.has_value_matcher(), "has_value_matcher() of " + r.dump());
        for (std::size_t i = 0; i < tl.addr.size(); ++i) {
            const bool want = c["mm"][j][i];
            const bool b1 = tm(*tl.addr[i]);
            const bool b2 = tm(tl.addr[i]->key(), tl.addr[i]->value());
            if (b1 != want || b2 != want) throw vh::Mismatch(200 + j, want, b1 != want ? b1 : b2, "TagMatcher " + r.dump() + " on tag " + tl.kv[i].first + "=" + tl.kv[i].second);
        }
        VH_EXPECT(200 + j, c["tl"][j].get<bool>(), tm(*tl.list), "TagMatcher " + r.dump() + " on the whole TagList");
        vh::step_marker(300 + j);
        if (tmc != "default") {
            const osmium::StringMatcher km = make_sm(r["km"]);
            const osmium::StringMatcher vm = make_sm(r["vm"]);
            for (std::size_t i = 0; i < tl.addr.size(); ++i) {
                const bool wk = c["km"][j][i];
                const bool wv = c["vm"][j][i];
                const bool k1 = km(tl.addr[i]->key());
                const bool k2 = km(tl.kv[i].first);
                if (k1 != wk || k2 != wk) throw vh::Mismatch(300 + j, wk, k1 != wk ? k1 : k2, "StringMatcher " + r["km"].dump() + " on '" + tl.kv[i].first + "'");
                if (tmc != "key") {
                    const bool v1 = vm(tl.addr[i]->value());
                    const bool v2 = vm(tl.kv[i].second);
                    if (v1 != wv || v2 != wv) throw vh::Mismatch(300 + j, wv, v1 != wv ? v1 : v2, "StringMatcher " + r["vm"].dump() + " on '" + tl.kv[i].second + "'");
                }
            }
        }
        ++j;
    }
}

void run_case(const json& c) {
    const TagListInBuffer tl{c["tags"]};
    const std::string fam = c["fam"];
    if (fam == "KF") run_legacy<osmium::tags::KeyFilter>(c, tl);
    else if (fam == "KVF") run_legacy<osmium::tags::KeyValueFilter>(c, tl);
    else if (fam == "KPF") run_legacy<osmium::tags::KeyPrefixFilter>(c, tl);
    else if (fam == "TF") run_tagsfilter(c, tl);
    else throw vh::Mismatch(-2, "known family", fam, "harness");
}

} // namespace

int main() {
    return vh::run_cases(run_case);
}
