// C12 replay: histories exported by TLC from specs/IndexDense.tla, IndexSparse.tla, IndexFlexMem.tla (A-layer in
// IndexMap.tla) and NodeLocWays.tla are executed on every registered id-to-location index created through
// osmium::index::MapFactory, and on osmium::handler::NodeLocationsForWays.  After every step at which the spec says
// lookups are defined every probe id is looked up with get() and get_noexcept() and compared with the spec's table;
// dump_as_list / dump_as_array output is compared byte-wise with the spec's file and loaded again through
// create_map_with_fd (sparse_file_array / dense_file_array).
#include "common/vh.hpp"

#include <osmium/index/map/all.hpp>
#include <osmium/index/node_locations_map.hpp>
#include <osmium/handler/node_locations_for_ways.hpp>
#include <osmium/builder/osm_object_builder.hpp>
#include <osmium/memory/buffer.hpp>
#include <osmium/osm/location.hpp>
#include <osmium/osm/node.hpp>
#include <osmium/osm/way.hpp>

#include <algorithm>
#include <cstdint>
#include <cstdio>
#include <cstring>
#include <fcntl.h>
#include <fstream>
#include <map>
#include <memory>
#include <string>
#include <sys/stat.h>
#include <unistd.h>
#include <utility>
#include <vector>

using vh::json;
using uid_t64 = osmium::unsigned_object_id_type;
using Loc = osmium::Location;
using MapT = osmium::index::map::Map<uid_t64, Loc>;
using Factory = osmium::index::MapFactory<uid_t64, Loc>;
using FlexT = osmium::index::map::FlexMem<uid_t64, Loc>;

// ---------------------------------------------------------------- model id -> real id, model value -> Location

static const int64_t HUGE_BASE = 1LL << 30;
// order preserving images of the model ids HUGE_BASE + k
static const uint64_t HUGE_TAB[] = {4294967295ULL, 4294967296ULL, 4294967297ULL, 4294967296ULL + 65537ULL, 1ULL << 40,
                                    (1ULL << 62) + 1, (1ULL << 62) + 2, (1ULL << 63) - 1};

static uint64_t real_id(int64_t mid) {
    if (mid < HUGE_BASE) return static_cast<uint64_t>(mid);
    const int64_t k = mid - HUGE_BASE;
    if (k >= static_cast<int64_t>(sizeof(HUGE_TAB) / sizeof(HUGE_TAB[0]))) throw vh::Mismatch(-1, "known huge id token", mid);
    return HUGE_TAB[k];
}

static int64_t real_signed(int64_t mid) {
    const int64_t a = mid < 0 ? -mid : mid;
    const int64_t r = static_cast<int64_t>(real_id(a));
    return mid < 0 ? -r : r;
}

// Value k of the spec (ordinal of the insertion) stored under model id `mid`.  The first value is Location{0, 0}: a
// valid location whose bytes are all zero (fresh mmap pages must not be mistaken for it, nor it for "empty").
static Loc make_loc(int64_t mid, int64_t v) {
    if (v == 0) return Loc{};
    if (v == 1) return Loc{static_cast<int32_t>(0), static_cast<int32_t>(0)};
    return Loc{static_cast<int32_t>(v * 10), static_cast<int32_t>((mid % 977) - 400)};
}

static json loc_json(const Loc& l) {
    if (l == Loc{}) return "empty";
    return json::array({l.x(), l.y()});
}

// ---------------------------------------------------------------- scratch files

static std::string tmp_dir() {
    const char* d = std::getenv("VH_TMPDIR");
    return d ? d : "/tmp";
}

struct Scratch {
    std::vector<std::string> files;
    std::string fresh() {
        static int counter = 0;
        std::string p = tmp_dir() + "/c12_" + std::to_string(::getpid()) + "_" + std::to_string(++counter) + ".idx";
        ::unlink(p.c_str());
        files.push_back(p);
        return p;
    }
    ~Scratch() {
        for (const auto& f : files) ::unlink(f.c_str());
    }
};

static std::vector<char> slurp(const std::string& path) {
    const int fd = ::open(path.c_str(), O_RDONLY);
    if (fd < 0) throw std::runtime_error{"can not open " + path};
    struct stat st{};
    ::fstat(fd, &st);
    std::vector<char> data(static_cast<std::size_t>(st.st_size));
    std::size_t off = 0;
    while (off < data.size()) {
        const ssize_t n = ::read(fd, data.data() + off, data.size() - off);
        if (n <= 0) break;
        off += static_cast<std::size_t>(n);
    }
    ::close(fd);
    data.resize(off);
    return data;
}

struct Fd {
    int fd;
    explicit Fd(const std::string& path) : fd(::open(path.c_str(), O_CREAT | O_RDWR | O_TRUNC, 0644)) {
        if (fd < 0) throw std::runtime_error{"can not create scratch file " + path};
    }
    ~Fd() { ::close(fd); }
};

// ---------------------------------------------------------------- one index object under test

struct Obj {
    std::string variant;   // as listed in the case
    std::string cls;       // "dense" | "sparse" | "stdmap" | "flex"
    std::string path;      // named backing file (file arrays only)
    bool via_map = false;  // the pairs went through a std::map (their order is not the order of the spec's vector)
    std::unique_ptr<MapT> m;
};

static std::string class_of(const std::string& type) {
    if (type.compare(0, 6, "dense_") == 0) return "dense";
    if (type == "sparse_mem_map") return "stdmap";
    if (type == "flex_mem") return "flex";
    return "sparse";
}

static Obj create(const std::string& variant, Scratch& scratch) {
    Obj o;
    o.variant = variant;
    std::string type = variant;
    bool named = false;
    const auto at = variant.find('@');
    if (at != std::string::npos) {
        type = variant.substr(0, at);
        named = true;
    }
    o.cls = class_of(type);
    if (!Factory::instance().has_map_type(type)) throw vh::Mismatch(-1, "map type registered with the factory", type);
    if (named) {
        o.path = scratch.fresh();
        o.m = Factory::instance().create_map(type + "," + o.path);     // create_map_with_fd on a new file
    } else {
        o.m = Factory::instance().create_map(type);
    }
    return o;
}

static void probe(const Obj& o, const json& tab, int k, const std::string& what, std::vector<int64_t>* answers) {
    for (const auto& pr : tab) {
        const int64_t mid = pr[0];
        const int64_t v = pr[1];
        const uint64_t id = real_id(mid);
        const Loc want = make_loc(mid, v);
        const Loc got = o.m->get_noexcept(id);
        if (!(got == want)) {
            throw vh::Mismatch(k, loc_json(want), loc_json(got), "type=" + o.variant + " get_noexcept(" + std::to_string(id) + ") " + what);
        }
        bool nf = false;
        Loc got2;
        try {
            got2 = o.m->get(id);
        } catch (const osmium::not_found&) {
            nf = true;
        }
        if (nf != (v == 0)) {
            throw vh::Mismatch(k, v == 0 ? json("not_found") : loc_json(want), nf ? json("not_found") : loc_json(got2),
                               "type=" + o.variant + " get(" + std::to_string(id) + ") " + what);
        }
        if (!nf && !(got2 == want)) {
            throw vh::Mismatch(k, loc_json(want), loc_json(got2), "type=" + o.variant + " get(" + std::to_string(id) + ") " + what);
        }
        if (answers) answers->push_back(v == 0 ? -1 : (static_cast<int64_t>(got.x()) << 32) ^ got.y());
    }
}

// dump_as_array: n slots of sizeof(Location); slot id = value, all others the empty value
static void check_array_file(const std::string& path, const json& f, int k, const std::string& who) {
    const std::vector<char> data = slurp(path);
    const std::size_t n = f["n"];
    if (data.size() != n * sizeof(Loc)) {
        throw vh::Mismatch(k, n * sizeof(Loc), data.size(), who + " dump_as_array: file size in bytes");
    }
    std::map<uint64_t, Loc> want;
    for (const auto& pr : f["vals"]) want[real_id(pr[0])] = make_loc(pr[0], pr[1]);
    const Loc empty{};
    uint64_t empty_bits = 0;
    static_assert(sizeof(Loc) == sizeof(uint64_t), "layout of the array file");
    std::memcpy(&empty_bits, &empty, sizeof(empty_bits));
    auto it = want.begin();
    const char* base = data.data();
    for (std::size_t i = 0; i < n; ++i) {
        uint64_t bits = 0;
        std::memcpy(&bits, base + i * sizeof(Loc), sizeof(bits));
        const bool expected_here = it != want.end() && it->first == i;
        if (!expected_here && bits == empty_bits) continue;
        Loc got;
        std::memcpy(&got, &bits, sizeof(Loc));
        if (expected_here) {
            if (!(got == it->second)) throw vh::Mismatch(k, loc_json(it->second), loc_json(got), who + " dump_as_array: slot " + std::to_string(i));
            ++it;
        } else {
            throw vh::Mismatch(k, "empty", loc_json(got), who + " dump_as_array: slot " + std::to_string(i) + " was never set");
        }
    }
    if (it != want.end()) throw vh::Mismatch(k, it->first, n, who + " dump_as_array: id beyond the end of the file");
}

// dump_as_list: n pairs <id, Location> in the order of the vector (std::map: ascending)
static void check_list_file(const std::string& path, const json& f, bool sorted, int k, const std::string& who) {
    using pair_t = std::pair<uint64_t, Loc>;
    static_assert(sizeof(pair_t) == 16, "layout of the list file");
    const std::vector<char> data = slurp(path);
    std::vector<std::pair<uint64_t, Loc>> want;
    for (const auto& pr : f["vals"]) want.emplace_back(real_id(pr[0]), make_loc(pr[0], pr[1]));
    if (data.size() != want.size() * sizeof(pair_t)) {
        throw vh::Mismatch(k, want.size() * sizeof(pair_t), data.size(), who + " dump_as_list: file size in bytes");
    }
    std::vector<std::pair<uint64_t, Loc>> have;
    for (std::size_t i = 0; i < want.size(); ++i) {
        uint64_t id = 0;
        Loc l;
        std::memcpy(&id, data.data() + i * sizeof(pair_t), sizeof(id));
        std::memcpy(&l, data.data() + i * sizeof(pair_t) + offsetof(pair_t, second), sizeof(l));
        have.emplace_back(id, l);
    }
    if (sorted) {
        // an index that went through std::map holds its pairs in another order than the vector of the spec: the
        // file is compared as a set of pairs
        const auto by_id = [](const pair_t& a, const pair_t& b) { return a.first < b.first; };
        std::sort(want.begin(), want.end(), by_id);
        std::sort(have.begin(), have.end(), by_id);
    }
    for (std::size_t i = 0; i < want.size(); ++i) {
        const uint64_t id = have[i].first;
        const Loc l = have[i].second;
        if (id != want[i].first || !(l == want[i].second)) {
            throw vh::Mismatch(k, json::array({want[i].first, loc_json(want[i].second)}), json::array({id, loc_json(l)}),
                               who + " dump_as_list: entry " + std::to_string(i));
        }
    }
}

static void stat_line(const std::string& s) {
    static const char* p = std::getenv("VH_STATS");
    if (!p) return;
    static int fd = ::open(p, O_WRONLY | O_APPEND | O_CREAT, 0644);
    if (fd >= 0) (void)!::write(fd, s.data(), s.size());
}

static void run_map(const json& c) {
    const bool flex_family = c.value("family", "") == "flex";
    std::vector<std::vector<int64_t>> answers;
    std::vector<std::string> names;
    for (const auto& vj : c["types"]) {
        Scratch scratch;
        Obj o = create(vj.get<std::string>(), scratch);
        std::vector<int64_t> ans;
        int k = 0;
        int switched_at = -1;
        bool agree = true;
        for (const auto& st : c["steps"]) {
            vh::step_marker(k);
            const std::string a = st["a"];
            if (a == "set") {
                o.m->set(real_id(st["id"]), make_loc(st["id"], st["v"]));
            } else if (a == "sort") {
                o.m->sort();
            } else if (a == "reserve") {
                o.m->reserve(st["id"].get<std::size_t>());
            } else if (a == "switch_to_dense") {
                if (auto* f = dynamic_cast<FlexT*>(o.m.get())) f->switch_to_dense();
            } else if (a == "reload") {
                if (o.cls == "dense") {
                    const std::string p = scratch.fresh();
                    {
                        Fd fd{p};
                        o.m->dump_as_array(fd.fd);
                    }
                    check_array_file(p, st["farr"], k, "type=" + o.variant);
                    o.m.reset();
                    o.m = Factory::instance().create_map("dense_file_array," + p);
                    o.path = p;
                    o.variant += ">dense_file_array";
                } else if (o.cls == "sparse" || o.cls == "stdmap") {
                    const std::string p = scratch.fresh();
                    {
                        Fd fd{p};
                        o.m->dump_as_list(fd.fd);
                    }
                    if (o.cls == "stdmap") o.via_map = true;
                    check_list_file(p, st["flist"], o.via_map, k, "type=" + o.variant);
                    o.m.reset();
                    o.m = Factory::instance().create_map("sparse_file_array," + p);
                    o.path = p;
                    o.cls = "sparse";
                    o.variant += ">sparse_file_array";
                }   // flex_mem has no dump: the history simply continues
            } else if (a == "dump_array") {
                if (o.cls == "dense" || o.cls == "sparse") {
                    const std::string p = scratch.fresh();
                    {
                        Fd fd{p};
                        o.m->dump_as_array(fd.fd);
                    }
                    check_array_file(p, st["farr"], k, "type=" + o.variant);
                    Obj d;
                    d.variant = o.variant + ">dump_as_array>dense_file_array";
                    d.cls = "dense";
                    d.m = Factory::instance().create_map("dense_file_array," + p);
                    probe(d, st["tab"], k, "on the dense index loaded from the array dump", nullptr);
                }
            } else if (a == "reopen") {
                if (!o.path.empty()) {
                    const std::string type = o.cls == "dense" ? "dense_file_array" : "sparse_file_array";
                    o.m.reset();                                           // unmaps; the file keeps all `capacity` slots
                    o.m = Factory::instance().create_map(type + "," + o.path);
                }
            } else {
                throw vh::Mismatch(k, "known action", a);
            }
            if (o.cls == "flex") {
                const bool d = static_cast<FlexT*>(o.m.get())->is_dense();
                if (d && switched_at < 0) switched_at = k;
                if (flex_family && d != (st["x"].get<int>() == 1)) agree = false;
            }
            if (st["def"].get<bool>()) probe(o, st["tab"], k, "after " + a, &ans);
            ++k;
        }
        if (o.cls == "flex") {
            stat_line("{\"id\":\"" + c["id"].get<std::string>() + "\",\"switched_at\":" + std::to_string(switched_at) +
                      ",\"agree\":" + (agree ? "true" : "false") + ",\"family\":\"" + c.value("family", "") + "\"}\n");
        }
        answers.push_back(std::move(ans));
        names.push_back(o.variant);
    }
    // all implementations gave the same answers on the same history
    for (std::size_t i = 1; i < answers.size(); ++i) {
        if (answers[i] != answers[0]) throw vh::Mismatch(-1, names[0], names[i], "implementations disagree on the same history");
    }
}

// ---------------------------------------------------------------- bulk histories (unit = S consecutive ids)

static Loc bulk_loc(uint64_t id) {
    return Loc{static_cast<int32_t>(id & 0x3fffffffULL), static_cast<int32_t>((id >> 3) & 0x3fffffffULL)};
}

static void run_bulk(const json& c) {
    const uint64_t S = c["S"];
    const uint64_t hole_mod = c["hole_mod"];
    const uint64_t hole_rem = c["hole_rem"];
    auto is_hole = [&](uint64_t id) { return hole_mod != 0 && id % hole_mod == hole_rem; };
    for (const auto& vj : c["types"]) {
        Scratch scratch;
        Obj o = create(vj.get<std::string>(), scratch);
        int k = 0;
        int switched_at = -1;
        for (const auto& st : c["steps"]) {
            vh::step_marker(k);
            const std::string a = st["a"];
            if (a == "set") {
                const uint64_t u = st["id"];
                for (uint64_t id = u * S; id < (u + 1) * S; ++id) {
                    if (!is_hole(id)) o.m->set(id, bulk_loc(id));
                }
            } else if (a == "sort") {
                o.m->sort();
            } else if (a == "switch_to_dense") {
                if (auto* f = dynamic_cast<FlexT*>(o.m.get())) f->switch_to_dense();
            } else {
                throw vh::Mismatch(k, "known action", a);
            }
            if (o.cls == "flex" && switched_at < 0 && static_cast<FlexT*>(o.m.get())->is_dense()) switched_at = k;
            if (st["def"].get<bool>()) {
                for (const auto& pr : st["tab"]) {
                    const uint64_t u = pr[0];
                    const bool present = pr[1].get<int64_t>() != 0;
                    // ids of unit u: both ends, block borders (2^16), holes, and a stride through the unit
                    std::vector<uint64_t> ids{u * S, u * S + 1, (u + 1) * S - 1, (u + 1) * S - 2};
                    for (uint64_t b = u * S; b < (u + 1) * S; b += 65536) {
                        ids.push_back(b);
                        if (b > 0) ids.push_back(b - 1);
                        ids.push_back(b + 65535);
                    }
                    const uint64_t stride = S / 61 + 1;
                    for (uint64_t id = u * S + 17; id < (u + 1) * S; id += stride) ids.push_back(id);
                    if (hole_mod != 0) {
                        const uint64_t h = (u * S / hole_mod) * hole_mod + hole_rem;
                        for (uint64_t x = h; x < (u + 1) * S + hole_mod; x += hole_mod * 97) ids.push_back(x);
                    }
                    for (const uint64_t id : ids) {
                        if (id / S != u) continue;
                        const Loc want = (present && !is_hole(id)) ? bulk_loc(id) : Loc{};
                        const Loc got = o.m->get_noexcept(id);
                        if (!(got == want)) throw vh::Mismatch(k, loc_json(want), loc_json(got), "type=" + o.variant + " get_noexcept(" + std::to_string(id) + ") in unit " + std::to_string(u) + " after " + a);
                    }
                }
            }
            ++k;
        }
        if (o.cls == "flex") {
            stat_line("{\"id\":\"" + c["id"].get<std::string>() + "\",\"switched_at\":" + std::to_string(switched_at) + ",\"agree\":true,\"family\":\"bulk\"}\n");
        }
    }
}

// ---------------------------------------------------------------- NodeLocationsForWays

static void run_nlw(const json& c) {
    using Handler = osmium::handler::NodeLocationsForWays<MapT, MapT>;
    const bool ignore = c.value("ignore", false);
    for (const auto& sp : c["stores"]) {
        Scratch scratch;
        Obj pos = create(sp[0].get<std::string>(), scratch);
        Obj neg = create(sp[1].get<std::string>(), scratch);
        const std::string who = "pos=" + pos.variant + " neg=" + neg.variant;
        Handler handler{*pos.m, *neg.m};
        if (ignore) handler.ignore_errors();
        osmium::memory::Buffer buf{4096, osmium::memory::Buffer::auto_grow::yes};
        int k = 0;
        for (const auto& st : c["steps"]) {
            vh::step_marker(k);
            const std::string a = st["a"];
            if (a == "node") {
                buf.clear();
                {
                    osmium::builder::NodeBuilder nb{buf};
                    nb.set_id(real_signed(st["id"]));
                    nb.set_location(make_loc(st["id"], st["v"]));
                }
                buf.commit();
                handler.node(buf.get<osmium::Node>(0));
            } else if (a == "way") {
                for (const char* which : {"irefs", "refs"}) {
                    const json& refs = st[which];
                    const json& locs = st[std::string(which) == "refs" ? "locs" : "ilocs"];
                    buf.clear();
                    {
                        osmium::builder::WayBuilder wb{buf};
                        wb.set_id(17);
                        osmium::builder::WayNodeListBuilder wnl{wb};
                        for (const auto& r : refs) wnl.add_node_ref(real_signed(r));
                    }
                    buf.commit();
                    auto& way = buf.get<osmium::Way>(0);
                    bool threw = false;
                    try {
                        handler.way(way);
                    } catch (const osmium::not_found&) {
                        threw = true;
                    }
                    bool missing = false;
                    std::size_t i = 0;
                    for (const auto& nr : way.nodes()) {
                        const int64_t v = locs[i];
                        const Loc want = make_loc(refs[i], v);
                        if (v == 0) missing = true;
                        if (nr.ref() != real_signed(refs[i])) throw vh::Mismatch(k, real_signed(refs[i]), nr.ref(), who + " node ref changed");
                        if (!(nr.location() == want)) {
                            throw vh::Mismatch(k, loc_json(want), loc_json(nr.location()), who + " location of node ref " + std::to_string(nr.ref()) + " in way(" + which + ")");
                        }
                        ++i;
                    }
                    VH_EXPECT(k, refs.size(), i, who + " number of node refs");
                    VH_EXPECT(k, missing && !ignore, threw, who + " way() throws osmium::not_found iff a location is missing and errors are not ignored");
                }
            } else {
                throw vh::Mismatch(k, "known action", a);
            }
            ++k;
        }
    }
}

int main() {
    stat_line("");                                  // opens the statistics file before the first index is created
    const int first_fd = ::dup(0);                  // lowest descriptor an index can get
    ::close(first_fd);
    return vh::run_cases([first_fd](const json& c) {
        // mmap_vector_file never closes its descriptor (a leak the property does not talk about); a replay process
        // creates thousands of file backed indexes, so their descriptors are closed here after every case.
        struct CloseFds {
            int from;
            ~CloseFds() { for (int fd = from; fd < from + 256; ++fd) ::close(fd); }
        } close_fds{first_fd};
        const std::string kind = c["kind"];
        if (kind == "map") run_map(c);
        else if (kind == "bulk") run_bulk(c);
        else if (kind == "nlw") run_nlw(c);
        else throw vh::Mismatch(-1, "known kind", kind);
    });
}
