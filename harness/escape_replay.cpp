// C14 replay harness: the expected values of every case come out of specs/Escaping.tla (TLC export).
//
//  kind "str"   : one exported behaviour of the spec (a string of code points, its bytes, the expected OPL and XML
//                 escaped forms, what the parser returns and where it stops).  Replayed call by call on the real
//                 functions, then end to end through OPLOutputBlock -> opl_parse_line and XMLOutputBlock -> expat.
//  kind "sweep" : one row [lo,hi] of the exported interval table (or a slice of it); EVERY code point of the row is
//                 pushed through append_utf8_encoded_string -> opl_parse_string and append_xml_encoded_string ->
//                 expat and compared with what the row's attributes demand.
//  kind "bytes" : the exported verdict table (ok / exception) per sequence-length class string; every byte string of
//                 the given length (a slice, optionally strided) is handed to the escaping functions in a heap block
//                 of exactly length+1 bytes (ASan sees any read behind the NUL); thrown <=> the spec's verdict.
#include "common/vh.hpp"

#include <osmium/builder/attr.hpp>
#include <osmium/io/detail/opl_output_format.hpp>
#include <osmium/io/detail/opl_parser_functions.hpp>
#include <osmium/io/detail/string_util.hpp>
#include <osmium/io/detail/xml_output_format.hpp>
#include <osmium/memory/buffer.hpp>
#include <osmium/osm.hpp>

#include <expat.h>

#include <array>
#include <cstdint>
#include <cstdlib>
#include <cstring>
#include <map>
#include <stdexcept>
#include <string>
#include <vector>

using vh::json;
namespace iod = osmium::io::detail;

enum step_id { S_OPL_ESCAPE = 0, S_OPL_STRUCT = 1, S_OPL_PARSE = 2, S_E2E_OPL = 3, S_XML_ESCAPE = 4, S_XML_STRUCT = 5, S_XML_PARSE = 6, S_E2E_XML = 7 };
static const char* const step_names[] = {"opl-escape", "opl-structural", "opl-parse", "e2e-opl", "xml-escape", "xml-structural", "xml-parse", "e2e-xml"};

static std::string hexdump(const std::string& s) {
    static const char* d = "0123456789abcdef";
    std::string r;
    for (unsigned char c : s) {
        r += d[c >> 4];
        r += d[c & 15];
    }
    return r;
}

static std::string bytes_of(const json& a) {
    std::string s;
    for (const auto& b : a) {
        s += static_cast<char>(b.get<int>());
    }
    return s;
}

static std::string cpname(uint32_t c) {
    char buf[16];
    std::snprintf(buf, sizeof(buf), "U+%04X", c);
    return buf;
}

// RFC 3629, independent of libosmium
static void utf8(uint32_t c, std::string& o) {
    if (c < 0x80) {
        o += static_cast<char>(c);
    } else if (c < 0x800) {
        o += static_cast<char>(0xc0 | (c >> 6));
        o += static_cast<char>(0x80 | (c & 0x3f));
    } else if (c < 0x10000) {
        o += static_cast<char>(0xe0 | (c >> 12));
        o += static_cast<char>(0x80 | ((c >> 6) & 0x3f));
        o += static_cast<char>(0x80 | (c & 0x3f));
    } else {
        o += static_cast<char>(0xf0 | (c >> 18));
        o += static_cast<char>(0x80 | ((c >> 12) & 0x3f));
        o += static_cast<char>(0x80 | ((c >> 6) & 0x3f));
        o += static_cast<char>(0x80 | (c & 0x3f));
    }
}

// ---------------------------------------------------------------------------------------------- expat

struct AttrSink {
    std::vector<std::pair<std::string, std::string>> attrs;   // (element/attribute, value)
};

static void XMLCALL on_start(void* ud, const XML_Char* name, const XML_Char** attrs) {
    auto* sink = static_cast<AttrSink*>(ud);
    for (int i = 0; attrs[i]; i += 2) {
        sink->attrs.emplace_back(std::string{name} + "/" + attrs[i], attrs[i + 1]);
    }
}

// returns "" when the document was accepted, otherwise expat's error text
static std::string expat_parse(const std::string& doc, AttrSink& sink) {
    XML_Parser p = XML_ParserCreate(nullptr);
    if (!p) {
        throw std::runtime_error{"MACHINERY: XML_ParserCreate failed"};
    }
    XML_SetUserData(p, &sink);
    XML_SetStartElementHandler(p, on_start);
    std::string err;
    if (XML_Parse(p, doc.data(), static_cast<int>(doc.size()), 1) == XML_STATUS_ERROR) {
        err = XML_ErrorString(XML_GetErrorCode(p));
        if (err.empty()) {
            err = "error";
        }
    }
    XML_ParserFree(p);
    return err;
}

// ---------------------------------------------------------------------------------------------- real calls

static std::string real_opl_escape(const std::string& s) {
    // right-sized heap block: any read behind the NUL is an ASan report
    char* blk = static_cast<char*>(std::malloc(s.size() + 1));
    std::memcpy(blk, s.data(), s.size());
    blk[s.size()] = '\0';
    std::string out;
    try {
        iod::append_utf8_encoded_string(out, blk);
    } catch (...) {
        std::free(blk);
        throw;
    }
    std::free(blk);
    return out;
}

static std::string real_xml_escape(const std::string& s) {
    char* blk = static_cast<char*>(std::malloc(s.size() + 1));
    std::memcpy(blk, s.data(), s.size());
    blk[s.size()] = '\0';
    std::string out;
    iod::append_xml_encoded_string(out, blk);
    std::free(blk);
    return out;
}

struct ParseResult {
    std::string result;
    long consumed = -1;
    std::string error;
};

static ParseResult real_opl_parse(const std::string& input) {
    char* blk = static_cast<char*>(std::malloc(input.size() + 1));
    std::memcpy(blk, input.data(), input.size());
    blk[input.size()] = '\0';
    ParseResult r;
    const char* s = blk;
    try {
        iod::opl_parse_string(&s, r.result);
        r.consumed = s - blk;
    } catch (const osmium::opl_error& e) {
        r.error = e.what();
    }
    std::free(blk);
    return r;
}

static std::string suffix_bytes(const std::string& t) {
    if (t == "tab") {
        return "\t";
    }
    return t;
}

// ---------------------------------------------------------------------------------------------- kind "str"

static void e2e_opl(const std::string& s) {
    using namespace osmium::builder::attr;
    osmium::memory::Buffer buffer{1024, osmium::memory::Buffer::auto_grow::yes};
    osmium::builder::add_relation(buffer, _id(7), _version(1), _user(s.c_str()), _tag(s.c_str(), s.c_str()), _tag("k2", s.c_str()),
                                  _member(osmium::item_type::node, 1, s.c_str()), _member(osmium::item_type::way, 2, s.c_str()));
    iod::opl_output_options opts;
    iod::OPLOutputBlock block{std::move(buffer), opts};
    std::string line = block();
    if (line.empty() || line.back() != '\n') {
        throw vh::Mismatch(S_E2E_OPL, "line ending in LF", hexdump(line), "e2e-opl: OPL writer output is not one line");
    }
    line.pop_back();
    if (line.find('\n') != std::string::npos || line.find('\r') != std::string::npos) {
        throw vh::Mismatch(S_E2E_OPL, "one line", hexdump(line), "e2e-opl: line break inside the OPL line");
    }
    osmium::memory::Buffer in{1024, osmium::memory::Buffer::auto_grow::yes};
    try {
        if (!iod::opl_parse_line(1, line.c_str(), in)) {
            throw vh::Mismatch(S_E2E_OPL, "one relation", "nothing parsed", "e2e-opl line=" + hexdump(line));
        }
    } catch (const osmium::opl_error& e) {
        throw vh::Mismatch(S_E2E_OPL, "one relation", std::string{"opl_error: "} + e.what(), "e2e-opl line=" + hexdump(line));
    }
    const auto& rel = in.get<osmium::Relation>(0);
    json exp = {{"user", hexdump(s)}, {"tags", json::array({json::array({hexdump(s), hexdump(s)}), json::array({hexdump("k2"), hexdump(s)})})},
                {"roles", json::array({hexdump(s), hexdump(s)})}};
    json got = {{"user", hexdump(rel.user())}, {"tags", json::array()}, {"roles", json::array()}};
    for (const auto& t : rel.tags()) {
        got["tags"].push_back(json::array({hexdump(t.key()), hexdump(t.value())}));
    }
    for (const auto& m : rel.members()) {
        got["roles"].push_back(hexdump(m.role()));
    }
    if (!(exp == got)) {
        throw vh::Mismatch(S_E2E_OPL, exp, got, "e2e-opl line=" + hexdump(line));
    }
}

static void e2e_xml(const std::string& s) {
    using namespace osmium::builder::attr;
    osmium::memory::Buffer buffer{1024, osmium::memory::Buffer::auto_grow::yes};
    osmium::builder::add_relation(buffer, _id(7), _version(1), _user(s.c_str()), _tag(s.c_str(), s.c_str()),
                                  _member(osmium::item_type::node, 1, s.c_str()));
    iod::xml_output_options opts;
    iod::XMLOutputBlock block{std::move(buffer), opts};
    const std::string doc = "<osm>\n" + block() + "</osm>\n";
    AttrSink sink;
    const std::string err = expat_parse(doc, sink);
    if (!err.empty()) {
        throw vh::Mismatch(S_E2E_XML, "well-formed document", json{{"rejected", err}}, "e2e-xml doc=" + hexdump(doc));
    }
    std::map<std::string, std::string> got;
    if (s.empty()) {
        got["relation/user"] = "";   // the writer leaves out an empty user attribute; a reader takes a missing one as ""
    }
    for (const auto& a : sink.attrs) {
        if (a.first == "relation/user" || a.first == "tag/k" || a.first == "tag/v" || a.first == "member/role") {
            got[a.first] = hexdump(a.second);
        }
    }
    std::map<std::string, std::string> exp{{"relation/user", hexdump(s)}, {"tag/k", hexdump(s)}, {"tag/v", hexdump(s)}, {"member/role", hexdump(s)}};
    if (exp != got) {
        throw vh::Mismatch(S_E2E_XML, json(exp), json(got), "e2e-xml doc=" + hexdump(doc));
    }
}

static void run_str(const json& c) {
    const std::string inb = bytes_of(c["inb"]);
    const std::string exp_opl = bytes_of(c["opl"]);
    const std::string exp_parsed = bytes_of(c["parsed"]);
    const std::string exp_xml = bytes_of(c["xml"]);
    const std::string suffix = suffix_bytes(c["suffix"].get<std::string>());
    const long exp_consumed = c["consumed"].get<long>();
    const bool xmlchar = c["xmlchar"].get<bool>();

    vh::step_marker(S_OPL_ESCAPE);
    std::string opl;
    try {
        opl = real_opl_escape(inb);
    } catch (const std::exception& e) {
        throw vh::Mismatch(S_OPL_ESCAPE, hexdump(exp_opl), std::string{"exception: "} + e.what(), step_names[S_OPL_ESCAPE]);
    }
    if (opl != exp_opl) {
        throw vh::Mismatch(S_OPL_ESCAPE, hexdump(exp_opl), hexdump(opl), step_names[S_OPL_ESCAPE]);
    }

    vh::step_marker(S_OPL_PARSE);
    {
        const ParseResult r = real_opl_parse(opl + suffix);
        json exp = {{"result", hexdump(exp_parsed)}, {"consumed", exp_consumed}};
        json got = r.error.empty() ? json{{"result", hexdump(r.result)}, {"consumed", r.consumed}} : json{{"error", r.error}};
        if (!(exp == got)) {
            throw vh::Mismatch(S_OPL_PARSE, exp, got, step_names[S_OPL_PARSE]);
        }
    }

    if (c.value("e2e", false)) {
        vh::step_marker(S_E2E_OPL);
        e2e_opl(inb);
    }

    vh::step_marker(S_XML_ESCAPE);
    const std::string xml = real_xml_escape(inb);
    if (xml != exp_xml) {
        throw vh::Mismatch(S_XML_ESCAPE, hexdump(exp_xml), hexdump(xml), step_names[S_XML_ESCAPE]);
    }

    vh::step_marker(S_XML_PARSE);
    {
        AttrSink sink;
        const std::string err = expat_parse("<e v=\"" + xml + "\"/>", sink);
        if (!err.empty()) {
            throw vh::Mismatch(S_XML_PARSE, hexdump(inb), json{{"rejected", err}}, xmlchar ? "xml-parse rejected" : "xml-parse rejected (string holds a code point XML 1.0 cannot carry)");
        }
        if (sink.attrs.size() != 1 || sink.attrs[0].second != inb) {
            throw vh::Mismatch(S_XML_PARSE, hexdump(inb), sink.attrs.empty() ? json("no attribute") : json(hexdump(sink.attrs[0].second)), "xml-parse differs");
        }
    }

    if (c.value("e2e", false)) {
        vh::step_marker(S_E2E_XML);
        e2e_xml(inb);
    }
}

// ---------------------------------------------------------------------------------------------- kind "sweep"

struct Fail {
    int step = -1;
    uint32_t first = 0;
    uint64_t n = 0;
    json exp, got;
    std::string note;
    void hit(int s, uint32_t c, json e, json g, const std::string& nt) {
        if (step == -1 || s < step) {
            step = s;
            first = c;
            n = 0;
            exp = std::move(e);
            got = std::move(g);
            note = nt;
        }
        if (s == step) {
            ++n;
        }
    }
};

static void run_sweep(const json& c) {
    vh::step_marker(0);
    const uint32_t lo = c["lo"].get<uint32_t>();
    const uint32_t hi = c["hi"].get<uint32_t>();
    const json& attr = c["attr"];
    const bool pass = attr["pass"].get<bool>();
    const int hexn = attr["hexn"].get<int>();
    const int ulen = attr["ulen"].get<int>();
    const bool xmlchar = attr["xmlchar"].get<bool>();
    const bool xmlent = attr["xmlent"].get<bool>();
    const bool oplstruct = attr["oplstruct"].get<bool>();
    const json& tab = c["table"];
    std::array<bool, 256> oplsep{};
    std::array<bool, 256> xmlstruct{};
    for (const auto& b : tab["oplsep"]) oplsep[b.get<int>()] = true;
    for (const auto& b : tab["xmlstruct"]) xmlstruct[b.get<int>()] = true;
    const char percent = static_cast<char>(tab["percent"].get<int>());
    std::map<uint32_t, std::string> entities;
    for (const auto& e : tab["entities"]) {
        entities[e["cp"].get<uint32_t>()] = e["text"].get<std::string>();
        if (bytes_of(e["bytes"]) != e["text"].get<std::string>()) {
            throw std::runtime_error{"MACHINERY: entity table inconsistent"};
        }
    }

    Fail f;
    constexpr uint32_t batch = 2048;
    std::vector<std::string> xmls;
    std::vector<std::string> inputs;
    std::string doc;
    for (uint32_t base = lo; base <= hi; base += batch) {
        const uint32_t top = std::min<uint64_t>(hi, static_cast<uint64_t>(base) + batch - 1);
        xmls.clear();
        inputs.clear();
        for (uint32_t cp = base; cp <= top; ++cp) {
            std::string in;
            utf8(cp, in);
            if (static_cast<int>(in.size()) != ulen) {
                throw std::runtime_error{"MACHINERY: row attribute ulen does not fit " + cpname(cp)};
            }
            // --- OPL escape: what the row demands
            std::string exp;
            if (pass) {
                exp = in;
            } else {
                char buf[16];
                std::snprintf(buf, sizeof(buf), "%0*x", hexn, cp);
                exp += percent;
                exp += buf;
                exp += percent;
            }
            std::string opl;
            bool threw = false;
            try {
                opl = real_opl_escape(in);
            } catch (const std::exception& e) {
                threw = true;
                f.hit(S_OPL_ESCAPE, cp, hexdump(exp), std::string{"exception: "} + e.what(), "");
            }
            if (!threw) {
                if (opl != exp) {
                    f.hit(S_OPL_ESCAPE, cp, hexdump(exp), hexdump(opl), "");
                }
                // --- no separator anywhere, '%' only as the two delimiters of a hex group
                bool bad = false;
                for (std::size_t i = 0; i < opl.size(); ++i) {
                    const unsigned char ch = static_cast<unsigned char>(opl[i]);
                    if (oplsep[ch]) bad = true;
                    if (opl[i] == percent && !(opl.size() >= 4 && (i == 0 || i + 1 == opl.size()))) bad = true;
                }
                if (oplstruct && pass) bad = true;
                if (bad) {
                    f.hit(S_OPL_STRUCT, cp, "no structural character", hexdump(opl), "");
                }
                // --- parser undoes it, alone and in front of every separator the parser knows
                for (const char* sfx : {"", ",", "=", " ", "\t"}) {
                    const ParseResult r = real_opl_parse(opl + sfx);
                    if (!r.error.empty() || r.result != in || r.consumed != static_cast<long>(opl.size())) {
                        f.hit(S_OPL_PARSE, cp, json{{"result", hexdump(in)}, {"consumed", opl.size()}},
                              r.error.empty() ? json{{"result", hexdump(r.result)}, {"consumed", r.consumed}} : json{{"error", r.error}},
                              std::string{"suffix="} + hexdump(sfx));
                        break;
                    }
                }
            }
            // --- XML escape
            std::string expx = in;
            if (xmlent) {
                const auto it = entities.find(cp);
                if (it == entities.end()) {
                    throw std::runtime_error{"MACHINERY: row says entity but the entity table has none for " + cpname(cp)};
                }
                expx = it->second;
            }
            const std::string xml = real_xml_escape(in);
            if (xml != expx) {
                f.hit(S_XML_ESCAPE, cp, hexdump(expx), hexdump(xml), "");
            }
            bool badx = false;
            for (std::size_t i = 0; i < xml.size(); ++i) {
                const unsigned char ch = static_cast<unsigned char>(xml[i]);
                if (xmlstruct[ch] && !(ch == '&' && i == 0 && xml.size() >= 4 && xml.back() == ';')) badx = true;
            }
            if (badx) {
                f.hit(S_XML_STRUCT, cp, "no structural character", hexdump(xml), "");
            }
            xmls.push_back(xml);
            inputs.push_back(in);
        }
        // --- XML round trip: one document per batch, single documents when the batch is rejected
        doc = "<r>";
        for (const auto& x : xmls) {
            doc += "<e v=\"";
            doc += x;
            doc += "\"/>";
        }
        doc += "</r>";
        AttrSink sink;
        const std::string err = expat_parse(doc, sink);
        if (err.empty() && sink.attrs.size() == inputs.size()) {
            for (std::size_t i = 0; i < inputs.size(); ++i) {
                if (sink.attrs[i].second != inputs[i]) {
                    f.hit(S_XML_PARSE, base + static_cast<uint32_t>(i), hexdump(inputs[i]), hexdump(sink.attrs[i].second), "xml-parse differs");
                }
            }
        } else {
            for (std::size_t i = 0; i < inputs.size(); ++i) {
                AttrSink one;
                const std::string e1 = expat_parse("<e v=\"" + xmls[i] + "\"/>", one);
                const uint32_t cp = base + static_cast<uint32_t>(i);
                if (!e1.empty()) {
                    f.hit(S_XML_PARSE, cp, hexdump(inputs[i]), json{{"rejected", e1}},
                          xmlchar ? "xml-parse rejected" : "xml-parse rejected (string holds a code point XML 1.0 cannot carry)");
                } else if (one.attrs.size() != 1 || one.attrs[0].second != inputs[i]) {
                    f.hit(S_XML_PARSE, cp, hexdump(inputs[i]), one.attrs.empty() ? json("no attribute") : json(hexdump(one.attrs[0].second)), "xml-parse differs");
                }
            }
        }
    }
    if (f.step != -1) {
        vh::step_marker(f.step);
        throw vh::Mismatch(f.step, f.exp, f.got, std::string{step_names[f.step]} + " first=" + cpname(f.first) + " nfail=" + std::to_string(f.n) +
                           (f.note.empty() ? "" : " " + f.note));
    }
}

// ---------------------------------------------------------------------------------------------- kind "bytes"

enum fn_id { F_OPL = 0, F_DEBUG = 1, F_XML = 2 };
static const char* const fn_names[] = {"append_utf8_encoded_string", "append_debug_encoded_string", "append_xml_encoded_string"};

static void run_bytes(const json& c) {
    vh::step_marker(0);
    const int n = c["len"].get<int>();
    const int b0lo = c["b0lo"].get<int>();
    const int b0hi = c["b0hi"].get<int>();
    const uint64_t stride = c["stride"].get<uint64_t>();
    const uint64_t offset = c["offset"].get<uint64_t>();
    std::array<int, 256> cls{};
    cls.fill(-1);
    for (const auto& r : c["seqlen"]) {
        for (int b = r["lo"].get<int>(); b <= r["hi"].get<int>(); ++b) cls[b] = r["len"].get<int>();
    }
    for (int b = 1; b < 256; ++b) {
        if (cls[b] < 0) throw std::runtime_error{"MACHINERY: sequence length table does not cover every byte"};
    }
    // verdict per class string: key = digits (sequence lengths 0..4) of the n bytes, base 5
    std::vector<int8_t> verdict;   // 0 ok, 1 throws, -1 missing
    uint64_t nkeys = 1;
    for (int i = 0; i < n; ++i) nkeys *= 5;
    verdict.assign(nkeys, -1);
    for (const auto& v : c["verdicts"].items()) {
        const std::string& k = v.key();
        if (static_cast<int>(k.size()) != n) continue;
        uint64_t idx = 0;
        for (char d : k) idx = idx * 5 + static_cast<uint64_t>(d - '0');
        verdict[idx] = v.value().get<std::string>() == "ok" ? 0 : 1;
    }
    for (auto v : verdict) {
        if (v < 0) throw std::runtime_error{"MACHINERY: verdict table incomplete"};
    }

    // allowed byte values per position (default: every byte but NUL); the first position is cut to [b0lo, b0hi]
    std::vector<int> vals;
    if (c.contains("values")) {
        for (const auto& v : c["values"]) vals.push_back(v.get<int>());
    } else {
        for (int v = 1; v < 256; ++v) vals.push_back(v);
    }
    std::vector<int> vals0;
    for (int v : vals) {
        if (v >= b0lo && v <= b0hi) vals0.push_back(v);
    }
    if (vals.empty() || vals0.empty()) throw std::runtime_error{"MACHINERY: empty byte value set"};

    char* blk = static_cast<char*>(std::malloc(static_cast<std::size_t>(n) + 1));
    blk[n] = '\0';
    std::string out;
    uint64_t counter = 0;
    uint64_t tested = 0;
    int failstep = -1;
    uint64_t nfail = 0;
    std::string first, firstgot;
    bool firstexp = false;
    std::array<std::size_t, 4> d{{0, 0, 0, 0}};   // odometer of indexes into vals0 / vals
    while (true) {
        if (counter % stride == offset) {
            ++tested;
            uint64_t idx = 0;
            for (int i = 0; i < n; ++i) {
                const int v = (i == 0) ? vals0[d[0]] : vals[d[static_cast<std::size_t>(i)]];
                blk[i] = static_cast<char>(v);
                idx = idx * 5 + static_cast<uint64_t>(cls[static_cast<std::size_t>(v)]);
            }
            const bool exp_throw = verdict[idx] == 1;
            for (int fn = 0; fn < 3; ++fn) {
                bool threw = false;
                std::string what;
                out.clear();
                try {
                    if (fn == F_OPL) iod::append_utf8_encoded_string(out, blk);
                    else if (fn == F_DEBUG) iod::append_debug_encoded_string(out, blk, "", "");
                    else iod::append_xml_encoded_string(out, blk);
                } catch (const std::out_of_range& e) {
                    threw = true;
                    what = std::string{"out_of_range: "} + e.what();
                } catch (const std::runtime_error& e) {
                    threw = true;
                    what = std::string{"runtime_error: "} + e.what();
                }
                const bool expect = (fn == F_XML) ? false : exp_throw;
                if (threw != expect) {
                    if (failstep == -1 || fn < failstep) {
                        failstep = fn;
                        nfail = 0;
                        first = hexdump(std::string(blk, static_cast<std::size_t>(n)));
                        firstexp = expect;
                        firstgot = threw ? what : "returned " + hexdump(out);
                    }
                    if (fn == failstep) ++nfail;
                }
            }
        }
        ++counter;
        int i = n - 1;
        while (i >= 0) {
            const std::size_t lim = (i == 0) ? vals0.size() : vals.size();
            if (++d[static_cast<std::size_t>(i)] < lim) break;
            d[static_cast<std::size_t>(i)] = 0;
            --i;
        }
        if (i < 0) break;
    }
    std::free(blk);
    if (failstep != -1) {
        vh::step_marker(failstep);
        throw vh::Mismatch(failstep, json{{"bytes", first}, {"throws", firstexp}}, json{{"bytes", first}, {"outcome", firstgot}},
                           std::string{fn_names[failstep]} + " first=" + first + " nfail=" + std::to_string(nfail) + " tested=" + std::to_string(tested));
    }
}

int main() {
    return vh::run_cases([](const json& c) {
        const std::string kind = c["kind"].get<std::string>();
        if (kind == "str") {
            run_str(c);
        } else if (kind == "sweep") {
            run_sweep(c);
        } else if (kind == "bytes") {
            run_bytes(c);
        } else {
            throw std::runtime_error{"MACHINERY: unknown case kind " + kind};
        }
    });
}
