// C13 replay harness: number <-> text conversions of libosmium against results computed by the TLA+ specs
// NumTextCoord / NumTextCoordFmt / NumTextTime / NumTextInt (exported by TLC).
//
// A case is {"id":..,"kind":K,"steps":[item,...]}; every item is one string (or one value) with the results the
// spec demands; all functions of the library that take that input are called on it and compared.
//   coord : {"s":str,"ok":bool,"v":int,"rest":n}                 string_to_location_coordinate via set_lon/lat[_partial]
//   cfmt  : {"v":int,"str":str,"vlon":bool,"vlat":bool}          append_location_coordinate_to_string, as_string, round trip
//   tparse: {"s":str,"ok":bool,"rep":bool,"t":uint,"rest":n}     Timestamp(const char*), Timestamp(string), parse_timestamp(const char**)
//   tfmt  : {"t":uint,"str":str}                                 to_iso, to_iso_all, round trip
//   int   : {"s":str,"opl64":{ok,v,rest},"opl32":{..},"oid":{ok,v},"ulong":{ok,v},"sti32":v,"sti64":v}
//   iout  : {"v":int,"str":str}                                  OutputBlock::output_int, round trip through the parsers
//   sweep : {"what":"coord"|"time","from":a,"to":b,"stride":k}   the spec's round trip theorems run on the implementation
#include "common/vh.hpp"

#include <osmium/io/detail/opl_parser_functions.hpp>
#include <osmium/io/detail/output_format.hpp>
#include <osmium/memory/buffer.hpp>
#include <osmium/osm/location.hpp>
#include <osmium/osm/timestamp.hpp>
#include <osmium/osm/types.hpp>
#include <osmium/osm/types_from_string.hpp>
#include <osmium/util/misc.hpp>

#include <cstdint>
#include <functional>
#include <iterator>
#include <limits>
#include <stdexcept>
#include <atomic>
#include <thread>
#include <vector>
#include <string>

using vh::json;

namespace {

// outcome of one library call, comparable with the spec's expectation
struct Outcome {
    std::string kind;   // "value" | the exception class
    int64_t v = 0;      // value (two's complement for uint64)
    long rest = -1;     // 1-based index of the first unconsumed character, -1 = not applicable
    std::string text;   // for formatters
    json j() const {
        json r = {{"r", kind}};
        if (kind == "value") {
            r["v"] = v;
            if (rest >= 0) r["rest"] = rest;
        }
        if (!text.empty()) r["text"] = text;
        return r;
    }
};

template <typename F>
Outcome call(F&& f) {
    Outcome o;
    try {
        f(o);
        o.kind = "value";
    } catch (const osmium::invalid_location&) {
        o.kind = "invalid_location";
    } catch (const osmium::opl_error&) {
        o.kind = "opl_error";
    } catch (const std::invalid_argument&) {
        o.kind = "invalid_argument";
    } catch (const std::range_error&) {
        o.kind = "range_error";
    } catch (const std::exception& e) {
        o.kind = std::string{"other exception: "} + e.what();
    }
    return o;
}

void expect(int step, const char* fn, const Outcome& got, bool ok, int64_t v, long rest, const char* exc) {
    Outcome e;
    if (ok) {
        e.kind = "value";
        e.v = v;
        e.rest = got.rest >= 0 ? rest : -1;
    } else {
        e.kind = exc;
    }
    const bool same = e.kind == got.kind && (!ok || (e.v == got.v && e.rest == got.rest));
    if (!same) {
        throw vh::Mismatch(step, e.j(), got.j(), fn);
    }
}

void expect_text(int step, const char* fn, const Outcome& got, bool ok, const std::string& text, const char* exc) {
    Outcome e;
    e.kind = ok ? "value" : exc;
    if (ok) e.text = text;
    if (e.kind != got.kind || (ok && e.text != got.text)) {
        Outcome g = got;
        if (g.text.empty()) g.text = "(empty)";
        if (e.text.empty() && ok) e.text = "(empty)";
        throw vh::Mismatch(step, e.j(), g.j(), fn);
    }
}

// ---- coordinates -------------------------------------------------------------------------------------------------

void do_coord(int k, const json& it) {
    const std::string s = it["s"].get<std::string>();
    const bool ok = it["ok"].get<bool>();
    const int64_t v = ok ? it["v"].get<int64_t>() : 0;
    const long rest = ok ? it["rest"].get<long>() : 0;
    const bool full = ok && rest == static_cast<long>(s.size()) + 1;
    const int32_t sentinel = 123456789;

    Outcome a = call([&](Outcome& o) {
        osmium::Location l{sentinel, sentinel};
        const char* p = s.c_str();
        l.set_lon_partial(&p);
        o.v = l.x();
        o.rest = (p - s.c_str()) + 1;
        if (l.y() != sentinel) throw std::logic_error{"set_lon_partial changed y"};
    });
    expect(k, "Location::set_lon_partial", a, ok, v, rest, "invalid_location");
    Outcome b = call([&](Outcome& o) {
        osmium::Location l{sentinel, sentinel};
        const char* p = s.c_str();
        l.set_lat_partial(&p);
        o.v = l.y();
        o.rest = (p - s.c_str()) + 1;
        if (l.x() != sentinel) throw std::logic_error{"set_lat_partial changed x"};
    });
    expect(k, "Location::set_lat_partial", b, ok, v, rest, "invalid_location");
    Outcome c = call([&](Outcome& o) {
        osmium::Location l{sentinel, sentinel};
        l.set_lon(s.c_str());
        o.v = l.x();
    });
    expect(k, "Location::set_lon", c, full, v, -1, "invalid_location");
    Outcome d = call([&](Outcome& o) {
        osmium::Location l{sentinel, sentinel};
        l.set_lat(s.c_str());
        o.v = l.y();
    });
    expect(k, "Location::set_lat", d, full, v, -1, "invalid_location");
}

void do_cfmt(int k, const json& it) {
    const int32_t v = static_cast<int32_t>(it["v"].get<int64_t>());
    const std::string str = it["str"].get<std::string>();
    Outcome a = call([&](Outcome& o) {
        osmium::detail::append_location_coordinate_to_string(std::back_inserter(o.text), v);
    });
    expect_text(k, "append_location_coordinate_to_string", a, true, str, "");
    Outcome b = call([&](Outcome& o) {
        osmium::Location{v, 0}.as_string(std::back_inserter(o.text), ',');
    });
    expect_text(k, "Location(v,0).as_string", b, it["vlon"].get<bool>(), str + ",0", "invalid_location");
    Outcome c = call([&](Outcome& o) {
        osmium::Location{0, v}.as_string(std::back_inserter(o.text), ' ');
    });
    expect_text(k, "Location(0,v).as_string", c, it["vlat"].get<bool>(), "0 " + str, "invalid_location");
    Outcome d = call([&](Outcome& o) {
        osmium::Location{v, v}.as_string_without_check(std::back_inserter(o.text), ',');
    });
    expect_text(k, "Location(v,v).as_string_without_check", d, true, str + "," + str, "");
    // the round trip theorem of the spec, on the implementation
    Outcome e = call([&](Outcome& o) {
        osmium::Location l;
        l.set_lon(str.c_str());
        l.set_lat(str.c_str());
        if (l.x() != l.y()) throw std::logic_error{"set_lon and set_lat differ"};
        o.v = l.x();
    });
    expect(k, "set_lon(format(v))", e, true, v, -1, "");
}

// ---- timestamps --------------------------------------------------------------------------------------------------

void do_tparse(int k, const json& it) {
    const std::string s = it["s"].get<std::string>();
    const bool ok = it["ok"].get<bool>();
    const bool rep = ok && it["rep"].get<bool>();
    const int64_t t = rep ? static_cast<int64_t>(it["t"].get<uint64_t>()) : 0;
    const long rest = ok ? it["rest"].get<long>() : 0;

    Outcome a = call([&](Outcome& o) {
        const osmium::Timestamp ts{s.c_str()};
        o.v = static_cast<int64_t>(static_cast<uint32_t>(ts));
    });
    Outcome b = call([&](Outcome& o) {
        const osmium::Timestamp ts{s};
        o.v = static_cast<int64_t>(static_cast<uint32_t>(ts));
    });
    Outcome c = call([&](Outcome& o) {
        const char* p = s.c_str();
        const std::time_t tt = osmium::detail::parse_timestamp(&p);
        o.v = static_cast<int64_t>(static_cast<uint32_t>(tt));
        o.rest = (p - s.c_str()) + 1;
    });
    if (ok && !rep) {
        // a well-formed date that does not fit into the 32 bit timestamp: the property does not say what happens;
        // the calls above must merely come back (value or documented exception)
        for (const Outcome* o : {&a, &b, &c}) {
            if (o->kind != "value" && o->kind != "invalid_argument") {
                throw vh::Mismatch(k, json{{"r", "value or invalid_argument"}}, o->j(), "Timestamp(out of range date)");
            }
        }
        return;
    }
    expect(k, "Timestamp(const char*)", a, ok, t, -1, "invalid_argument");
    expect(k, "Timestamp(std::string)", b, ok, t, -1, "invalid_argument");
    expect(k, "detail::parse_timestamp(const char**)", c, ok, t, rest, "invalid_argument");
}

void do_tfmt(int k, const json& it) {
    const uint32_t t = static_cast<uint32_t>(it["t"].get<uint64_t>());
    const std::string str = it["str"].get<std::string>();
    Outcome a = call([&](Outcome& o) { o.text = osmium::Timestamp{t}.to_iso(); });
    expect_text(k, "Timestamp::to_iso", a, true, t == 0 ? std::string{} : str, "");
    Outcome b = call([&](Outcome& o) { o.text = osmium::Timestamp{t}.to_iso_all(); });
    expect_text(k, "Timestamp::to_iso_all", b, true, str, "");
    Outcome c = call([&](Outcome& o) { o.v = static_cast<int64_t>(static_cast<uint32_t>(osmium::Timestamp{str.c_str()})); });
    expect(k, "Timestamp(iso(t))", c, true, static_cast<int64_t>(t), -1, "");
    // the same conversion while other threads convert other values (libosmium formats on its output pool threads; the
    // result must not depend on what other threads are doing): every 16th case
    static unsigned long counter = 0;
    if (t != 0 && (counter++ % 16) == 0) {
        std::atomic<bool> stop{false};
        std::vector<std::thread> others;
        for (unsigned i = 0; i < 3; ++i) {
            others.emplace_back([&stop, i, t] {
                uint32_t x = t * 2654435761U + i * 977U + 1U;
                while (!stop.load(std::memory_order_relaxed)) {
                    x = x * 1664525U + 1013904223U;
                    volatile std::size_t len = osmium::Timestamp{x | 1U}.to_iso_all().size();
                    (void)len;
                }
            });
        }
        std::string bad;
        for (int rep = 0; rep < 2000 && bad.empty(); ++rep) {
            const std::string got = osmium::Timestamp{t}.to_iso_all();
            if (got != str) bad = got;
        }
        stop = true;
        for (auto& th : others) th.join();
        if (!bad.empty()) {
            throw vh::Mismatch(k, str, bad, "Timestamp::to_iso_all while three other threads format other timestamps");
        }
    }
}

// ---- integers ----------------------------------------------------------------------------------------------------

template <typename F>
void opl_one(int k, const char* fn, const std::string& s, const json& e, F&& f) {
    Outcome a = call([&](Outcome& o) {
        const char* p = s.c_str();
        o.v = static_cast<int64_t>(f(&p));
        o.rest = (p - s.c_str()) + 1;
    });
    const bool ok = e["ok"].get<bool>();
    expect(k, fn, a, ok, ok ? e["v"].get<int64_t>() : 0, ok ? e["rest"].get<long>() : 0, "opl_error");
}

template <typename F>
void str_one(int k, const char* fn, const std::string& s, const json& e, F&& f) {
    Outcome a = call([&](Outcome& o) { o.v = static_cast<int64_t>(f(s.c_str())); });
    const bool ok = e["ok"].get<bool>();
    expect(k, fn, a, ok, ok ? e["v"].get<int64_t>() : 0, -1, "range_error");
}

void do_int(int k, const json& it) {
    namespace d = osmium::io::detail;
    const std::string s = it["s"].get<std::string>();
    opl_one(k, "opl_parse_id", s, it["opl64"], [](const char** p) { return d::opl_parse_id(p); });
    opl_one(k, "opl_parse_changeset_id", s, it["opl32"], [](const char** p) { return d::opl_parse_changeset_id(p); });
    opl_one(k, "opl_parse_version", s, it["opl32"], [](const char** p) { return d::opl_parse_version(p); });
    opl_one(k, "opl_parse_uid", s, it["opl32"], [](const char** p) { return d::opl_parse_uid(p); });
    opl_one(k, "opl_parse_int<num_changes_type>", s, it["opl32"], [](const char** p) { return d::opl_parse_int<osmium::num_changes_type>(p); });
    str_one(k, "string_to_object_id", s, it["oid"], [](const char* p) { return osmium::string_to_object_id(p); });
    str_one(k, "string_to_object_version", s, it["ulong"], [](const char* p) { return osmium::string_to_object_version(p); });
    str_one(k, "string_to_changeset_id", s, it["ulong"], [](const char* p) { return osmium::string_to_changeset_id(p); });
    str_one(k, "string_to_uid", s, it["ulong"], [](const char* p) { return osmium::string_to_uid(p); });
    str_one(k, "string_to_num_changes", s, it["ulong"], [](const char* p) { return osmium::string_to_num_changes(p); });
    str_one(k, "string_to_num_comments", s, it["ulong"], [](const char* p) { return osmium::string_to_num_comments(p); });
    Outcome a = call([&](Outcome& o) { o.v = osmium::detail::str_to_int<int>(s.c_str()); });
    expect(k, "str_to_int<int>", a, true, it["sti32"].get<int64_t>(), -1, "");
    Outcome b = call([&](Outcome& o) { o.v = osmium::detail::str_to_int<int64_t>(s.c_str()); });
    expect(k, "str_to_int<int64_t>", b, true, it["sti64"].get<int64_t>(), -1, "");
    Outcome c = call([&](Outcome& o) { o.v = static_cast<int64_t>(osmium::detail::str_to_int<std::size_t>(s.c_str())); });
    expect(k, "str_to_int<size_t>", c, true, it["sti64"].get<int64_t>(), -1, "");
}

struct Block : public osmium::io::detail::OutputBlock {
    Block() : OutputBlock(osmium::memory::Buffer{64}) {}
    std::string run(int64_t v) {
        m_out->assign("id=");
        output_int(v);
        return *m_out;
    }
};

void do_iout(int k, const json& it) {
    const int64_t v = it["v"].get<int64_t>();
    const std::string str = it["str"].get<std::string>();
    Outcome a = call([&](Outcome& o) { Block blk; o.text = blk.run(v); });
    expect_text(k, "OutputBlock::output_int", a, true, "id=" + str, "");
    Outcome b = call([&](Outcome& o) {
        const char* p = str.c_str();
        o.v = osmium::io::detail::opl_parse_id(&p);
        o.rest = (p - str.c_str()) + 1;
    });
    expect(k, "opl_parse_id(output_int(v))", b, true, v, static_cast<long>(str.size()) + 1, "");
}

// ---- round trip sweeps (the theorems RoundTrip of NumTextCoordFmt / NumTextTime on the implementation) --------------

void do_sweep(int k, const json& it) {
    const std::string what = it["what"].get<std::string>();
    const int64_t from = it["from"].get<int64_t>();
    const int64_t to = it["to"].get<int64_t>();
    const int64_t stride = it["stride"].get<int64_t>();
    std::string buf;
    if (what == "coord") {
        for (int64_t x = from; x <= to; x += stride) {
            buf.clear();
            const int32_t v = static_cast<int32_t>(x);
            osmium::detail::append_location_coordinate_to_string(std::back_inserter(buf), v);
            const char* p = buf.c_str();
            int32_t r = 0;
            bool thrown = false;
            try {
                r = osmium::detail::string_to_location_coordinate(&p);
            } catch (const osmium::invalid_location&) {
                thrown = true;
            }
            if (thrown || r != v || *p != '\0') {
                throw vh::Mismatch(k, json{{"x", x}}, json{{"text", buf}, {"parsed", thrown ? json("invalid_location") : json(r)}}, "parse(format(x)) != x");
            }
        }
    } else {
        for (int64_t x = from; x <= to; x += stride) {
            const uint32_t t = static_cast<uint32_t>(x);
            buf = osmium::Timestamp{t}.to_iso_all();
            uint32_t r = 0;
            bool thrown = false;
            try {
                r = static_cast<uint32_t>(osmium::Timestamp{buf.c_str()});
            } catch (const std::invalid_argument&) {
                thrown = true;
            }
            if (thrown || r != t || buf.size() != 20) {
                throw vh::Mismatch(k, json{{"t", x}}, json{{"text", buf}, {"parsed", thrown ? json("invalid_argument") : json(r)}}, "parse(iso(t)) != t");
            }
        }
    }
}

} // namespace

int main() {
    return vh::run_cases([](const json& c) {
        const std::string kind = c["kind"].get<std::string>();
        void (*fn)(int, const json&) = nullptr;
        if (kind == "coord") fn = do_coord;
        else if (kind == "cfmt") fn = do_cfmt;
        else if (kind == "tparse") fn = do_tparse;
        else if (kind == "tfmt") fn = do_tfmt;
        else if (kind == "int") fn = do_int;
        else if (kind == "iout") fn = do_iout;
        else if (kind == "sweep") fn = do_sweep;
        else throw std::runtime_error{"unknown case kind " + kind};
        int k = 0;
        for (const auto& it : c["steps"]) {
            vh::step_marker(k);
            fn(k, it);
            ++k;
        }
    });
}
