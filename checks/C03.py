"""C03 - malformed or hostile input never causes memory errors, aborts or hangs.

Level: fault_enumeration.  Specs: FaultModel.tla (structure catalogue of PBF / o5m / OPL / XML-attributes /
XML-documents x fault kinds x truncations, enumerated exhaustively by TLC) and FaultModelXml.tla (the XML
handler as an implementation-shaped state machine driven by every element sequence within the bound; TLC
checks "whatever is committed is a well-formed item" and exports every terminal history with the expected
outcome and the expected shape of every committed object).  Binding: every exported description is
materialised by tools/fault_enc.py and read with the real osmium::io::Reader by harness/fault_replay.cpp
(plain / gzip / bzip2, from memory / from a file), in an NDEBUG build and in an assertions-enabled build,
both under ASan+UBSan, with a per-case watchdog.  Oracle: see the harness header."""
import hashlib
import json
import os
import shutil
import sys
import threading
import time

import vlib

sys.path.insert(0, os.path.join(vlib.VERIF, "tools"))
import fault_enc as fe  # noqa: E402

LEVEL = "fault_enumeration"

XML_VOCAB_SUB = {
    "all": ["osm", "osmChange", "create", "modify", "delete", "node", "way", "relation", "changeset", "tag", "nd", "member", "discussion",
            "comment", "text", "bounds", "bbox", "foo"],
    # sub-vocabularies that reach length 6 exhaustively (the full vocabulary is exhaustive to length 3 / 4)
    "cs": ["osm", "changeset", "tag", "discussion", "comment", "text", "foo"],
    "way": ["osm", "way", "nd", "tag", "bbox", "foo"],
    "rel": ["osmChange", "modify", "delete", "relation", "member", "tag"],
}
SIM_N = 4000          # TLC -simulate num= per configuration (thorough tier)
TYPE_SETS = ["n", "w", "r", "c", "nw", "wr", "nr"]
VARIANTS = [("gzip", "mem"), ("bzip2", "mem"), ("none", "file"), ("gzip", "file"), ("bzip2", "file")]
ASAN = "detect_leaks=0:abort_on_error=0:exitcode=97:allocator_may_return_null=1:max_allocation_size_mb=1024"


def _sub_cfg(name, n, types="nwrc"):
    """cfgs for the sub-vocabulary / reduced read_types runs are generated (they only differ in Vocab / MaxElems / ReadTypes)"""
    voc = XML_VOCAB_SUB[name]
    path = os.path.join(vlib.SPECS, "GenFaultXml%d_%s%s.cfg" % (n, name, "" if types == "nwrc" else "_" + types))
    text = ("SPECIFICATION Spec\nCONSTANTS\n  MaxElems = %d\n  MaxDepth = 6\n  Fixed = TRUE\n  ReadTypes = {%s}\n  ExportHist = TRUE\n  Vocab = {%s}\n"
            "INVARIANTS TypeOK WellFormedCommitted BuilderDiscipline NoStaleBuilders ObjectMatchesStack Export\nCHECK_DEADLOCK FALSE\n"
            % (n, ", ".join('"%s"' % t for t in types), ", ".join('"%s"' % v for v in voc)))
    if not os.path.exists(path) or open(path).read() != text:
        with open(path, "w") as fh:
            fh.write(text)
    return os.path.basename(path)


# ------------------------------------------------------------------------------------------- descriptions -> cases

def desc_key(d):
    if "ev" in d:
        return "xml ev=" + ",".join(d["ev"])
    fs = ",".join("%s:%s" % (f["pos"], f["f"]) for f in sorted(d.get("faults", []), key=lambda f: f["pos"]))
    t = d.get("trunc")
    ts = "%s/%s/%s" % (t["pos"], t["w"], t["level"]) if t else "-"
    return "%s base=%s faults=[%s] trunc=%s" % (d["fmt"], d.get("base"), fs, ts)


def norm_desc(d):
    """TLC export -> encoder description"""
    d = dict(d)
    t = d.get("trunc")
    if t and t.get("pos") == "-":
        d["trunc"] = None
    if d["fmt"] == "xml" and "faults" in d:
        fs = d["faults"]
        if not fs:
            return dict(fmt="xml", ev=["S:osm", "S:node", "S:tag", "E", "E", "E"], exp=dict(outcome="data"), key="xml base")
        f = fs[0]
        if f["pos"] == "doc":
            return dict(fmt="xml", doc=f["f"], exp=dict(outcome="any"), key="xml doc=%s" % f["f"])
        el, a = f["pos"].split(".", 1)
        return dict(fmt="xml", attr=dict(el=el, a=a, f=f["f"]), exp=dict(outcome="any"), key="xml attr=%s:%s" % (f["pos"], f["f"]))
    d["key"] = desc_key(d)
    return d


def shape_from_spec(objs):
    out = []
    for o in objs:
        s = [o[0]]
        for sub in o[1:]:
            if sub[0] == "D":
                s.append(["D", "".join(str(x) for x in sub[1])])
            else:
                s.append([sub[0], sub[1]])
        out.append(s)
    return out


class CaseSet:
    def __init__(self):
        self.cases = []
        self.seen = set()
        self.noop = 0
        self.inapplicable = 0
        self.dups = 0
        self.by_class = {}

    def add(self, key, fmt, data, rawlen, exp, comp="none", via="mem", cls="", trunc_frac=None, valid=None, **opts):
        b = fe.compress(data, comp, trunc_frac)
        h = hashlib.sha1(b).hexdigest()
        k = (fmt, comp, via, h, json.dumps(exp, sort_keys=True) if exp and exp.get("outcome") != "any" else "", json.dumps(opts, sort_keys=True))
        if k in self.seen:
            self.dups += 1
            return
        self.seen.add(k)
        c = dict(id="c%d" % len(self.cases), key=key + "".join(" %s=%s" % kv for kv in sorted(opts.items())), fmt=fmt, comp=comp, via=via,
                 hex=b.hex(), rawlen=rawlen, cls=cls)
        c.update(opts)
        if exp:
            c["exp"] = exp
        if valid is not None and data == valid and trunc_frac is None:
            c["noop"] = True
            self.noop += 1
        self.by_class[cls] = self.by_class.get(cls, 0) + 1
        self.cases.append(c)


def materialise_struct(cs, descs, fmt, quick, seed, valid_bytes):
    n = 0
    # TLC's output order depends on its worker threads: order the descriptions so that the variant rotation is reproducible
    descs = sorted((norm_desc(d) for d in descs), key=lambda d: d["key"])
    seen_keys = set()
    for d in descs:
        if d["key"] in seen_keys:          # random walks repeat themselves
            cs.dups += 1
            continue
        seen_keys.add(d["key"])
        t = d.get("trunc")
        key = d["key"]
        if t and t.get("w") == "every-prefix":
            base = dict(d, trunc=None)
            b, rawlen, _ = fe.materialise(base)
            stride = 1
            for k in range(0, len(b), stride):
                cs.add(key + " prefix=%d" % k, fmt, b[:k], rawlen, dict(outcome="any"), cls=fmt + ":prefix")
            # through the decompressors: the compressed prefix, and prefixes of the compressed file
            step = 7 if quick else 1
            for comp in ("gzip", "bzip2"):
                for k in range(0, len(b), step * 3):
                    cs.add(key + " prefix=%d" % k, fmt, b[:k], rawlen, dict(outcome="any"), comp=comp, cls=fmt + ":prefix-z")
                z = fe.compress(b, comp)
                for k in range(0, len(z), step):
                    cs.add(key + " zprefix=%d" % k, fmt, b, rawlen, dict(outcome="any"), comp=comp, cls=fmt + ":zprefix", trunc_frac=(k + 0.5) / len(z))
            continue
        try:
            b, rawlen, _ = fe.materialise(d)
        except fe.Unknown as ex:
            if t and d.get("faults"):
                # a fault (missing / empty element, blob stored differently) removed the element the truncation refers to
                cs.inapplicable += 1
                continue
            raise vlib.ModelFailure("spec position/fault unknown to the encoder: %s (%s)" % (key, ex))
        exp = d.get("exp") or dict(outcome="any")
        exp = {k: v for k, v in exp.items() if not (k == "nobj" and v < 0)}
        valid = valid_bytes.get((fmt, d.get("base")))
        if fmt == "xml":
            cls = "xml:" + ("doc" if "doc" in d else "attr" if "attr" in d else "base")
        else:
            cls = fmt + ":" + (("fault%d+trunc" % len(d["faults"]) if d.get("faults") else "trunc") if t else "fault%d" % len(d.get("faults", [])))
        cs.add(key, fmt, b, rawlen, exp, cls=cls, valid=valid)
        if len(b) > 300000:
            continue
        single = len(d.get("faults", [])) < 2 and not (t and d.get("faults"))
        extra = VARIANTS if not quick and single and len(b) < 5000 else [VARIANTS[(n + seed) % len(VARIANTS)]]
        for comp, via in extra:
            cs.add(key, fmt, b, rawlen, exp, comp=comp, via=via, cls=cls + "+" + comp + "/" + via, valid=valid)
        # the parsers have separate code paths for "no metadata wanted" (PBF: a second dense-node decoder) and for
        # entity types that were not asked for (objects are skipped / not built)
        # (with a subset of the entity types even the valid base file need not be readable: the o5m parser skips datasets of
        # unwanted types without decoding them and so loses the state of its string table - observed, reported, not C03's business)
        eany = dict(outcome="any")
        if fmt == "pbf" and (single or n % 3 == 0):
            cs.add(key, fmt, b, rawlen, exp, cls=cls + "+nometa", valid=valid, meta=False)
        if single or n % 3 == 1:
            types = TYPE_SETS[(n + seed) % len(TYPE_SETS)]
            cs.add(key, fmt, b, rawlen, eany, cls=cls + "+types", valid=valid, types=types)
        n += 1


def _handler_chunk(args):
    payloads, quick, seed, label, first, types = args
    out = []
    n = first
    for p in payloads:
        d = dict(fmt="xml", ev=p["ev"], close=True)
        b, rawlen, _ = fe.materialise(d)
        exp = dict(outcome=p["outcome"])
        if p["outcome"] == "data":
            exp["objs"] = shape_from_spec(p["objs"])
            exp["nobj"] = p["n"]
        key = desc_key(d)
        cls = "xml:handler-" + label
        if types != "nwrc":
            key += " types=" + types
        out.append(dict(id="h%s-%d" % (label, n), key=key, fmt="xml", comp="none", via="mem", hex=b.hex(), rawlen=rawlen, cls=cls, exp=exp, types=types))
        if (n + seed) % (11 if quick else 7) == 0:
            comp, via = VARIANTS[(n // 7 + seed) % len(VARIANTS)]
            out.append(dict(id="h%s-%d-%s-%s" % (label, n, comp, via), key=key, fmt="xml", comp=comp, via=via, hex=fe.compress(b, comp).hex(),
                            rawlen=rawlen, cls=cls + "+" + comp + "/" + via, exp=exp, types=types))
        n += 1
    return out


def materialise_xml_handler(payloads, quick, seed, label, first, types="nwrc"):
    """distinct histories give distinct documents: no de-duplication needed; done in worker processes"""
    import multiprocessing
    step = 5000
    jobs = [(payloads[i:i + step], quick, seed, label, first + i, types) for i in range(0, len(payloads), step)]
    if len(jobs) <= 1:
        return [c for j in jobs for c in _handler_chunk(j)]
    with multiprocessing.Pool(min(8, vlib.NCPU)) as pool:
        return [c for part in pool.map(_handler_chunk, jobs) for c in part]


# ------------------------------------------------------------------------------------------- TLC

_tlc_lock = threading.Lock()


def _add_tlc(ctx, r, label):
    with _tlc_lock:
        ctx.add_tlc(r, label)


def run_tlc(ctx, quick, out, part):
    """all TLC work (two threads - "struct" and "xml" - run while the harness builds)"""
    try:
        w = 4
        if part == "xml":
            return run_tlc_xml(ctx, quick, out, w)
        r = vlib.tlc_ok(vlib.tlc("FaultModelXml", "MCFaultXmlQ.cfg" if quick else "MCFaultXml.cfg", workers=w, coverage=True, timeout=900),
                        "XML handler design check")
        vlib.require_actions(r, ["Start", "End", "Chars"], "XML handler design check")
        _add_tlc(ctx, r, "FaultModelXml: repaired handler, every element sequence over 18 elements, <= %d elements, depth <= 6: "
                       "WellFormedCommitted, BuilderDiscipline, NoStaleBuilders, ObjectMatchesStack" % (5 if quick else 6))
        rd = vlib.tlc("FaultModelXml", "MCFaultXmlDefect.cfg", workers=w, timeout=600, extra=["-noGenerateSpecTE"])
        if rd.error or not rd.violation or "WellFormedCommitted" not in rd.violation:
            raise vlib.ModelFailure("the as-shipped handler model (Fixed=FALSE) must violate WellFormedCommitted - the model lost its teeth: %s"
                                    % (rd.error or rd.violation or "no violation"))
        _add_tlc(ctx, rd, "FaultModelXml as shipped (Fixed=FALSE): WellFormedCommitted violated as expected (comment without text)")
        out["struct"] = {}
        for fmt in ("pbf", "o5m", "opl", "xml"):
            if not quick and fmt != "xml":
                r = vlib.tlc_ok(vlib.tlc("FaultModel", "MCFault_%s.cfg" % fmt, workers=w, timeout=900), "fault catalogue %s" % fmt)
                _add_tlc(ctx, r, "FaultModel %s: 1 fault with a truncation on top, Applicable / TruncOK / DistinctPositions" % fmt)
            cfg = "GenFault_%sQ.cfg" % fmt
            r = vlib.tlc_ok(vlib.tlc("FaultModel", cfg, workers=w, timeout=1200), "fault export %s" % fmt)
            _add_tlc(ctx, r, "FaultModel %s export, exhaustive: base file x (one fault | one truncation | every prefix) (%s)" % (fmt, cfg))
            out["struct"][fmt] = r.cases
            if not quick and fmt != "xml":
                # multi-fault descriptions: seeded random walks through the same machine (pairs of faults; <= 2 faults + truncation)
                for cfg, lab in (("SimFault_%s.cfg" % fmt, "two faults"), ("SimFaultT_%s.cfg" % fmt, "<= 2 faults with a truncation on top")):
                    r = vlib.tlc_ok(vlib.tlc("FaultModel", cfg, workers=w, simulate=SIM_N, depth=8, seed=ctx.seed, timeout=900), "fault simulation %s" % fmt)
                    _add_tlc(ctx, r, "FaultModel %s simulation (%s): %s" % (fmt, cfg, lab))
                    out["struct"][fmt] = out["struct"][fmt] + r.cases
    except BaseException as ex:  # re-raised in the main thread
        out["error"] = ex


def run_tlc_xml(ctx, quick, out, w):
    try:
        out["xml"] = []
        r = vlib.tlc_ok(vlib.tlc("FaultModelXml", "GenFaultXml3.cfg" if quick else "GenFaultXml4.cfg", workers=w, timeout=1500), "XML handler export")
        _add_tlc(ctx, r, "FaultModelXml export: every terminal history, full vocabulary, <= %d elements" % (3 if quick else 4))
        full = sorted(r.cases, key=lambda c: c["ev"])
        frac = float(os.environ.get("C03_DEV_FRACTION", "1") or "1")
        if frac < 1:
            import random
            random.Random(ctx.seed).shuffle(full)
            full = full[:int(len(full) * frac)]
            ctx.extra.setdefault("sampled", {})["full"] = "development run: fraction %s" % frac
        out["xml"].append(("full%d" % (3 if quick else 4), full, "nwrc"))
        # (vocabulary, elements, read_types, replay a seeded sample of this many histories / 0 = all)
        runs = ((("cs", 4, "nwrc", 0), ("way", 4, "nwrc", 0), ("rel", 4, "nwrc", 0), ("all", 2, "n", 0), ("all", 2, "c", 0), ("cs", 4, "n", 0)) if quick else
                (("cs", 5, "nwrc", 0), ("cs", 6, "nwrc", 30000), ("way", 5, "nwrc", 0), ("rel", 5, "nwrc", 0), ("all", 3, "n", 0), ("all", 3, "c", 0),
                 ("all", 3, "wr", 0), ("cs", 4, "n", 0)))
        for name, n, types, sample in runs:
            r = vlib.tlc_ok(vlib.tlc("FaultModelXml", _sub_cfg(name, n, types), workers=w, timeout=1500), "XML handler export %s" % name)
            _add_tlc(ctx, r, "FaultModelXml export: every terminal history over the vocabulary %s, <= %d elements, read_types=%s"
                        % (name if name == "all" else XML_VOCAB_SUB[name], n, types or "nothing"))
            cases = sorted(r.cases, key=lambda c: c["ev"])      # TLC's output order depends on its worker threads
            frac = float(os.environ.get("C03_DEV_FRACTION", "1") or "1")     # development only: shorter thorough runs
            if frac < 1:
                sample = max(1000, int((sample or len(cases)) * frac))
            if sample and len(cases) > sample:
                import random
                random.Random(ctx.seed).shuffle(cases)
                ctx.extra.setdefault("sampled", {})["%s%d" % (name, n)] = "%d of %d histories replayed" % (sample, len(cases))
                cases = cases[:sample]
            out["xml"].append(("%s%d%s" % (name, n, "" if types == "nwrc" else "-" + (types or "none")), cases, types))
    except BaseException as ex:  # re-raised in the main thread
        out["error"] = ex


# ------------------------------------------------------------------------------------------- replay

def binaries():
    specs = [dict(name="fault_replay", src="fault_replay.cpp", flags=["-fno-access-control"], ndebug=True),
             dict(name="fault_replay_dbg", src="fault_replay.cpp", flags=["-fno-access-control"], ndebug=False)]
    return vlib.build_many(specs)


def failure_kind(r):
    if r.get("died"):
        return r["died"]
    if r.get("crash"):
        return r["crash"]
    return r.get("note", "mismatch")


_confirmed_hangs = [0]


def classify(ctx, case, r, build, binary, tmpdir):
    kind = failure_kind(r)
    if kind in ("hang", "timeout") and _confirmed_hangs[0] < 2:
        # a hang is only reported when it reproduces alone with a long watchdog (once two hangs were confirmed that way the
        # others are taken as they are: every confirmation costs minutes)
        rr = vlib.replay_cases(binary, [case], nproc=1, timeout=400, args=(tmpdir, "240"), env={"ASAN_OPTIONS": ASAN})
        if rr and not rr[0].get("ok") and failure_kind(rr[0]) in ("hang", "timeout"):
            _confirmed_hangs[0] += 1
        if rr and rr[0].get("ok") and not rr[0].get("skipped"):
            return
        if rr and not rr[0].get("skipped"):
            r = rr[0]
            kind = failure_kind(r)
    detail = ""
    if r.get("crash") and r["crash"] != "timeout":
        # run the case once more alone to get the complete sanitizer report (vlib keeps only an excerpt)
        rc, so, se = vlib.run_harness(binary, (tmpdir, "240"), stdin_text=json.dumps(case) + "\n", timeout=400, env={"ASAN_OPTIONS": ASAN})
        if rc != 0 and se.strip():
            r = dict(r, stderr=se[:6000])
        lines = [l for l in r.get("stderr", "").splitlines() if "runtime error" in l or "ERROR: AddressSanitizer" in l or "SUMMARY" in l]
        detail = (lines[0] if lines else "")[:200]
        if "AddressSanitizer" in detail:
            # "==pid==ERROR: AddressSanitizer: heap-buffer-overflow on address 0x... at pc ..." -> keep the error class only
            detail = "AddressSanitizer: " + detail.split("AddressSanitizer:")[-1].split(" on ")[0].strip()
            frames = [l.strip() for l in r.get("stderr", "").splitlines() if l.lstrip().startswith("#") and "/include/osmium/" in l]
            if frames:
                detail += " at " + frames[0].split("/include/")[-1][:80]
        # the file and line of a UBSan report identify the defect
        for l in lines:
            if "runtime error" in l:
                detail = l.split("/include/")[-1][:160]
                break
    elif r.get("note") in ("illformed", "outcome"):
        detail = str(r.get("got"))[:120]
    elif "note" in r:
        detail = "exp=%s got=%s" % (json.dumps(r.get("exp"))[:80], json.dumps(r.get("got"))[:80])
    sig = "%s comp=%s via=%s build=%s :: %s %s" % (case["key"], case["comp"], case["via"], build, kind, detail)
    what = "%s build, %s: %s %s | %s" % (build, case["key"], kind, detail, (r.get("stderr") or "")[:500])
    ctx.violation(sig, {"case": case, "build": build, "result": {k: v for k, v in r.items() if k != "stderr"}}, what)


def replay_all(ctx, cases, builds, tmpdir, stats):
    bins = dict(zip(("ndebug", "assert"), binaries()))
    byid = {c["id"]: c for c in cases}
    for build in builds:
        sel = cases
        res = vlib.replay_cases(bins[build], sel, timeout=1500, args=(tmpdir, "60"), env={"ASAN_OPTIONS": ASAN}, max_crashes=60)
        if len(res) != len(sel):
            raise vlib.ModelFailure("replay (%s) returned %d results for %d cases" % (build, len(res), len(sel)))
        for r in res:
            c = byid[r["id"]]
            if r.get("skipped"):
                stats["skipped"] = stats.get("skipped", 0) + 1
                continue
            stats["runs"] += 1
            oc = r.get("outcome") or "none"
            st = stats["outcomes"].setdefault(c["fmt"], {})
            lab = oc if oc != "error" else "error:" + r.get("exc", "?")
            st[lab] = st.get(lab, 0) + 1
            if r.get("ok"):
                continue
            if str(r.get("note", "")).startswith("harness:"):
                raise vlib.ModelFailure("harness failure on %s: %s" % (c["key"], r["note"]))
            classify(ctx, c, r, build, bins[build], tmpdir)


def run(ctx):
    quick = ctx.tier == "quick"
    tmpdir = os.path.join(vlib.BUILD, "tmp", "c03_%d" % os.getpid())
    os.makedirs(tmpdir, exist_ok=True)
    out = {}
    ths = [threading.Thread(target=run_tlc, args=(ctx, quick, out, part)) for part in ("struct", "xml")]
    for th in ths:
        th.start()
    try:
        binaries()               # cold build runs while TLC works
    finally:
        for th in ths:
            th.join()
    if "error" in out:
        raise out["error"]

    t0 = time.time()
    cs = CaseSet()
    valid = {}
    for fmt, bases in (("pbf", ("zlib", "raw")), ("o5m", ("m", "c", "big")), ("opl", ("l",))):
        for b in bases:
            valid[(fmt, b)] = fe.materialise(dict(fmt=fmt, base=b))[0]
    ndesc = 0
    for fmt in ("pbf", "o5m", "opl", "xml"):
        descs = out["struct"][fmt]
        ndesc += len(descs)
        materialise_struct(cs, descs, fmt, quick, ctx.seed, valid)
    vlib.log("[C03] %d structure descriptions -> %d cases (%d duplicates dropped, %d identical to the valid file) in %.1fs"
             % (ndesc, len(cs.cases), cs.dups, cs.noop, time.time() - t0))

    stats = {"runs": 0, "outcomes": {}}
    ncases = len(cs.cases)
    nontrivial = len(set((c["fmt"], c["comp"], c["hex"]) for c in cs.cases if not c.get("noop")))
    samples = list(cs.cases)
    try:
        replay_all(ctx, cs.cases, ("ndebug", "assert"), tmpdir, stats)
        for label, payloads, types in out["xml"]:
            ndesc += len(payloads)
            for i in range(0, len(payloads), 120000):
                t1 = time.time()
                batch = materialise_xml_handler(payloads[i:i + 120000], quick, ctx.seed, label, i, types)
                for c in batch:
                    cs.by_class[c["cls"]] = cs.by_class.get(c["cls"], 0) + 1
                if i == 0:
                    samples += batch[:3] + batch[-3:]
                ncases += len(batch)
                nontrivial += len(batch)
                t2 = time.time()
                if not quick and label.startswith("full"):
                    # the big export: histories of <= 3 elements run in both builds, the longer ones alternate between the builds
                    both = [c for c in batch if c["key"].count("S:") <= 4]
                    rest = [c for c in batch if c["key"].count("S:") > 4]
                    replay_all(ctx, both, ("ndebug", "assert"), tmpdir, stats)
                    replay_all(ctx, rest[0::2], ("ndebug",), tmpdir, stats)
                    replay_all(ctx, rest[1::2], ("assert",), tmpdir, stats)
                    ctx.extra["full4_split"] = "histories with 4 elements alternate between the two builds; <= 3 elements run in both"
                else:
                    replay_all(ctx, batch, ("ndebug", "assert"), tmpdir, stats)
                vlib.log("[C03] xml handler %s: %d cases materialised in %.1fs, replayed in %.1fs" % (label, len(batch), t2 - t1, time.time() - t2))
                if len(ctx.violations) > 200:
                    break
    finally:
        shutil.rmtree(tmpdir, ignore_errors=True)

    if stats.get("skipped"):
        vlib.log("[C03] %d executions skipped after too many crashes / aborts / hangs" % stats["skipped"])
        if not ctx.violations and not ctx.known_hits:
            raise vlib.ModelFailure("cases were skipped although nothing failed")
    ctx.traces = ncases
    ctx.evaluations = stats["runs"]
    ctx.nontrivial = nontrivial
    ctx.rule = ("a case = (format, byte string, compression, memory/file); the byte strings are the materialisations of every description "
                "TLC exports from FaultModel.tla (base file x <= %d faults at distinct structural positions x optional truncation, every "
                "prefix of every base file, plain and through gzip/bzip2) and of every terminal history of the XML handler model "
                "FaultModelXml.tla; distinct = distinct (format, compression, bytes); non-trivial = differs from the valid base file; "
                "evaluations = executions (each case runs in the NDEBUG and in the assertions-enabled build%s)"
                % (1 if quick else 2, "" if quick else "; the 4-element histories of the full-vocabulary XML export alternate between the builds"))
    for cls in ("pbf:fault1", "o5m:fault1", "opl:fault1", "xml:attr", "xml:handler-full3", "xml:handler-full4", "xml:handler-cs4", "xml:handler-cs6",
                "pbf:trunc", "o5m:prefix"):
        for c in samples:
            if c["cls"] == cls:
                ctx.sample({"key": c["key"], "fmt": c["fmt"], "comp": c["comp"], "via": c["via"], "bytes": len(c["hex"]) // 2,
                            "hex_head": c["hex"][:96], "exp": c.get("exp")}, cap=8)
                break
    ctx.extra["descriptions_exported"] = ndesc
    ctx.extra["cases_per_class"] = dict(sorted(cs.by_class.items()))
    ctx.extra["outcomes_per_format"] = stats["outcomes"]
    ctx.extra["builds"] = ["NDEBUG + ASan + UBSan", "assertions enabled + ASan + UBSan"]
    ctx.extra["duplicates_dropped"] = cs.dups
    ctx.extra["identical_to_valid_file"] = cs.noop
    ctx.extra["truncation_position_removed_by_a_fault"] = cs.inapplicable
    ctx.exhaustive = False
    ctx.assumptions = [
        "inputs are the structure-aware faults of the catalogue in FaultModel.tla and the element sequences of FaultModelXml.tla within "
        "the bounds - not arbitrary byte strings, no coverage guidance (that would be fuzzing)",
        "expat, zlib, libbz2 and protozero are exercised as they are installed here; a finding inside them would be reported but "
        "cannot be repaired in libosmium",
        "memory bound: peak live heap per case (ASan malloc/free hooks) <= 64 x uncompressed input + 96 MiB, single allocations "
        "<= 1 GiB, delivered bytes <= 64 x uncompressed input + 64 KiB",
        "hang = no result within 60 s (re-run alone with 240 s before it is reported)",
        "XML handler model: attributes are the standard valid ones; attribute faults are enumerated separately (one fault per file)",
    ]


def replay(ctx, path):
    with open(path) as fh:
        d = json.load(fh)
    p = d["case"]
    c = p["case"]
    build = p.get("build", "ndebug")
    tmpdir = os.path.join(vlib.BUILD, "tmp", "c03_%d" % os.getpid())
    os.makedirs(tmpdir, exist_ok=True)
    stats = {"runs": 0, "outcomes": {}}
    try:
        replay_all(ctx, [c], (build,), tmpdir, stats)
    finally:
        shutil.rmtree(tmpdir, ignore_errors=True)
    ctx.evaluations = 1
    ctx.nontrivial = 2
    ctx.traces = 1
    ctx.rule = "replay of one recorded case"
    ctx.sample({"key": c["key"], "fmt": c["fmt"], "comp": c["comp"], "via": c["via"], "build": build})
