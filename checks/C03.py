"""C03 - malformed or hostile input never causes memory errors, aborts or hangs.

Level: fault_enumeration.  Specs: FaultModel.tla (structure catalogue of PBF / o5m / OPL / XML-attributes /
XML-documents x fault kinds x truncations, enumerated exhaustively by TLC) and FaultModelXml.tla (the XML
handler as an implementation-shaped state machine driven by every element sequence within the bound; TLC
checks "whatever is committed is a well-formed item" and exports every terminal history with the expected
outcome and the expected shape of every committed object).  Binding: every exported description is
materialised by tools/fault_enc.py and read with the real osmium::io::Reader by harness/fault_replay.cpp
(plain / gzip / bzip2, from memory / from a file), in an NDEBUG build and in an assertions-enabled build,
both under ASan+UBSan, with a per-case watchdog.  Oracle: see the harness header."""
import hashlib
import json
import os
import shutil
import sys
import threading
import time

import vlib

sys.path.insert(0, os.path.join(vlib.VERIF, "tools"))
import fault_enc as fe  # noqa: E402

LEVEL = "fault_enumeration"

XML_VOCAB_SUB = {
    # sub-vocabularies that reach length 6 exhaustively (the full vocabulary is exhaustive to length 3 / 4)
    "cs": ["osm", "changeset", "tag", "discussion", "comment", "text", "foo"],
    "way": ["osm", "way", "nd", "tag", "bbox", "foo"],
    "rel": ["osmChange", "modify", "delete", "relation", "member", "tag"],
}
VARIANTS = [("gzip", "mem"), ("bzip2", "mem"), ("none", "file"), ("gzip", "file"), ("bzip2", "file")]
ASAN = "detect_leaks=0:abort_on_error=0:exitcode=97:allocator_may_return_null=1:max_allocation_size_mb=1024"


def _write_sub_cfgs():
    """cfgs for the sub-vocabulary runs are generated (they only differ in Vocab / MaxElems)"""
    out = {}
    for name, voc in XML_VOCAB_SUB.items():
        path = os.path.join(vlib.SPECS, "GenFaultXml6_%s.cfg" % name)
        text = ("SPECIFICATION Spec\nCONSTANTS\n  MaxElems = 6\n  MaxDepth = 6\n  Fixed = TRUE\n  ExportHist = TRUE\n  Vocab = {%s}\n"
                "INVARIANTS TypeOK WellFormedCommitted BuilderDiscipline NoStaleBuilders ObjectMatchesStack Export\nCHECK_DEADLOCK FALSE\n"
                % ", ".join('"%s"' % v for v in voc))
        if not os.path.exists(path) or open(path).read() != text:
            with open(path, "w") as fh:
                fh.write(text)
        out[name] = os.path.basename(path)
    return out


# ------------------------------------------------------------------------------------------- descriptions -> cases

def desc_key(d):
    if "ev" in d:
        return "xml ev=" + ",".join(d["ev"])
    fs = ",".join("%s:%s" % (f["pos"], f["f"]) for f in sorted(d.get("faults", []), key=lambda f: f["pos"]))
    t = d.get("trunc")
    ts = "%s/%s/%s" % (t["pos"], t["w"], t["level"]) if t else "-"
    return "%s base=%s faults=[%s] trunc=%s" % (d["fmt"], d.get("base"), fs, ts)


def norm_desc(d):
    """TLC export -> encoder description"""
    d = dict(d)
    t = d.get("trunc")
    if t and t.get("pos") == "-":
        d["trunc"] = None
    if d["fmt"] == "xml" and "faults" in d:
        fs = d["faults"]
        if not fs:
            return dict(fmt="xml", ev=["S:osm", "S:node", "S:tag", "E", "E", "E"], exp=dict(outcome="data"), key="xml base")
        f = fs[0]
        if f["pos"] == "doc":
            return dict(fmt="xml", doc=f["f"], exp=dict(outcome="any"), key="xml doc=%s" % f["f"])
        el, a = f["pos"].split(".", 1)
        return dict(fmt="xml", attr=dict(el=el, a=a, f=f["f"]), exp=dict(outcome="any"), key="xml attr=%s:%s" % (f["pos"], f["f"]))
    d["key"] = desc_key(d)
    return d


def shape_from_spec(objs):
    out = []
    for o in objs:
        s = [o[0]]
        for sub in o[1:]:
            if sub[0] == "D":
                s.append(["D", "".join(str(x) for x in sub[1])])
            else:
                s.append([sub[0], sub[1]])
        out.append(s)
    return out


class CaseSet:
    def __init__(self):
        self.cases = []
        self.seen = set()
        self.noop = 0
        self.dups = 0
        self.by_class = {}

    def add(self, key, fmt, data, rawlen, exp, comp="none", via="mem", cls="", trunc_frac=None, valid=None):
        b = fe.compress(data, comp, trunc_frac)
        h = hashlib.sha1(b).hexdigest()
        k = (fmt, comp, via, h, json.dumps(exp, sort_keys=True) if exp and exp.get("outcome") != "any" else "")
        if k in self.seen:
            self.dups += 1
            return
        self.seen.add(k)
        c = dict(id="c%d" % len(self.cases), key=key, fmt=fmt, comp=comp, via=via, hex=b.hex(), rawlen=rawlen, cls=cls)
        if exp:
            c["exp"] = exp
        if valid is not None and data == valid and trunc_frac is None:
            c["noop"] = True
            self.noop += 1
        self.by_class[cls] = self.by_class.get(cls, 0) + 1
        self.cases.append(c)


def materialise_struct(cs, descs, fmt, quick, seed, valid_bytes):
    n = 0
    for d in descs:
        d = norm_desc(d)
        t = d.get("trunc")
        key = d["key"]
        if t and t.get("w") == "every-prefix":
            base = dict(d, trunc=None)
            b, rawlen, _ = fe.materialise(base)
            stride = 1
            for k in range(0, len(b), stride):
                cs.add(key + " prefix=%d" % k, fmt, b[:k], rawlen, dict(outcome="any"), cls=fmt + ":prefix")
            # through the decompressors: the compressed prefix, and prefixes of the compressed file
            step = 7 if quick else 1
            for comp in ("gzip", "bzip2"):
                for k in range(0, len(b), step * 3):
                    cs.add(key + " prefix=%d" % k, fmt, b[:k], rawlen, dict(outcome="any"), comp=comp, cls=fmt + ":prefix-z")
                z = fe.compress(b, comp)
                for k in range(0, len(z), step):
                    cs.add(key + " zprefix=%d" % k, fmt, b, rawlen, dict(outcome="any"), comp=comp, cls=fmt + ":zprefix", trunc_frac=(k + 0.5) / len(z))
            continue
        try:
            b, rawlen, _ = fe.materialise(d)
        except fe.Unknown as ex:
            raise vlib.ModelFailure("spec position/fault unknown to the encoder: %s (%s)" % (key, ex))
        exp = d.get("exp") or dict(outcome="any")
        exp = {k: v for k, v in exp.items() if not (k == "nobj" and v < 0)}
        valid = valid_bytes.get((fmt, d.get("base")))
        if fmt == "xml":
            cls = "xml:" + ("doc" if "doc" in d else "attr" if "attr" in d else "base")
        else:
            cls = fmt + ":" + ("trunc" if t else "fault%d" % len(d.get("faults", [])))
        cs.add(key, fmt, b, rawlen, exp, cls=cls, valid=valid)
        if len(b) > 300000:
            continue
        extra = VARIANTS if not quick and len(b) < 5000 else [VARIANTS[(n + seed) % len(VARIANTS)]]
        for comp, via in extra:
            cs.add(key, fmt, b, rawlen, exp, comp=comp, via=via, cls=cls + "+" + comp + "/" + via, valid=valid)
        n += 1


def materialise_xml_handler(cs, payloads, quick, seed, label):
    n = 0
    for p in payloads:
        d = dict(fmt="xml", ev=p["ev"], close=True)
        b, rawlen, _ = fe.materialise(d)
        exp = dict(outcome=p["outcome"])
        if p["outcome"] == "data":
            exp["objs"] = shape_from_spec(p["objs"])
            exp["nobj"] = p["n"]
        key = desc_key(d)
        cs.add(key, "xml", b, rawlen, exp, cls="xml:handler-" + label)
        if (n + seed) % (11 if quick else 5) == 0:
            comp, via = VARIANTS[(n // 5 + seed) % len(VARIANTS)]
            cs.add(key, "xml", b, rawlen, exp, comp=comp, via=via, cls="xml:handler-" + label + "+" + comp + "/" + via)
        n += 1


# ------------------------------------------------------------------------------------------- TLC

def run_tlc(ctx, quick, out):
    """all TLC work (runs in a thread while the harness builds)"""
    try:
        w = 4
        r = vlib.tlc_ok(vlib.tlc("FaultModelXml", "MCFaultXmlQ.cfg" if quick else "MCFaultXml.cfg", workers=w, coverage=True, timeout=900),
                        "XML handler design check")
        vlib.require_actions(r, ["Start", "End", "Chars"], "XML handler design check")
        ctx.add_tlc(r, "FaultModelXml: repaired handler, every element sequence over 18 elements, <= %d elements, depth <= 6: "
                       "WellFormedCommitted, BuilderDiscipline, NoStaleBuilders, ObjectMatchesStack" % (5 if quick else 6))
        rd = vlib.tlc("FaultModelXml", "MCFaultXmlDefect.cfg", workers=w, timeout=600, extra=["-noGenerateSpecTE"])
        if rd.error or not rd.violation or "WellFormedCommitted" not in rd.violation:
            raise vlib.ModelFailure("the as-shipped handler model (Fixed=FALSE) must violate WellFormedCommitted - the model lost its teeth: %s"
                                    % (rd.error or rd.violation or "no violation"))
        ctx.add_tlc(rd, "FaultModelXml as shipped (Fixed=FALSE): WellFormedCommitted violated as expected (comment without text)")
        out["struct"] = {}
        for fmt in ("pbf", "o5m", "opl", "xml"):
            if not quick:
                r = vlib.tlc_ok(vlib.tlc("FaultModel", "MCFault_%s.cfg" % fmt, workers=w, timeout=900), "fault catalogue %s" % fmt)
                ctx.add_tlc(r, "FaultModel %s: <= 2 faults + truncation, Applicable / TruncOK / DistinctPositions" % fmt)
            cfg = "GenFault_%s%s.cfg" % (fmt, "Q" if quick or fmt == "xml" else "T")
            r = vlib.tlc_ok(vlib.tlc("FaultModel", cfg, workers=w, timeout=1200), "fault export %s" % fmt)
            ctx.add_tlc(r, "FaultModel %s export (%s)" % (fmt, cfg))
            out["struct"][fmt] = r.cases
        out["xml"] = []
        r = vlib.tlc_ok(vlib.tlc("FaultModelXml", "GenFaultXml3.cfg" if quick else "GenFaultXml4.cfg", workers=w, timeout=1500), "XML handler export")
        ctx.add_tlc(r, "FaultModelXml export: every terminal history, full vocabulary, <= %d elements" % (3 if quick else 4))
        out["xml"].append(("full%d" % (3 if quick else 4), r.cases))
        subs = _write_sub_cfgs()
        for name in (["cs"] if quick else sorted(subs)):
            r = vlib.tlc_ok(vlib.tlc("FaultModelXml", subs[name], workers=w, timeout=1500), "XML handler export %s" % name)
            ctx.add_tlc(r, "FaultModelXml export: every terminal history over the sub-vocabulary %s, <= 6 elements" % XML_VOCAB_SUB[name])
            out["xml"].append((name + "6", r.cases))
    except BaseException as ex:  # re-raised in the main thread
        out["error"] = ex


# ------------------------------------------------------------------------------------------- replay

def binaries():
    specs = [dict(name="fault_replay", src="fault_replay.cpp", flags=["-fno-access-control"], ndebug=True),
             dict(name="fault_replay_dbg", src="fault_replay.cpp", flags=["-fno-access-control"], ndebug=False)]
    return vlib.build_many(specs)


def failure_kind(r):
    if r.get("died"):
        return r["died"]
    if r.get("crash"):
        return r["crash"]
    return r.get("note", "mismatch")


def classify(ctx, case, r, build, binary, tmpdir):
    kind = failure_kind(r)
    if kind in ("hang", "timeout"):
        # a hang is only reported when it reproduces alone with a long watchdog
        rr = vlib.replay_cases(binary, [case], nproc=1, timeout=400, args=(tmpdir, "240"), env={"ASAN_OPTIONS": ASAN})
        if rr and rr[0].get("ok"):
            return
        if rr:
            r = rr[0]
            kind = failure_kind(r)
    detail = ""
    if r.get("crash"):
        lines = [l for l in r.get("stderr", "").splitlines() if "runtime error" in l or "ERROR: AddressSanitizer" in l or "SUMMARY" in l]
        detail = (lines[0] if lines else "")[-160:]
        # the file and line of a UBSan report identify the defect
        for l in lines:
            if "runtime error" in l:
                detail = l.split("/include/")[-1][:160]
                break
    elif r.get("note") in ("illformed", "outcome"):
        detail = str(r.get("got"))[:120]
    elif "note" in r:
        detail = "exp=%s got=%s" % (json.dumps(r.get("exp"))[:80], json.dumps(r.get("got"))[:80])
    sig = "%s comp=%s via=%s build=%s :: %s %s" % (case["key"], case["comp"], case["via"], build, kind, detail)
    what = "%s build, %s: %s %s | %s" % (build, case["key"], kind, detail, (r.get("stderr") or "")[:500])
    ctx.violation(sig, {"case": case, "build": build, "result": {k: v for k, v in r.items() if k != "stderr"}}, what)


def replay_all(ctx, cases, builds, tmpdir, stats):
    bins = dict(zip(("ndebug", "assert"), binaries()))
    byid = {c["id"]: c for c in cases}
    for build in builds:
        sel = cases
        res = vlib.replay_cases(bins[build], sel, timeout=1500, args=(tmpdir, "60"), env={"ASAN_OPTIONS": ASAN}, max_crashes=60)
        if len(res) != len(sel):
            raise vlib.ModelFailure("replay (%s) returned %d results for %d cases" % (build, len(res), len(sel)))
        for r in res:
            c = byid[r["id"]]
            if r.get("skipped"):
                continue
            stats["runs"] += 1
            oc = r.get("outcome") or "none"
            st = stats["outcomes"].setdefault(c["fmt"], {})
            lab = oc if oc != "error" else "error:" + r.get("exc", "?")
            st[lab] = st.get(lab, 0) + 1
            if r.get("ok"):
                continue
            if str(r.get("note", "")).startswith("harness:"):
                raise vlib.ModelFailure("harness failure on %s: %s" % (c["key"], r["note"]))
            classify(ctx, c, r, build, bins[build], tmpdir)


def run(ctx):
    quick = ctx.tier == "quick"
    tmpdir = os.path.join(vlib.BUILD, "tmp", "c03_%d" % os.getpid())
    os.makedirs(tmpdir, exist_ok=True)
    out = {}
    th = threading.Thread(target=run_tlc, args=(ctx, quick, out))
    th.start()
    try:
        binaries()               # cold build runs while TLC works
    finally:
        th.join()
    if "error" in out:
        raise out["error"]

    t0 = time.time()
    cs = CaseSet()
    valid = {}
    for fmt, bases in (("pbf", ("zlib", "raw")), ("o5m", ("m", "c", "big")), ("opl", ("l",))):
        for b in bases:
            valid[(fmt, b)] = fe.materialise(dict(fmt=fmt, base=b))[0]
    ndesc = 0
    for fmt in ("pbf", "o5m", "opl", "xml"):
        descs = out["struct"][fmt]
        if not quick and fmt != "xml":
            # all single faults, truncations and prefixes; a seeded sample of the pairs
            import random
            rnd = random.Random(ctx.seed)
            pairs = [d for d in descs if len(d["faults"]) == 2]
            rest = [d for d in descs if len(d["faults"]) != 2]
            rnd.shuffle(pairs)
            ctx.extra.setdefault("pairs_total", {})[fmt] = len(pairs)
            descs = rest + pairs[:30000]
        ndesc += len(descs)
        materialise_struct(cs, descs, fmt, quick, ctx.seed, valid)
    for label, payloads in out["xml"]:
        ndesc += len(payloads)
        materialise_xml_handler(cs, payloads, quick, ctx.seed, label)
    vlib.log("[C03] %d descriptions -> %d cases (%d duplicates dropped, %d identical to the valid file) in %.1fs"
             % (ndesc, len(cs.cases), cs.dups, cs.noop, time.time() - t0))

    stats = {"runs": 0, "outcomes": {}}
    try:
        replay_all(ctx, cs.cases, ("ndebug", "assert"), tmpdir, stats)
    finally:
        shutil.rmtree(tmpdir, ignore_errors=True)

    ctx.traces = len(cs.cases)
    ctx.evaluations = stats["runs"]
    ctx.nontrivial = len(set((c["fmt"], c["comp"], c["hex"]) for c in cs.cases if not c.get("noop")))
    ctx.rule = ("a case = (format, byte string, compression, memory/file); the byte strings are the materialisations of every description "
                "TLC exports from FaultModel.tla (base file x <= %d faults at distinct structural positions x optional truncation, every "
                "prefix of every base file, plain and through gzip/bzip2) and of every terminal history of the XML handler model "
                "FaultModelXml.tla; distinct = distinct (format, compression, bytes); non-trivial = differs from the valid base file; "
                "evaluations = executions (each case runs in the NDEBUG and in the assertions-enabled build)" % (1 if quick else 2))
    for cls in ("pbf:fault1", "o5m:fault1", "opl:fault1", "xml:attr", "xml:handler-full3", "xml:handler-full4", "pbf:trunc", "o5m:prefix"):
        for c in cs.cases:
            if c["cls"] == cls:
                ctx.sample({"key": c["key"], "fmt": c["fmt"], "comp": c["comp"], "via": c["via"], "bytes": len(c["hex"]) // 2,
                            "hex_head": c["hex"][:96], "exp": c.get("exp")}, cap=8)
                break
    ctx.extra["descriptions_exported"] = ndesc
    ctx.extra["cases_per_class"] = dict(sorted(cs.by_class.items()))
    ctx.extra["outcomes_per_format"] = stats["outcomes"]
    ctx.extra["builds"] = ["NDEBUG + ASan + UBSan", "assertions enabled + ASan + UBSan"]
    ctx.extra["duplicates_dropped"] = cs.dups
    ctx.extra["identical_to_valid_file"] = cs.noop
    ctx.exhaustive = False
    ctx.assumptions = [
        "inputs are the structure-aware faults of the catalogue in FaultModel.tla and the element sequences of FaultModelXml.tla within "
        "the bounds - not arbitrary byte strings, no coverage guidance (that would be fuzzing)",
        "expat, zlib, libbz2 and protozero are exercised as they are installed here; a finding inside them would be reported but "
        "cannot be repaired in libosmium",
        "memory bound: peak live heap per case (ASan malloc/free hooks) <= 64 x uncompressed input + 96 MiB, single allocations "
        "<= 1 GiB, delivered bytes <= 64 x uncompressed input + 64 KiB",
        "hang = no result within 60 s (re-run alone with 240 s before it is reported)",
        "XML handler model: attributes are the standard valid ones; attribute faults are enumerated separately (one fault per file)",
    ]


def replay(ctx, path):
    with open(path) as fh:
        d = json.load(fh)
    p = d["case"]
    c = p["case"]
    build = p.get("build", "ndebug")
    tmpdir = os.path.join(vlib.BUILD, "tmp", "c03_%d" % os.getpid())
    os.makedirs(tmpdir, exist_ok=True)
    stats = {"runs": 0, "outcomes": {}}
    try:
        replay_all(ctx, [c], (build,), tmpdir, stats)
    finally:
        shutil.rmtree(tmpdir, ignore_errors=True)
    ctx.evaluations = 1
    ctx.nontrivial = 2
    ctx.traces = 1
    ctx.rule = "replay of one recorded case"
    ctx.sample({"key": c["key"], "fmt": c["fmt"], "comp": c["comp"], "via": c["via"], "build": build})
