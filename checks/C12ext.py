"""C12, extension of the specification downwards and sideways (called from C12.run() after the map families).

  specs/MemoryMapping.tla        osmium::MemoryMapping / AnonymousMemoryMapping / TypedMemoryMapping<T> + file_size /
                                 resize_file: A = a window onto a zero-extended byte array, I = the system calls with
                                 their page granularity (MC: page 4 exhaustive; Sim/Gen: page 4096, sizes 4095/4096/4097,
                                 multi-page growth, shrink, zero).
  specs/MemoryMappingVector.tla  mmap_vector_base / _anon / _file driven directly (capacity(), at(), clear(),
                                 shrink_to_fit(), resize() downwards, re-opening the file, the length check).
  specs/IndexMultimap.tla        index/multimap/*: A = one bag of <<id, value>> pairs, I = vector with tombstones /
                                 std::multimap / Hybrid.
Binding: harness/indexext_replay.cpp replays every exported history on the real classes (real temporary files) and
compares after every step what the A-layer says.  Violations carry signatures starting with "ext:"."""
import json
import os
import random
import shutil
import threading
import time

import vlib

HARNESS = ("indexext_replay", "indexext_replay.cpp")

MC_RUNS = [  # (module, quick cfg, thorough cfg, label, actions that must have been taken)
    ("MemoryMapping", "MCMemoryMapping.cfg", "MCTMemoryMapping.cfg",
     "MemoryMapping: window onto a zero-extended byte array over mmap/mremap/munmap/ftruncate, page size 4",
     ["Ctor", "Write", "Resize", "Unmap", "Destroy", "Move", "Finish"]),
    ("MemoryMappingVector", "MCMemoryMappingVector.cfg", "MCTMemoryMappingVector.cfg",
     "mmap_vector_base/anon/file: slots read empty unless written, capacity arithmetic, increment 3",
     ["Open", "Resize", "Reserve", "SetAt", "PushBack", "ShrinkToFit", "Clear", "Reopen", "Finish"]),
    ("IndexMultimap", "MCIndexMultimap.cfg", "MCTIndexMultimap.cfg",
     "multimaps: one bag of pairs over vector+tombstones / std::multimap / Hybrid",
     ["Set", "USet", "Sort", "Remove", "Erase", "Consolidate", "Reload", "Finish"]),
]

SIM_RUNS = [  # (module, cfg, kind, behaviours quick, behaviours thorough, depth)
    ("MemoryMapping", "SimMemoryMapping.cfg", "mm", 300, 1500, 40),
    ("MemoryMapping", "SimMemoryMappingAnon.cfg", "mm", 100, 600, 40),       # anonymous only: shrink / grow around page borders
    ("MemoryMappingVector", "SimMemoryMappingVector.cfg", "vec", 60, 300, 30),
    ("IndexMultimap", "SimIndexMultimap.cfg", "multi", 200, 1200, 40),
    ("IndexMultimap", "SimIndexMultimapHybrid.cfg", "multi", 150, 800, 40),   # Hybrid alone, few ids and values: the same pair in both parts
]

GEN_QUICK = [  # both tiers: every way of opening a vector (incl. the file whose size is no multiple of sizeof(T)) + one more call
    ("MemoryMappingVector", "GenMemoryMappingVectorOpen.cfg", "vec"),
]
GEN_RUNS = [  # thorough only: every history of a bounded configuration, breadth first (a seeded sample is replayed)
    ("MemoryMapping", "GenMemoryMapping.cfg", "mm"),
    ("MemoryMappingVector", "GenMemoryMappingVector.cfg", "vec"),
    ("IndexMultimap", "GenIndexMultimap.cfg", "multi"),
]
GEN_CAP = 1500


_early = {}


def start_prebuild():
    """Optional: C12.run() calls this first, so that the (cold) build of the extension's harness runs beside the TLC runs
    and the replay of the map families.  run_part() works without it."""
    if "thread" in _early:
        return

    def work():
        try:
            _early["binary"] = vlib.build(*HARNESS)
        except Exception as ex:      # re-raised by prebuild() on the caller's thread
            _early["error"] = ex
    _early["thread"] = threading.Thread(target=work)
    _early["thread"].start()


def prebuild():
    """The harness binary (waits for the early build if one was started)."""
    t = _early.get("thread")
    if t is not None:
        t.join()
        if "error" in _early:
            raise _early["error"]
    return vlib.build(*HARNESS)


def _jobs(ctx):
    quick = ctx.tier == "quick"
    jobs = []
    for mod, qcfg, tcfg, label, acts in MC_RUNS:
        jobs.append(dict(kind="mc", mod=mod, cfg=qcfg if quick else tcfg, label=label, acts=acts))
    for mod, cfg, fam, nq, nt, depth in SIM_RUNS:
        jobs.append(dict(kind="sim", mod=mod, cfg=cfg, label=cfg[:-4], fam=fam, n=nq if quick else nt, depth=depth))
    for mod, cfg, fam in GEN_QUICK + ([] if quick else GEN_RUNS):
        jobs.append(dict(kind="gen", mod=mod, cfg=cfg, label=cfg[:-4], fam=fam))
    return jobs


def _run_job(ctx, j):
    tag = "C12x_" + j["cfg"][:-4]
    if j["kind"] == "mc":
        r = vlib.tlc(j["mod"], j["cfg"], workers=3 if ctx.tier == "quick" else 4, coverage=True, timeout=1500, tag=tag)
    elif j["kind"] == "gen":
        r = vlib.tlc(j["mod"], j["cfg"], workers=3, timeout=1500, tag=tag)
    else:
        # TLC generates num behaviours per worker
        r = vlib.tlc(j["mod"], j["cfg"], workers=2, simulate=max(1, j["n"] // 2), depth=j["depth"], seed=ctx.seed, timeout=900, tag=tag)
    return j, r


def _make_case(payload, fam, cid):
    c = {"id": cid, "kind": fam, "family": "ext-" + fam, "steps": payload["steps"]}
    if fam == "vec":
        c["backing"] = payload["backing"]
        c["etypes"] = ["u64", "loc"]
    elif fam == "multi":
        c["vtypes"] = ["u64", "u32"]
    return c


def _sig(c, r):
    k = r.get("step", -1)
    st = c["steps"][:k + 1] if isinstance(k, int) and k >= 0 else c["steps"]
    note = r.get("note", "")
    if c["kind"] == "mm":
        head = "fdk=%s" % c["steps"][0]["fdk"]
        ops = ["%s(%s,%s,%s,e%s)" % (s["a"], s["n"], s["off"], s["mode"], s["esz"]) if s["a"] == "ctor"
               else "%s(%s)" % (s["a"], s["p"] if s["a"] == "write" else s["n"]) for s in st if s["a"] != "file"]
    elif c["kind"] == "vec":
        head = "backing=%s" % c["backing"]
        ops = ["%s(%s)" % (s["a"], s["n"]) for s in st]
    else:
        head = note.split(" ")[0] if note.startswith("type=") else "type=%s" % c["steps"][0]["b"]
        ops = ["%s(%s,%s)" % (s["a"], s["id"], s["v"]) for s in st if s["a"] != "new"]
    return "ext:%s %s %s" % (c["kind"], head, " ".join(ops[-10:]))


def _replay(ctx, cases):
    binary = prebuild()
    tmp = os.path.join(vlib.BUILD, "c12xtmp.%d.%d" % (os.getpid(), threading.get_ident()))
    shutil.rmtree(tmp, ignore_errors=True)
    os.makedirs(tmp)
    try:
        t0 = time.time()
        res = vlib.replay_cases(binary, cases, timeout=1500, env={"VH_TMPDIR": tmp, "TMPDIR": tmp})
        vlib.log("[C12ext] %d cases replayed in %.1fs" % (len(cases), time.time() - t0))
    finally:
        shutil.rmtree(tmp, ignore_errors=True)
    if len(res) != len(cases):
        raise vlib.ModelFailure("ext replay returned %d results for %d cases" % (len(res), len(cases)))
    byid = {c["id"]: c for c in cases}
    for r in res:
        if r.get("ok"):
            continue
        c = byid[r["id"]]
        if "crash" in r:
            what = "real object %s at step %s: %s" % (r["crash"], r.get("step"), r.get("stderr", "")[:700])
        else:
            what = "result differs from the spec at step %s (%s): exp=%s got=%s" % (
                r.get("step"), r.get("note", ""), json.dumps(r.get("exp"))[:300], json.dumps(r.get("got"))[:300])
        ctx.violation(_sig(c, r), {"ext": True, "case": c, "result": r}, what)


def _evals(c):
    n = 0
    for s in c["steps"]:
        if c["kind"] == "mm":
            n += 6 + len(s["cells"]) + len(s["fcells"]) + (2 if s["win"] else 0)     # + every byte of window and file
        elif c["kind"] == "vec":
            n += len(c["etypes"]) * (5 + 2 * len(s["tab"]) + len(s["cells"]))
        else:
            n += len(c["vtypes"]) * (1 + len(s["tab"]) + len(s["dump"]))
    return n


def run_part(ctx):
    quick = ctx.tier == "quick"
    rng = random.Random(ctx.seed + 12)
    jobs = _jobs(ctx)
    t0 = time.time()
    # TLC runs alive at the same time (VERIF_TLC_JOBS lowers it on a shared machine); the harness build runs beside them
    par = int(os.environ.get("VERIF_TLC_JOBS", "0") or "0") or (6 if quick else 4)
    sem = threading.Semaphore(par)

    def job_thunk(j):
        def f():
            with sem:
                return _run_job(ctx, j)
        return f
    out = vlib.parallel(prebuild, *[job_thunk(j) for j in jobs])[1:]
    vlib.log("[C12ext] %d TLC runs + harness build in %.1fs (slowest: %s)" % (
        len(out), time.time() - t0, ", ".join("%s %.0fs" % (j["cfg"], r.wall) for j, r in sorted(out, key=lambda x: -x[1].wall)[:3])))
    cases = []
    per = {}
    for j, r in out:
        vlib.tlc_ok(r, "ext " + j["label"])
        if j["kind"] == "mc":
            vlib.require_actions(r, j["acts"], "ext " + j["label"])
            ctx.add_tlc(r, "ext I => A exhaustive: " + j["label"] + " (" + j["cfg"] + ")")
            continue
        ctx.add_tlc(r, "ext " + ("all histories (breadth first) " if j["kind"] == "gen" else "simulated histories ") + j["cfg"] +
                    ", real geometry, invariants checked on every state")
        if not r.cases:
            raise vlib.ModelFailure("ext %s exported no history" % j["cfg"])
        payloads = r.cases
        if j["kind"] == "gen" and len(payloads) > GEN_CAP:
            payloads = [payloads[i] for i in sorted(rng.sample(range(len(payloads)), GEN_CAP))]
        seen = set()
        n = 0
        for p in payloads:
            key = json.dumps(p, sort_keys=True)
            if key in seen:
                continue
            seen.add(key)
            cases.append(_make_case(p, j["fam"], "x%s-%d" % (j["label"], n)))
            n += 1
        per[j["label"]] = {"exported": len(r.cases), "replayed": n}
    _replay(ctx, cases)
    # vacuity of the binding: the interesting steps must occur in what was replayed
    acts = {}
    for c in cases:
        for s in c["steps"]:
            key = c["kind"] + ":" + s["a"] + (":err" if s.get("err") else "")
            acts[key] = acts.get(key, 0) + 1
    need = ["mm:ctor", "mm:ctor:err", "mm:resize", "mm:resize:err", "mm:write", "mm:unmap", "mm:dtor", "mm:move_ctor", "mm:move_assign",
            "vec:open", "vec:open:err", "vec:resize", "vec:reserve", "vec:push_back", "vec:set_at", "vec:shrink_to_fit", "vec:clear", "vec:reopen",
            "multi:set", "multi:uset", "multi:sort", "multi:remove", "multi:erase", "multi:consolidate", "multi:reload"]
    missing = [a for a in need if not acts.get(a)]
    if missing:
        raise vlib.ModelFailure("ext: steps never replayed: %s" % missing)
    ctx.traces += len(cases)
    ctx.evaluations += sum(_evals(c) for c in cases)
    ctx.nontrivial += len(set((c["kind"], json.dumps(c["steps"], sort_keys=True)) for c in cases))
    ctx.rule += ("; ext: a case = one history of MemoryMapping / mmap_vector / multimap calls replayed on the real classes (vectors "
                 "on 2 element types, multimaps on 2 value types); evaluations = values compared with the spec per step "
                 "(the byte-by-byte comparison of window and file counts as 2)")
    seen = set()
    samples = []
    for c in cases:
        if c["kind"] not in seen:
            seen.add(c["kind"])
            samples.append({k: c[k] for k in c if k != "id"})
    ctx.extra["ext"] = {"histories_per_config": per, "steps_replayed": dict(sorted(acts.items())), "samples": samples}
    ctx.assumptions += [
        "ext/MemoryMapping: one mapping object at a time on one descriptor; 'rw'/'ro' descriptors are regular files on the local "
        "file system, 'bad' is a closed descriptor; the ENOSPC branch of resize_fd (file system full) and failing mmap/mremap for "
        "lack of memory are not driven; resize(0), resize() after unmap() and anonymous read-only mappings are outside the "
        "documented preconditions and not generated; bytes an anonymous mapping had written beyond a later shrink are unspecified "
        "when exposed again; a write_private FILE mapping loses its changes on resize() (modelled as the implementation has it)",
        "ext/vector: the slots keep their values across clear() and a shrinking resize() (what the class does, unlike std::vector); "
        "element types uint64_t (empty = 2^64-1) and Location",
        "ext/multimap: pairs whose value is empty_value<TValue>() are no entries (tombstones of the vector based classes); values "
        "are compared as bags (order inside one id is not specified); size()/used_memory() are not compared; TValue = uint64_t and "
        "uint32_t, ids up to 2^63+5",
    ]


def replay_part(ctx, d):
    c = d["case"]["case"]
    _replay(ctx, [c])
    ctx.traces = 1
    ctx.evaluations = _evals(c)
    ctx.nontrivial = 1
    ctx.states = ctx.transitions = 1
    ctx.sample({k: c[k] for k in c if k != "id"})
