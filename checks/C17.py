"""C17 - geometry exports encode exactly the object's coordinates in every output format.
Specs: GeomFactory.tla (A-layer: coordinate sequence / ring grouping / rejection; I-layer: GeometryFactory loops,
WKBFactoryImpl with its back-patched count fields, the WKT/GeoJSON string builders; I => A checked by TLC with
spec-level decoders) and GeomNum.tla (double2string on values with an exact short decimal expansion).
Binding: TLC exports every input of the design-check domains together with the expected verdict and the expected
point tree (and call histories on one factory object by simulation); harness/geom_replay.cpp runs them on the real
factories (WKB, EWKB, hex, WKT, EWKT, GeoJSON [, RapidJSON GeoJSON] x identity / Web-Mercator x precisions) and decodes
every output with its own readers."""
import json
import os
import random
from concurrent.futures import ThreadPoolExecutor

import vlib

LEVEL = "model_checking"

GEOM_ACTIONS_LS = ["PointCalls", "LSCalls", "PolyCalls", "FillAdd", "FillSkip", "FillThrow", "TooFew", "FinishLS", "FinishPoly", "Return"]
GEOM_ACTIONS_MP = ["MPCalls", "MPOuter", "MPInner", "RingAdd", "RingSkip", "RingEnd", "MPNoRings", "MPFinish", "Return"]
NUM_ACTIONS = ["Format", "TrimZero", "TrimDot", "NoTrim", "Copy"]
VALUATIONS = ["small", "edge", "fine"]
JAVA = ["-Xmx3g"]
BUILD_OPT = "-O0"     # the replay is short; -O0 halves the (cold) sanitizer build of the harness


def _tlc(module, cfg, label, **kw):
    kw.setdefault("workers", 2)
    kw.setdefault("java_opts", JAVA)
    kw.setdefault("timeout", 1500)
    r = vlib.tlc(module, cfg, **kw)
    return label, vlib.tlc_ok(r, label)


L_LS = "every node list of 0..5 entries over {p,q,r,U,X} x {unique,all} x {fwd,bwd} as linestring and polygon, every point"
L_MP3 = "every area of 0..3 outer x 0..2 inner rings (2 ring shapes)"
L_MPCAT = "every area of 0..2 outer x 0..1 inner rings (8 ring shapes incl. undefined/invalid locations at start/middle/end)"
L_NUM = "double2string text is the value rounded to the precision, 224 values +-(ip + k/8) x precision 0..17"
LS_VALID = ["LSCalls", "PolyCalls", "FillAdd", "FillSkip", "TooFew", "FinishLS", "FinishPoly", "Return"]


def tlc_jobs(ctx):
    """(export tag or None, module, cfg, label, actions that must be covered or None, tlc kwargs).
    The Gen*.cfg of the single-call domains check the same invariants over the same reachable states as the MC*.cfg
    (one call => the history variable does not add states); the quick tier therefore runs only the Gen configs for
    them (with the coverage guard), the thorough tier runs both."""
    quick = ctx.tier == "quick"
    cov = dict(coverage=True)
    jobs = [
        ("ls", "GeomFactory", "GenGeomLS.cfg", "GeomFactory I=>A + export: " + L_LS, GEOM_ACTIONS_LS, cov),
        ("mp3", "GeomFactory", "GenGeomMP3.cfg", "GeomFactory I=>A + export: " + L_MP3, GEOM_ACTIONS_MP, cov),
        ("mpcat", "GeomFactory", "GenGeomMPcat.cfg", "GeomFactory I=>A + export: " + L_MPCAT, GEOM_ACTIONS_MP + ["RingThrow"], cov),
        (None, "GeomFactory", "MCGeomSeq.cfg", "GeomFactory I=>A: 3 calls in a row on one factory object (registers and partial buffers "
         "persist), all histories over a small input domain", GEOM_ACTIONS_LS + GEOM_ACTIONS_MP + ["RingThrow"], cov),
        ("seq", "GeomFactory", "GenGeomSeq.cfg", "GeomFactory export: simulated histories of 4 calls on one factory object", None,
         dict(simulate=300 if quick else 1200, depth=250, seed=ctx.seed)),
        ("num", "GeomNum", "GenGeomNum.cfg", "GeomNum I=>A + export: " + L_NUM, NUM_ACTIONS, cov),
    ]
    if quick:
        jobs.append(("ls6", "GeomFactory", "GenGeomLS6.cfg", "GeomFactory I=>A + export: every node list of 0..6 entries over {p,q,r}", LS_VALID, cov))
    else:
        jobs += [
            ("ls7", "GeomFactory", "GenGeomLS7.cfg", "GeomFactory I=>A + export: every node list of 0..7 entries over {p,q,r}", LS_VALID, cov),
            ("mp41", "GeomFactory", "GenGeomMP41.cfg", "GeomFactory I=>A + export: every area of 0..4 outer x 0..1 inner rings (2 ring shapes)",
             GEOM_ACTIONS_MP, cov),
            ("mp23", "GeomFactory", "GenGeomMP23.cfg", "GeomFactory I=>A + export: every area of 0..2 outer x 0..3 inner rings (2 ring shapes)",
             GEOM_ACTIONS_MP, cov),
            (None, "GeomFactory", "MCGeomSeq4.cfg", "GeomFactory I=>A: 4 calls in a row on one factory object, all histories over a small "
             "input domain", GEOM_ACTIONS_LS + GEOM_ACTIONS_MP + ["RingThrow"], cov),
            (None, "GeomFactory", "MCGeomLS.cfg", "GeomFactory I=>A (no history variable): " + L_LS, GEOM_ACTIONS_LS, cov),
            (None, "GeomFactory", "MCGeomMP3.cfg", "GeomFactory I=>A (no history variable): " + L_MP3, GEOM_ACTIONS_MP, cov),
            (None, "GeomFactory", "MCGeomMPcat.cfg", "GeomFactory I=>A (no history variable): " + L_MPCAT, GEOM_ACTIONS_MP + ["RingThrow"], cov),
            (None, "GeomNum", "MCGeomNum.cfg", "GeomNum I=>A (no export): " + L_NUM, NUM_ACTIONS, cov),
        ]
    return jobs


def precs_for(ctx, idx, vi):
    """Output precisions the text factories of a case are created with (besides the default factories)."""
    if ctx.tier == "quick":
        return [(idx * 7 + ctx.seed) % 18]
    base = (idx + ctx.seed) % 18
    return sorted(set((base + vi * 6 + k) % 18 for k in range(6)))


def make_cases(ctx, exports):
    quick = ctx.tier == "quick"
    cases = []
    idx = 0
    for tag in ("ls", "ls6", "ls7", "mp3", "mp41", "mp23", "mpcat", "seq"):
        for n, c in enumerate(exports.get(tag, [])):
            vals = [VALUATIONS[(idx + ctx.seed) % 3]] if quick else list(VALUATIONS)
            if tag.startswith("mp"):
                vals = vals + ["shared"]       # rings of an area on the same locations (C17r8_A)
            for vi, v in enumerate(vals):
                cases.append({"id": "%s-%d-%s" % (tag, n, v), "kind": "geom", "val": v, "precs": precs_for(ctx, idx, vi), "steps": c["steps"]})
            idx += 1
    # number texts: pair every (value, precision) with another value of the same precision
    num = exports.get("num", [])
    byp = {}
    for e in num:
        byp.setdefault(e["prec"], []).append(e)
    rnd = random.Random(ctx.seed)
    for p, lst in sorted(byp.items()):
        lst.sort(key=lambda e: (e["ip"], e["f8"], e["neg"]))
        other = list(lst)
        rnd.shuffle(other)
        for k, a in enumerate(lst):
            b = other[k]
            fa = {"neg": a["neg"], "ip": a["ip"], "f8": a["f8"], "text": "".join(a["text"])}
            fb = {"neg": b["neg"], "ip": b["ip"], "f8": b["f8"], "text": "".join(b["text"])}
            cases.append({"id": "num-%d-%d" % (p, k), "kind": "num", "prec": p, "a": fa, "b": fb})
    return cases


def step_desc(s):
    if s["kind"] == "multipolygon":
        return "multipolygon[%s]" % " ".join("%s:%s" % (r["role"][0], "".join(r["pts"])) for r in s["area"])
    if s["kind"] == "point":
        return "point[%s]" % s["nodes"][0]
    return "%s %s %s [%s]" % (s["kind"], s["un"], s["dir"], "".join(s["nodes"]))


def sig_of(c, r):
    note = (r.get("note") or r.get("crash") or "")
    fmt = note.split(":")[0][:60]
    if c["kind"] == "num":
        return "num a=%s%d+%d/8 b=%s%d+%d/8 prec=%d :: %s" % ("-" if c["a"]["neg"] else "", c["a"]["ip"], c["a"]["f8"],
                                                         "-" if c["b"]["neg"] else "", c["b"]["ip"], c["b"]["f8"], c["prec"], fmt)
    k = r.get("step", -1)
    steps = c["steps"][:k + 1] if isinstance(k, int) and k >= 0 else c["steps"]
    return "geom %s val=%s :: %s" % (" ; ".join(step_desc(s) for s in steps[-3:]), c["val"], fmt)


def n_encodings(c):
    if c["kind"] == "num":
        return 6 if (c["a"]["ip"] < 180 and c["b"]["ip"] < 90) else 4
    per_step = 2 * (6 + 3 * len(c["precs"]) + 1)
    return per_step * len(c["steps"])


def run_cases(ctx, cases, binary=None):
    binary = binary or vlib.build("geom_replay", "geom_replay.cpp", opt=BUILD_OPT)
    res = vlib.replay_cases(binary, cases, timeout=3000)
    byid = {c["id"]: c for c in cases}
    if len(res) != len(cases):
        raise vlib.ModelFailure("replay returned %d results for %d cases" % (len(res), len(cases)))
    seen = set()
    for r in res:
        if r.get("ok"):
            continue
        c = byid[r["id"]]
        if "crash" in r:
            what = "real factory: %s at step %s: %s" % (r["crash"], r.get("step"), r.get("stderr", "")[:700])
        else:
            what = "%s (step %s): expected %s got %s" % (r.get("note", ""), r.get("step"), json.dumps(r.get("exp"))[:300], json.dumps(r.get("got"))[:400])
        sig = sig_of(c, r)
        if sig in seen:
            continue
        seen.add(sig)
        ctx.violation(sig, {"case": c, "result": r}, what)


def run(ctx):
    quick = ctx.tier == "quick"
    exports = {}
    # independent TLC runs (all small) go in parallel next to the harness build; on a shared machine
    # (VERIF_TLC_WORKERS set, see vlib.tlc) at most two JVMs are alive at a time
    par = 2 if os.environ.get("VERIF_TLC_WORKERS") else (8 if quick else 6)
    with ThreadPoolExecutor(max_workers=par) as ex, ThreadPoolExecutor(max_workers=1) as exb:
        fbuild = exb.submit(vlib.build, "geom_replay", "geom_replay.cpp", opt=BUILD_OPT)
        fj = [(j, ex.submit(_tlc, j[1], j[2], j[3], **j[5])) for j in tlc_jobs(ctx)]
        for j, f in fj:
            label, r = f.result()
            if j[4]:
                vlib.require_actions(r, j[4], label)
            ctx.add_tlc(r, label)
            if j[0]:
                if not r.cases:
                    raise vlib.ModelFailure("%s produced no case" % label)
                exports[j[0]] = r.cases
        binary = fbuild.result()
    cases = make_cases(ctx, exports)
    run_cases(ctx, cases, binary)
    ctx.traces = len(cases)
    ctx.evaluations = sum(n_encodings(c) for c in cases)
    distinct = set()
    for c in cases:
        if c["kind"] == "geom":
            distinct.add(json.dumps(c["steps"], sort_keys=True))
        else:
            distinct.add(json.dumps([c["a"], c["prec"]], sort_keys=True))
    ctx.nontrivial = len(distinct)
    ctx.exhaustive = True
    ctx.rule = ("a case = a history of factory calls (input object, use_nodes, direction) exported by TLC with the expected verdict and point "
                "tree, or one (value, precision) pair with its expected text; distinct by that; evaluations = encodings produced by the real "
                "factories that were decoded and compared (formats x projections x precisions x calls)")
    kinds = {}
    for c in cases:
        t = c["id"].split("-")[0]
        kinds[t] = kinds.get(t, 0) + 1
    ctx.extra["cases_per_export"] = kinds
    ctx.extra["verdicts"] = {v: sum(1 for c in cases if c["kind"] == "geom" for s in c["steps"] if s["verdict"] == v) for v in ("ok", "reject")}
    ctx.extra["formats"] = ["wkb", "ewkb", "wkb-hex", "ewkb-hex", "wkt", "ewkt", "geojson", "rapidjson-geojson (if installed)"]
    ctx.extra["not_run"] = "GEOS and OGR factories: libgeos / libgdal are not installed in this sandbox"
    want = ("ls", "mp3", "seq", "num")
    shown = set()
    for c in cases:
        t = c["id"].split("-")[0]
        if t in want and t not in shown and (c["kind"] == "num" or any(s["verdict"] == "ok" for s in c["steps"])):
            shown.add(t)
            ctx.sample({k: c[k] for k in c if k != "id"})
    ctx.assumptions = [
        "location tokens p q r s / U (undefined) / X (defined, out of range) are mapped to concrete locations by three fixed valuations "
        "(small dyadic values, range borders +-180 / +-85.0511288, 7-digit values) in which every ring of an area gets its own coordinates, "
        "and for areas also by a fourth one, 'shared', in which all rings lie on the same locations (a ring starts where the previous ended)",
        "WKB doubles are compared bit-exactly with the projection of the expected location (identity computed independently; Web-Mercator "
        "through osmium's projection object - its accuracy is C18); text coordinates must lie within half a unit of the requested last digit "
        "and have at most that many digits; exact text is compared only for values k/8 (GeomNum) - correct rounding of arbitrary binary "
        "doubles is not expressible in TLC",
        "rings of areas are non-empty and as produced by the assembler (closed, >= 4 nodes) apart from the injected duplicate/undefined/"
        "invalid locations; create_multipolygon does not validate ring sizes and the property's quantifier does not range over them",
        "quick tier: one valuation and one non-default precision per case (rotating with the case index and VERIF_SEED); thorough: all "
        "valuations, all precisions 0..17",
    ]


def replay(ctx, path):
    with open(path) as fh:
        d = json.load(fh)
    c = d["case"]["case"]
    run_cases(ctx, [c])
    ctx.traces = 1
    ctx.evaluations = n_encodings(c)
    ctx.nontrivial = 1
    ctx.states = ctx.transitions = 1
    ctx.sample({k: c[k] for k in c if k != "id"})


def selftest(ctx):
    """Binding of the harness to the expectation: corrupt the expected tree / verdict / text of exported cases and
    require the replay to report each of them."""
    _, r = _tlc("GeomFactory", "GenGeomMP3.cfg", "selftest export")
    _, rn = _tlc("GeomNum", "GenGeomNum.cfg", "selftest export num")
    ok_cases = [c for c in r.cases if c["steps"][0]["verdict"] == "ok" and len(c["steps"][0]["area"]) >= 3][:3]
    bad = []
    for n, c in enumerate(ok_cases):
        s = json.loads(json.dumps(c["steps"][0]))
        if n == 0:
            s["tree"][0][0] = s["tree"][0][0][:-1]            # one point less in the first ring
        elif n == 1:
            s["tree"][-1].append(s["tree"][0].pop())          # a ring under another polygon
        else:
            s["verdict"] = "reject"
        bad.append({"id": "self-%d" % n, "kind": "geom", "val": "small", "precs": [3], "steps": [s]})
    e = [x for x in rn.cases if x["prec"] == 2 and x["ip"] == 100 and x["f8"] == 3 and not x["neg"]][0]
    fa = {"neg": False, "ip": 100, "f8": 3, "text": "".join(e["text"])[:-1] + "7"}
    bad.append({"id": "self-num", "kind": "num", "prec": 2, "a": fa, "b": fa})
    binary = vlib.build("geom_replay", "geom_replay.cpp", opt=BUILD_OPT)
    res = vlib.replay_cases(binary, bad, nproc=2)
    failed = sorted(x["id"] for x in res if not x.get("ok"))
    vlib.log("selftest: corrupted cases reported: %s" % failed)
    return 0 if len(failed) == len(bad) else 2
