"""C02 - readers decode every spec-conformant file, however it was encoded.

Specs: Encodings.tla (A-layer: the object list of a data set catalogue) + one I-layer module per format -
O5mTable.tla, PbfChoices.tla, XmlChoices.tla, OplChoices.tla - that model the ENCODING CHOICE SPACE as
nondeterministic encoder actions fused with a decoder shaped like libosmium's parser.  TLC checks for every
choice sequence that the decoder model yields Data(ds) (DecodedOK), for o5m additionally that the ring
indexing of the reference table equals "most recent first" across wrap-around and reset (TableAgree) and
that the delta registers of both sides agree (RegsAgree).
Binding: replay.  TLC exports choice vectors (exhaustive for the few-byte data sets, simulation for the
others) together with the object list the spec's decoder derives; tools/enc_*.py - independent,
specification-derived encoders - turn a choice vector into a real file; harness/encodings_replay.cpp reads
it with osmium::io::Reader (from a file descriptor and from a memory buffer) and compares every object and
the header with the spec's list."""
import hashlib
import json
import os
import random
import re
import shutil
import sys
import time
from concurrent.futures import ThreadPoolExecutor

import vlib

sys.path.insert(0, os.path.join(vlib.VERIF, "tools"))
import enc_common  # noqa: E402

LEVEL = "model_checking"
HOOK_N = 3
EXT = {"pbf": "osm.pbf", "o5m": "o5m", "xml": "osm", "opl": "opl"}

O5M_ACTIONS = ["Reset", "TypeReset", "Skip", "HeaderDs", "ObjStart", "Str", "ObjEnd", "Finish"]
O5M_ACTIONS_NOTR = [a for a in O5M_ACTIONS if a != "TypeReset"]
PBF_ACTIONS = ["Header", "Header2", "BlkOpen", "BlkExtent", "GrpOpen", "AddObj", "GrpClose", "BlkClose", "BlkClose2", "Finish"]
XML_ACTIONS = ["Style1", "Style2", "Style3", "OpenSec", "CloseSec", "Object", "Finish"]
OPL_ACTIONS = ["Style1", "Style2", "Extra", "Line", "Finish"]

# features the exported pool must contain (vacuity guard of the export, checked before anything is replayed)
MUST_HAVE = [
    "o5m ref=1", "o5m ref=2", "o5m ref=N (oldest row)", "o5m ref after wrap-around", "o5m ref after reset",
    "o5m reset after object", "o5m skip=sync", "o5m skip=jump", "o5m skip=unknown", "o5m skip=unknown0", "o5m skip=unknownL",
    "o5m skip=byte", "o5m bbox", "o5m filets", "o5m variant=o5c", "o5m variant=o5m", "o5m ds=long", "o5m ds=delta", "o5m ds=hist",
    "pbf blk comp=raw", "pbf blk comp=zlib", "pbf blk comp=zlib0", "pbf blk comp=lz4", "pbf blk comp=lz4m", "pbf hdr comp=lz4",
    "pbf blk idx=h128", "pbf blk idx=h255", "pbf blk idx=h32k", "pbf blk idx=hmax", "pbf hdr idx=h128", "pbf hdr idx=hmax",
    "pbf gran=1", "pbf gran=1000", "pbf gran=10000", "pbf dgran=1", "pbf dgran=60000", "pbf dgran=500", "pbf lato=300", "pbf lono=-700",
    "pbf kind=dense info=min", "pbf kind=dense info=all", "pbf kind=dense info=neg", "pbf kind=nodes info=min", "pbf kind=nodes info=all",
    "pbf kind=ways info=min", "pbf kind=rels info=all", "pbf st=rev", "pbf st=dup", "pbf several groups in a block", "pbf blocks=3+",
    "pbf blk unk=True", "pbf hdr unk=True", "pbf grp unk=True", "pbf blk order=rev", "pbf grp order=rev", "pbf blk rsfirst=False",
    "pbf blk emptygroup=True", "pbf hdr bbox=True", "pbf grp lenpad=True",
    "pbf way locations", "pbf way locations gran=1", "pbf way locations gran=100", "pbf way locations gran=1000",
    "pbf way locations lat_offset or lon_offset != 0", "pbf way locations both offsets != 0 and granularity not a multiple of 100",
    "pbf way locations of 3+ nodes", "pbf way without locations after a way with locations",
    "xml root=osm", "xml root=osmChange", "xml section=create", "xml section=modify", "xml section=delete", "xml empty section",
    "xml kids=tags_first", "xml attrs=rev", "xml quote=sq", "xml esc=over", "xml esc=hex", "xml esc=dec", "xml ws=crlf", "xml ws=none",
    "xml selfclose=False", "xml decl=bom", "xml decl=none", "xml comments=True", "xml unkel=True", "xml bounds=bounds", "xml bounds=bound",
    "xml visible=false attribute", "xml unknown attributes", "xml omit=0", "xml coord=min", "xml coord=long",
    "opl nl=crlf", "opl nl=cr", "opl nl=lf", "opl sep=tab", "opl sep=mix", "opl trail=True", "opl finalnl=False", "opl esc=over",
    "opl esc=upper", "opl esc=wide", "opl line=empty", "opl line=comment", "opl order=rev", "opl omitted v", "opl omitted d",
    "opl omitted T", "opl omitted x", "opl omitted N", "opl omitted M", "opl omit=0",
]
MUST_HAVE_X = ["o5m mask=n", "o5m mask=w", "o5m mask=r", "o5m mask=nw", "o5m mask=nr", "o5m mask=wr", "o5m mask=nwr",
               "o5m no reset at a type change","pbf kind=dense pack=unpacked", "pbf kind=ways pack=split", "pbf xblobs=first", "pbf xblobs=end",
               "pbf big size=bmax comp=raw", "pbf big size=bmax comp=zlib", "pbf big size=b16m comp=raw", "pbf big size=b16m comp=zlib",
               "xml kids=interleave", "o5m ds=role250"]


def jvms():
    return 2 if os.environ.get("VERIF_TLC_WORKERS") else 4


# ------------------------------------------------------------------------------------------- design check

def design(ctx):
    quick = ctx.tier == "quick"
    jobs = [("O5mTable", "MCO5m.cfg", "o5m: reference table ring (N=3) + delta registers + reset + skipped data sets, all data sets", O5M_ACTIONS, False),
            ("PbfChoices", "MCPbfQ.cfg" if quick else "MCPbf.cfg", "pbf: blocks/groups/parameters/string table/dense/Info", PBF_ACTIONS, False),
            ("XmlChoices", "MCXml.cfg", "xml: osm/osmChange, sections, attribute sets, child order", XML_ACTIONS, False),
            ("OplChoices", "MCOpl.cfg", "opl: field sets, empty/comment lines", OPL_ACTIONS, False),
            ("O5mTable", "MCO5mNoTR.cfg", "o5m: files without type-change resets, decoder that decodes every data set", O5M_ACTIONS_NOTR, False),
            ("O5mTable", "MCO5mMaskAsShipped.cfg", "o5m as shipped: unwanted data sets skipped undecoded in files without type-change resets (expected: violated)", None, True),
            ("O5mTable", "MCO5mAsShipped.cfg", "o5m as shipped: single strings of 251 characters enter the table (expected: TableAgree violated)", None, True),
            ("XmlChoices", "MCXmlAsShipped.cfg", "xml as shipped: one sub-list per run of children (expected: DecodedOK violated)", None, True)]
    if not quick:
        jobs.append(("O5mTable", "MCO5mT.cfg", "o5m: N=4, 4 optional resets/skips", O5M_ACTIONS, False))
        for cfg in ("MCO5mFill.cfg", "MCO5mFill2.cfg", "MCO5mFill3.cfg"):
            jobs.append(("O5mTable", cfg, "o5m: FillerRun (closed form) = the single steps, " + cfg, ["FillerRun", "ObjStart", "Str", "ObjEnd"], False))

    def one(job):
        mod, cfg, label, acts, expect_violation = job
        return job, vlib.tlc(mod, cfg, workers=4, coverage=acts is not None, timeout=2400, tag="c02_" + cfg[:-4],
                             extra=["-noGenerateSpecTE"], java_opts=["-Xmx4g"])
    with ThreadPoolExecutor(max_workers=jvms()) as ex:
        for (mod, cfg, label, acts, expect_violation), r in ex.map(one, jobs):
            if expect_violation:
                if r.error or not r.violation:
                    raise vlib.ModelFailure("%s: the as-shipped variant of the decoder model was expected to violate the "
                                            "A-layer (it documents a known finding) but TLC said: %s" % (cfg, r.error or "no error"))
                ctx.extra.setdefault("as_shipped_models_rejected", []).append(
                    {"cfg": cfg, "violated": re.findall(r"Invariant (\w+) is violated", r.violation)[:1]})
                continue
            vlib.tlc_ok(r, "design check " + cfg)
            vlib.require_actions(r, acts, cfg)
            ctx.add_tlc(r, label)


# ------------------------------------------------------------------------------------------- export

def export(ctx):
    quick = ctx.tier == "quick"
    n = (lambda q, t: q if quick else t)
    jobs = [  # module, cfg, simulate (None = BFS), depth, tag
        ("O5mTable", "GenO5mTiny.cfg", None, None, "o5m all choice vectors of the few-byte data sets"),
        ("O5mTable", "GenO5m.cfg", n(100, 1000), 400, "o5m simulated choice vectors"),
        ("O5mTable", "GenO5mReset.cfg", None, None, "o5m every placement of <= 2 optional resets (newest-row references)"),
        ("O5mTable", "GenO5mX.cfg", n(12, 100), 400, "o5m role of 250 bytes"),
        ("O5mTable", "GenO5mNoTR.cfg", n(25, 200), 400, "o5m files without a reset at the change of object type, read with type subsets"),
        ("PbfChoices", "GenPbf.cfg", n(130, 1000), 300, "pbf simulated choice vectors"),
        ("PbfChoices", "GenPbfX.cfg", n(25, 200), 300, "pbf unpacked/split repeated fields, unknown blob types"),
        ("PbfChoices", "GenPbfBig.cfg", 15, 300, "pbf blobs of 16 MiB and 32 MiB - 1"),
        ("PbfChoices", "GenPbfWayLoc.cfg", n(40, 300), 300, "pbf ways that carry node locations (Way.lat / Way.lon) under every block parameter"),
        ("XmlChoices", "GenXml.cfg", n(80, 400), 200, "xml simulated choice vectors"),
        ("XmlChoices", "GenXmlHist.cfg", n(40, 300), 200, "xml deleted objects: sections versus visible attribute"),
        ("XmlChoices", "GenXmlX.cfg", n(12, 100), 200, "xml interleaved children"),
        ("OplChoices", "GenOpl.cfg", n(100, 800), 200, "opl simulated choice vectors"),
    ]
    if not quick:      # first: it is the longest single run and overlaps with all the others
        jobs.insert(0, ("O5mTable", "GenO5mBulk.cfg", 1, 200000, "o5m real table of 15000 rows, 15010 distinct strings"))

    def one(job):
        mod, cfg, sim, depth, label = job
        return job, vlib.tlc(mod, cfg, workers=3 if sim and sim > 1 else 1 if sim else 3, simulate=sim, depth=depth, seed=ctx.seed,
                             deadlock=False, timeout=2400, tag="c02_" + cfg[:-4], keep_out=True, java_opts=["-Xmx4g", "-Xss256m"])
    pool = []
    with ThreadPoolExecutor(max_workers=jvms()) as ex:
        for (mod, cfg, sim, depth, label), r in ex.map(one, jobs):
            vlib.tlc_ok(r, "export " + cfg)
            ctx.add_tlc(r, "%s (%d exported)" % (label, len(r.cases)))
            for c in r.cases:
                c["src"] = cfg[:-4]
                pool.append(c)
    return pool


def select(ctx, pool):
    """covering selection: every feature at least twice, then a seeded sample up to the budget per source"""
    quick = ctx.tier == "quick"
    rng = random.Random(ctx.seed)
    uniq = {}
    for c in pool:
        k = json.dumps([c["fmt"], c["ds"], c.get("variant"), c.get("root"), c.get("mask"), c["steps"]], sort_keys=True)
        uniq.setdefault(k, c)
    pool = list(uniq.values())
    feats = [enc_common.features(c) for c in pool]
    allf = set().union(*feats) if feats else set()
    missing = [f for f in MUST_HAVE + MUST_HAVE_X if f not in allf]
    if missing:
        raise vlib.ModelFailure("export does not cover the encoding features %s" % missing)
    order = list(range(len(pool)))
    rng.shuffle(order)
    order.sort(key=lambda i: pool[i]["src"] == "GenPbfBig")      # the huge files only where nothing else covers a feature
    chosen = set()
    count = {}
    for want in (1, 2):
        for i in order:
            if i in chosen:
                continue
            if any(count.get(f, 0) < want for f in feats[i]):
                chosen.add(i)
                for f in feats[i]:
                    count[f] = count.get(f, 0) + 1
    budget = {"GenO5mTiny": 200, "GenO5m": 300, "GenO5mReset": 350, "GenPbf": 400, "GenXml": 240, "GenOpl": 300} if quick else {}
    per = {}
    for i in order:
        src = pool[i]["src"]
        if i in chosen:
            per[src] = per.get(src, 0) + 1
    for i in order:
        if i in chosen:
            continue
        src = pool[i]["src"]
        if src == "GenPbfBig" or (quick and per.get(src, 0) >= budget.get(src, 10 ** 9)):
            continue                       # (the 16 / 32 MiB files: the covering subset only)
        chosen.add(i)
        per[src] = per.get(src, 0) + 1
    ctx.extra["features_covered"] = len(allf)
    wl = "pbf way locations"
    ctx.extra["pbf_way_location_cases"] = {
        "exported": sum(1 for f in feats if wl in f),
        "exported_with_offsets": sum(1 for f in feats if wl + " lat_offset or lon_offset != 0" in f),
        "exported_with_offsets_and_odd_granularity": sum(1 for f in feats if wl + " both offsets != 0 and granularity not a multiple of 100" in f),
        "replayed_with_offsets": sum(1 for i in chosen if wl + " lat_offset or lon_offset != 0" in feats[i]),
        "replayed_with_offsets_and_odd_granularity": sum(1 for i in chosen if wl + " both offsets != 0 and granularity not a multiple of 100" in feats[i])}
    ctx.extra["choice_vectors_exported"] = len(pool)
    ctx.extra["choice_vectors_replayed_per_source"] = per
    return [pool[i] for i in sorted(chosen)], allf


# ------------------------------------------------------------------------------------------- materialise + replay

def table_size(case):
    return case.get("N", HOOK_N) if case["fmt"] == "o5m" else 0


def materialise(case, profile, seed, outdir, cid):
    conc, objs, exp = enc_common.concretize(case, profile, seed)
    data, hdr, fmt, plan = enc_common.encode(case, conc, objs, table_size(case))
    path = os.path.join(outdir, "%s.%s" % (cid, EXT[case["fmt"]]))
    with open(path, "wb") as fh:
        fh.write(data)
    h = {"id": cid, "fmt": fmt, "file": path, "exp": exp, "hdr": hdr, "buffer": len(data) < (8 << 20)}
    if "mask" in case:
        h["mask"] = "".join(t for t in "nwr" if t in case["mask"])
    return h, plan, len(data)


def traits(case, plan, step):
    """the part of a failure signature that describes the encoding around the failing object"""
    fmt = case["fmt"]
    if fmt == "pbf":
        blocks = plan["blocks"]
        hit = [b for b in blocks if any(step in g["objs"] for g in b["groups"])] or blocks[-1:]
        b = hit[0] if hit else {"groups": []}
        packs = "+".join(sorted(set(g.get("pack", "packed") for g in b["groups"]))) or "-"
        return "xblobs=%s packs=%s size=%s comp=%s idx=%s hidx=%s" % (plan.get("xblobs"), packs, b.get("size"), b.get("comp"),
                                                                     b.get("idx"), plan["hdr"].get("idx"))
    if fmt == "o5m":
        seen250 = False
        after = "no"
        for st in plan["steps"]:
            if st["a"] == "reset":
                seen250 = False
            elif st["a"] == "obj":
                hows = ([st["user"]] if "user" in st else []) + list(st.get("roles", [])) + list(st.get("tags", []))
                roles = [m["role"] for m in case["all"][st["i"]]["mems"]] if case["all"][st["i"]]["vis"] else []
                p = 1 if "user" in st else 0
                for j, h in enumerate(hows):
                    if h != "inl" and seen250:
                        after = "yes"
                    if h == "inl" and p <= j < p + len(roles) and roles[j - p] == "R250":
                        seen250 = True
        tr, last, fresh = "yes", None, True
        for st in plan["steps"]:
            if st["a"] == "reset":
                fresh = True
            elif st["a"] == "obj":
                t = case["all"][st["i"]]["t"]
                if last is not None and t != last and not fresh:
                    tr = "no"
                last, fresh = t, False
        return "N=%d variant=%s refafter250=%s typeresets=%s mask=%s" % (
            case.get("N", 0), case["variant"], after, tr, "".join(t for t in "nwr" if t in case.get("mask", "nwr")))
    if fmt == "xml":
        kids = [st["kids"] for st in plan["steps"] if st["a"] == "obj" and st["i"] == step]
        return "root=%s kids=%s" % (plan["root"], kids[0] if kids else "-")
    return "nl=%s" % plan.get("nl")


def outcome(r):
    if "crash" in r:
        return "crash:%s" % r["crash"]
    note = r.get("note", "")
    if isinstance(r.get("got"), str) and "threw" in note:
        m = re.sub(r"\d{3,}", "#", r["got"])
        return "threw " + m[:110]
    if isinstance(r.get("exp"), dict) and isinstance(r.get("got"), dict):
        diff = sorted(k for k in r["exp"] if r["exp"].get(k) != r["got"].get(k))
        if "refs" in diff and "locs" in diff:      # the location list runs parallel to the reference list: wrong references
            diff.remove("locs")                    # are named as such (signatures of the recorded findings stay what they were)
        return "object differs in " + ",".join(diff)
    return re.sub(r"\d+", "#", note)[:80]


def start_builds(need_hook, need_full):
    """compile the harness (table hook N=3 / real table) in background threads; returns {full?: future}"""
    flags = ["-DOSMIUM_WITH_LZ4"]
    ex = ThreadPoolExecutor(max_workers=2)
    fut = {}
    if need_hook:
        fut[False] = ex.submit(vlib.build, name="encodings_replay", src="encodings_replay.cpp",
                               flags=flags + ["-DOSMIUM_VERIF_O5M_TABLE_SIZE=%d" % HOOK_N])
    if need_full:
        fut[True] = ex.submit(vlib.build, name="encodings_replay_full", src="encodings_replay.cpp", flags=flags)
    ex.shutdown(wait=False)
    return fut


def run_cases(ctx, items, builds=None):
    """items: list of (case, profile).  Encodes, replays, classifies.  Returns number of harness cases."""
    need_full = any(table_size(c) not in (0, HOOK_N) for c, _ in items)
    need_hook = any(table_size(c) in (0, HOOK_N) for c, _ in items)
    outdir = os.path.join(vlib.BUILD, "c02", "%s_%d" % (ctx.tier, os.getpid()))
    shutil.rmtree(outdir, ignore_errors=True)
    os.makedirs(outdir)
    if builds is None:
        builds = start_builds(need_hook, need_full)
    hc, meta = [], {}
    nbytes = 0
    for n, (case, profile) in enumerate(items):
        cid = "%s-%d-p%d" % (case["fmt"], n, profile)
        try:
            h, plan, size = materialise(case, profile, ctx.seed, outdir, cid)
        except Exception as exn:        # the independent encoder could not follow the choice vector: machinery failure
            raise vlib.ModelFailure("encoder failed on %s (%s/%s): %s: %s" % (cid, case.get("src"), case["ds"], type(exn).__name__, exn))
        nbytes += size
        h["full"] = table_size(case) not in (0, HOOK_N)
        hc.append(h)
        meta[cid] = (case, profile, plan)
    binary = {full: f.result() for full, f in builds.items()}
    res = []
    for full in (False, True):
        part = [h for h in hc if h["full"] == full]
        if part:
            big = [h for h in part if os.path.getsize(h["file"]) > (4 << 20)]
            small = [h for h in part if h not in big]
            res += vlib.replay_cases(binary[full], small, timeout=2400)
            if big:
                res += vlib.replay_cases(binary[full], big, nproc=2, timeout=2400)
    if len(res) != len(hc):
        raise vlib.ModelFailure("replay returned %d results for %d cases" % (len(res), len(hc)))
    ok_groups = {}
    for r in res:
        case, profile, plan = meta[r["id"]]
        g = ok_groups.setdefault((case["ds"], profile), {})
        g.setdefault(case["fmt"], True)
        if r.get("ok"):
            continue
        g[case["fmt"]] = False
        step = r.get("step", -1)
        sig = "%s ds=%s %s | %s" % (case["fmt"], case["ds"], traits(case, plan, step if isinstance(step, int) else -1), outcome(r))
        if "crash" in r:
            what = "reader %s while decoding a conformant file (object %s): %s" % (r["crash"], step, r.get("stderr", "")[:600])
        else:
            what = "the Reader's result differs from the spec's object list at object %s (%s): exp=%s got=%s" % (
                step, r.get("note", ""), json.dumps(r.get("exp"))[:260], json.dumps(r.get("got"))[:260])
        payload = {"case": {k: v for k, v in case.items()}, "profile": profile, "seed": ctx.seed, "result": r}
        ctx.violation(sig, payload, what)
    shutil.rmtree(outdir, ignore_errors=True)
    ctx.extra["bytes_of_generated_files"] = ctx.extra.get("bytes_of_generated_files", 0) + nbytes
    agree = sum(1 for g in ok_groups.values() if len(g) == 4 and all(g.values()))
    ctx.extra["data_sets_x_profiles_on_which_all_four_readers_agree"] = agree
    ctx.extra["data_sets_x_profiles_run"] = len(ok_groups)
    return len(hc)


def run(ctx):
    t0 = time.time()
    vlib.repo_tree_hash()
    builds = start_builds(True, ctx.tier != "quick")          # the cold build overlaps with the TLC runs
    design(ctx)
    vlib.log("[C02] design checks done in %.0fs" % (time.time() - t0))
    pool = export(ctx)
    cases, allf = select(ctx, pool)
    vlib.log("[C02] %d choice vectors exported, %d selected (%.0fs)" % (len(pool), len(cases), time.time() - t0))
    nprof = 4
    items = []
    for n, c in enumerate(cases):
        big = c["src"] in ("GenPbfBig", "GenO5mBulk")
        items.append((c, 0 if big else n % nprof))
        if ctx.tier != "quick" and not big:
            items.append((c, (n + 1 + (n // nprof) % (nprof - 1)) % nprof))
    n = run_cases(ctx, items, builds)
    ctx.traces = n
    ctx.evaluations = sum(2 * (len(c["exp"]) + 1) for c, _ in items)
    ctx.nontrivial = len(cases)
    ctx.rule = ("a case = (format, data set, choice vector exported by TLC, value profile); distinct by the first three; "
                "evaluations = objects + header compared, once through the file descriptor path and once through the buffer path")
    seen = set()
    for c, p in items:
        if c["fmt"] not in seen:
            seen.add(c["fmt"])
            ctx.sample({"fmt": c["fmt"], "ds": c["ds"], "steps": c["steps"][:12], "objects": len(c["exp"]), "profile": p}, cap=4)
    ctx.extra["encoding_features"] = sorted(allf)[:400]
    ctx.assumptions = [
        "values are boundary tokens: the model's small numbers / string tokens are mapped injectively onto concrete ids "
        "(up to 2^58, negative), versions / uids / changesets up to 2^31-1, timestamps up to 2100, coordinates up to "
        "+-179.00001 / +-89.00001 degrees, UTF-8 strings with XML / OPL special characters and exact 249/250/251 byte "
        "lengths; bit level codecs (varint, zigzag, deflate, lz4) are exercised, not enumerated",
        "the o5m reference table has 3 rows (hook OSMIUM_VERIF_O5M_TABLE_SIZE) in all cases but the thorough tier's bulk case "
        "(real 15000 rows, 15010 distinct strings)",
        "o5m: a reset precedes every change of object type (whether object types share delta registers is not specified "
        "consistently by the format's implementations); uid 0 with a non-empty user name is outside the domain",
        "trusted base: tools/enc_*.py (independent encoders written from the format descriptions, python standard library only)",
        "PBF coordinates / timestamps are restricted to values the chosen granularity represents exactly",
        "node locations of ways (PBF Way.lat / Way.lon) are part of the data model for the data set 'wayloc', which only the "
        "PBF module and encoder carry; for every way of every format the location of each way node is compared (undefined "
        "where the way has none)",
    ]


def replay(ctx, path):
    with open(path) as fh:
        d = json.load(fh)
    p = d["case"]
    ctx.seed = p.get("seed", ctx.seed)
    n = run_cases(ctx, [(p["case"], p["profile"])])
    ctx.traces = n
    ctx.evaluations = 2 * (len(p["case"]["exp"]) + 1)
    ctx.nontrivial = 1
    ctx.states = ctx.transitions = 1
    ctx.sample({"fmt": p["case"]["fmt"], "ds": p["case"]["ds"], "steps": p["case"]["steps"][:12]})
