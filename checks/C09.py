"""C09 - compressed input is decompressed completely and truncation is detected.

Spec: specs/Decompress.tla.  A-layer = reference decompressor (all payloads of all streams, or error for a
truncated / corrupted file).  I-layer = Bzip2Decompressor::read, GzipDecompressor::read/close, the two buffer
decompressors and ReadThreadManager's "an empty string ends the input", over environment modules for libbz2's
BZ2_bzRead/GetUnused, zlib's gzread/gzclose_r and the inflate/BZ2_bzDecompress stream objects.  TLC checks
I => A for every file of 1..3 streams with sizes around the scaled-down boundaries, every truncation point and
every corrupted byte; the same runs export (layout, fault, expected outcome).  Binding: each exported case is
made concrete (real gzip/bzip2 streams built with Python's zlib/bz2, sizes mapped class-preservingly onto the
real constants: piece size, 10240, libbz2's 5000 byte read block) and replayed on the real decompressors
(harness/decomp_replay.cpp)."""
import bz2
import json
import os
import random
import shutil
import time
import zlib
from concurrent.futures import ThreadPoolExecutor

import vlib

LEVEL = "model_checking"

KINDS = ["bz2fd", "gzfd", "bz2buf", "gzbuf"]
MODEL_B = 2          # piece size in the model
MODEL_R = 3          # libbz2 read block in the model
MODEL_H = 2          # magic bytes in the model
REAL_R = 5000        # BZ_MAX_UNUSED
FD_PIECE = 8192      # OSMIUM_VERIF_INPUT_BUFFER_SIZE of the small build
BUF_PIECE = 10240    # output loop of the buffer decompressors
BIG_PIECE = 1024 * 1024

ACTIONS = {
    "bz2fd": ["ChooseFile", "RTRead", "ReadRet", "Close", "Bz2Head", "Bz2Fill", "Bz2Dec", "Bz2After"],
    "gzfd": ["ChooseFile", "RTRead", "ReadRet", "Close", "GzHead", "GzLook", "GzMember", "GzAfter"],
    "bz2buf": ["ChooseFile", "RTRead", "ReadRet", "Close", "BufHead", "BufDec", "BufAfter"],
    "gzbuf": ["ChooseFile", "RTRead", "ReadRet", "Close", "BufHead", "BufDec", "BufAfter"],
}


# ------------------------------------------------------------------------------------------ TLC

def tlc_jobs(ctx):
    quick = ctx.tier == "quick"
    jobs = []
    for k in KINDS:
        if quick:
            jobs.append(("GenDecompQ_%s.cfg" % k, k, "main", "I=>A + export: 1..2 streams, clen 3..5, ulen 0..4, every truncation and corrupted byte"))
            jobs.append(("GenDecomp3Q_%s.cfg" % k, k, "main", "I=>A + export: 1..3 streams, clen 3..4, ulen 0..2, no fault"))
        else:
            jobs.append(("GenDecomp_%s.cfg" % k, k, "main", "I=>A + export: 1..2 streams, clen 3..6, ulen 0..5, every truncation and corrupted byte"))
            jobs.append(("GenDecomp3_%s.cfg" % k, k, "main", "I=>A + export: 1..3 streams, clen 3..4, ulen 0..2, every truncation"))
        jobs.append(("GenDecompRT_%s.cfg" % k, k, "rt", "round trip through the library's compressor, <= 3 writes of 0..3 bytes, with liveness"))
        jobs.append(("MCDecompL1_%s.cfg" % k, k, "live", "termination under weak fairness, one stream, every fault"))
        if k != "gzfd":
            jobs.append(("MCDecompLegacy_%s.cfg" % k, k, "legacy", "vacuity guard: the algorithm before the F2/F3 repairs must violate Correct"))
    return jobs


def run_tlc(ctx):
    jobs = tlc_jobs(ctx)
    quick = ctx.tier == "quick"
    big = [j for j in jobs if j[2] == "main"]
    small = [j for j in jobs if j[2] != "main"]
    results = {}

    def one(job, workers):
        cfg, kind, role, label = job
        r = vlib.tlc("Decompress", cfg, workers=workers, coverage=(role in ("main", "rt")),
                     timeout=1500 if quick else 3000, extra=["-noGenerateSpecTE"], keep_out=False)
        return job, r

    # the heavy runs first, then the many small ones; VERIF_TLC_PARALLEL (or, on a shared machine, the presence of
    # vlib's VERIF_TLC_WORKERS cap) lowers the number of JVMs alive at once
    par = int(os.environ.get("VERIF_TLC_PARALLEL", "0") or "0") or (2 if os.environ.get("VERIF_TLC_WORKERS") else 8)
    with ThreadPoolExecutor(max_workers=par) as ex:
        futs = [ex.submit(one, j, 4) for j in big] + [ex.submit(one, j, 1) for j in small]
        for f in futs:
            job, r = f.result()
            results[job[0]] = (job, r)
    cases = []
    for cfg in sorted(results):
        (cfg_, kind, role, label), r = results[cfg]
        what = "%s [%s]" % (label, cfg)
        if role == "legacy":
            if r.error or not r.violation or "Correct" not in r.violation:
                raise vlib.ModelFailure("%s: expected TLC to report a violation of Correct for Algo = legacy, got: %s"
                                        % (what, (r.error or r.violation or "no violation")[:500]))
            ctx.extra.setdefault("legacy_algorithm_rejected_by_tlc", []).append(kind)
            continue
        vlib.tlc_ok(r, what)
        ctx.add_tlc(r, what)
        if role == "main":
            vlib.require_actions(r, ACTIONS[kind], what)
        if role == "rt":
            vlib.require_actions(r, ["CWrite", "CClose"], what)
        for c in r.cases:
            c["src"] = cfg
            cases.append(c)
    return cases


# ------------------------------------------------------------------------------------------ abstract cases

def fault_class(c):
    """(class name, stream index (1-based), offset in stream, clen of that stream) of the model's fault position"""
    f = c["fault"]
    if f["k"] == "none":
        return ("none", 0, 0, 0)
    pos = f["at"]
    start = 0
    for i, s in enumerate(c["streams"]):
        if pos < start + s["c"]:
            o = pos - start
            if f["k"] == "trunc":
                cls = "boundary" if o == 0 else "magic" if o < MODEL_H else "check" if o == s["c"] - 1 else "body"
            else:
                cls = "magic%d" % o if o < MODEL_H else "check" if o == s["c"] - 1 else "body"
            return (cls, i + 1, o, s["c"])
        start += s["c"]
    raise vlib.ModelFailure("fault position outside the file: %s" % json.dumps(c))


def abstract_key(c):
    f = {k: v for k, v in c["fault"].items() if k != "late"}
    return (c["kind"], json.dumps(c["streams"], sort_keys=True), json.dumps(f, sort_keys=True), json.dumps(c.get("wlog", [])))


def dedup(cases):
    seen = {}
    for c in cases:
        k = abstract_key(c)
        if c["src"].startswith("GenDecompRT"):
            k = (c["kind"], "rt", "", json.dumps(c["wlog"]))
        if k not in seen:
            seen[k] = c
    # TLC prints in a nondeterministic order (several workers): sort so that seeds map to the same cases in every run
    return [seen[k] for k in sorted(seen)]


def select(ctx, cases):
    """quick: every fault-free layout, a seeded stratified sample of the faulty ones; thorough: everything"""
    if ctx.tier != "quick":
        return cases
    rnd = random.Random(ctx.seed)
    keep, strata = [], {}
    for c in cases:
        if c["src"].startswith("GenDecompRT") or c["fault"]["k"] == "none":
            keep.append(c)
            continue
        cls, si, o, cl = fault_class(c)
        strata.setdefault((c["kind"], c["fault"]["k"], cls, si, len(c["streams"])), []).append(c)
    for key in sorted(strata):
        lst = strata[key]
        rnd.shuffle(lst)
        keep += lst[:40]
    return keep


# ------------------------------------------------------------------------------------------ concrete streams

FILLER = b"n1 v1 dV c0 t2020-01-01T00:00:00Z i1 utest T x1.5 y2.5\n"


def payload_bytes(ulen, nrand, seed):
    rnd = random.Random(seed)
    head = rnd.getrandbits(8 * nrand).to_bytes(nrand, "little") if nrand else b""
    rest = (FILLER * ((ulen - nrand) // len(FILLER) + 1))[:ulen - nrand]
    return head + rest


def gz_compress(p):
    co = zlib.compressobj(6, zlib.DEFLATED, 31)
    return co.compress(p) + co.flush()


def bz_compress(p):
    return bz2.compress(p, 1)


def ref_decompress(comp, data):
    """reference decompressor (multi-stream); returns bytes or raises"""
    if comp == "gz":
        out, rest = [], data
        while rest:
            d = zlib.decompressobj(31)
            out.append(d.decompress(rest))
            if not d.eof:
                raise EOFError("truncated gzip stream")
            rest = d.unused_data
        return b"".join(out)
    out, rest = [], data
    while rest:
        d = bz2.BZ2Decompressor()
        out.append(d.decompress(rest))
        if not d.eof:
            raise EOFError("truncated bzip2 stream")
        rest = d.unused_data
    return b"".join(out)


class Lib:
    """directory of distinct compressed streams (<sid>.c) and their payloads (<sid>.p)"""

    def __init__(self, path):
        self.path = path
        shutil.rmtree(path, ignore_errors=True)
        os.makedirs(path)
        self.cache = {}
        self.n = 0
        self.len = {}
        self.unaligned = 0
        self.compress_calls = 0

    def _store(self, key, cbytes, payload):
        sid = "s%d" % self.n
        self.n += 1
        with open(os.path.join(self.path, sid + ".c"), "wb") as fh:
            fh.write(cbytes)
        with open(os.path.join(self.path, sid + ".p"), "wb") as fh:
            fh.write(payload)
        self.cache[key] = sid
        self.len[sid] = len(cbytes)
        return sid

    def stream(self, comp, ulen, seed, prev_end=None, residue=None):
        """a stream with a payload of ulen bytes; for bzip2 with residue given, its compressed length is chosen so
        that the stream ends on (residue 0, exactly), just after (1) or just before (4999) a multiple of 5000,
        where the payload is large enough to allow that"""
        fn = gz_compress if comp == "gz" else bz_compress
        if residue is None or comp == "gz":
            key = (comp, ulen, None, seed % 3)
            if key in self.cache:
                return self.cache[key], True
            p = payload_bytes(ulen, ulen // 2, seed % 3)
            self.compress_calls += 1
            return self._store(key, fn(p), p), True
        # "on a block boundary" is hit exactly; "just after" / "just before" mean within 32 bytes
        allowed = {0: range(0, 1), 1: range(1, 33), REAL_R - 1: range(REAL_R - 32, REAL_R)}[residue]
        key = (comp, ulen, prev_end % REAL_R, residue)
        if key in self.cache:
            return self.cache[key], True
        lo = len(fn(payload_bytes(ulen, 0, 1)))
        hi = len(fn(payload_bytes(ulen, ulen, 1)))
        self.compress_calls += 2
        want = None
        x = lo + 8
        while x <= hi - 40:
            if (prev_end + x) % REAL_R == allowed[len(allowed) // 2]:
                want = x
                break
            x += 1
        if want is None:
            self.unaligned += 1
            return self.stream(comp, ulen, seed)[0], False
        # number of incompressible bytes ~ compressed length; then walk
        a, b = 0, ulen
        while b - a > 16:
            m = (a + b) // 2
            self.compress_calls += 1
            if len(fn(payload_bytes(ulen, m, 1))) < want:
                a = m
            else:
                b = m
        r = a
        for t in range(400):
            # fresh random content on every try: the compressed length of r random bytes scatters by a few bytes
            p = payload_bytes(ulen, r, 2 + t)
            cb = fn(p)
            self.compress_calls += 1
            if (prev_end + len(cb)) % REAL_R in allowed:
                return self._store(key, cb, p), True
            r = min(ulen, max(0, r + want - len(cb)))
        self.unaligned += 1
        return self.stream(comp, ulen, seed)[0], False


def build_streams(lib, comp, recipe):
    """recipe: list of dict(ulen, seed, prev_end, residue) -> (stream ids, compressed lengths, all aligned)"""
    sids, lens, aligned = [], [], True
    for rec in recipe:
        sid, ok = lib.stream(comp, rec["ulen"], rec["seed"], prev_end=rec["prev_end"], residue=rec["residue"])
        sids.append(sid)
        lens.append(lib.len[sid])
        aligned = aligned and ok
    return sids, lens, aligned


def real_ulen(u, piece, variant):
    q, r = divmod(u, MODEL_B)
    if r == 0:
        return q * piece
    # the model's odd sizes stand for "one more than a multiple" and "one less than the next multiple"
    return q * piece + (1 if variant % 2 == 0 else piece - 1)


def concretize(ctx, lib, c, idx, piece_fd=FD_PIECE):
    """abstract TLC case -> list of harness cases (possibly empty if the fault cannot be made concrete)"""
    kind = c["kind"]
    comp = "gz" if kind.startswith("gz") else "bz"
    piece = piece_fd if kind.endswith("fd") else BUF_PIECE
    rnd = random.Random((ctx.seed * 1000003 + idx) & 0xffffffff)
    variant = rnd.randrange(4)
    if c["src"].startswith("GenDecompRT"):
        chunks = [real_ulen(w, piece, variant + i) for i, w in enumerate(c["wlog"])]
        return [{"id": "rt-%s-%d" % (kind, idx), "kind": kind, "rt": True, "lib": lib.path, "chunks": chunks,
                 "seed": rnd.randrange(1 << 30), "exp": {"verdict": "ok"}, "abstract": c}]
    recipe, end, mend = [], 0, 0
    for i, s in enumerate(c["streams"]):
        mend += s["c"]
        rec = {"ulen": real_ulen(s["u"], piece, variant + i), "seed": idx + i, "prev_end": None, "residue": None}
        if kind == "bz2fd":
            rec["prev_end"] = end
            rec["residue"] = {0: 0, 1: 1, MODEL_R - 1: REAL_R - 1}[mend % MODEL_R]
        sid, ok = lib.stream(comp, rec["ulen"], rec["seed"], prev_end=rec["prev_end"], residue=rec["residue"])
        end += lib.len[sid]
        recipe.append(rec)
    sids, lens, aligned = build_streams(lib, comp, recipe)
    cls, si, o, cl = fault_class(c)
    fault = {"k": c["fault"]["k"]}
    if fault["k"] != "none":
        start = sum(lens[:si - 1])
        ln = lens[si - 1]
        hdr = 10 if comp == "gz" else 4
        trl = 8 if comp == "gz" else 4
        if fault["k"] == "trunc":
            if cls == "boundary":
                at = start
            elif cls == "magic":
                at = start + 1
            elif cls == "check":
                at = start + ln - 1
            else:
                cand = [start + 2, start + hdr // 2 + 1, start + hdr, start + ln // 2, start + ln - trl, start + ln - trl // 2,
                        start + ln - 2, start + 2 + (o - 2) * (ln - 4) // max(1, cl - 3)]
                if kind == "bz2fd":
                    b0 = (start // REAL_R + 1) * REAL_R
                    cand += [b for b in (b0 - 1, b0, b0 + 1) if start + 2 <= b <= start + ln - 2]
                cand = [a for a in cand if start + 2 <= a <= start + ln - 2] or [start + 2]
                at = rnd.choice(cand)
            fault["at"] = at
        else:
            full = b"".join(open(os.path.join(lib.path, s + ".c"), "rb").read() for s in sids)
            good = ref_decompress(comp, full)
            found = None
            for t in range(24):
                if cls.startswith("magic"):
                    at = start + o
                elif cls == "check":
                    at = start + ln - 1 - rnd.randrange(trl)
                else:
                    at = start + hdr + rnd.randrange(max(1, ln - hdr - trl))
                mask = rnd.choice([0x01, 0x80, 0xff, 0x10, 0x04])
                bad = bytearray(full)
                bad[at] ^= mask
                try:
                    same = ref_decompress(comp, bytes(bad)) == good
                except Exception:
                    same = False
                if not same:        # the reference decompressor does not yield the original: really corrupted
                    found = (at, mask)
                    break
            if not found:
                return []
            fault["at"], fault["xor"] = found
    return [{"id": "%s-%d" % (kind, idx), "kind": kind, "lib": lib.path, "streams": sids, "fault": fault,
             "exp": {"verdict": c["exp"]["verdict"], "nstreams": c["exp"]["nstreams"]},
             "lenient": bool(c["model"]["lenient"]), "aligned": aligned, "real_lens": lens, "piece": piece, "recipe": recipe,
             "abstract": c}]


def signature(hc, r):
    c = hc["abstract"]
    if hc.get("rt"):
        return "kind=%s roundtrip writes=%s exp=ok got=%s note=%s" % (hc["kind"], json.dumps(c["wlog"]),
                                                                     (r.get("got") or {}).get("verdict", r.get("crash", "?")), r.get("note", "")[:60])
    cls, si, o, cl = fault_class(c)
    got = (r.get("got") or {})
    gv = got.get("verdict", r.get("crash", "mismatch"))
    if "offset" in got:
        gv = "offset>filesize"
    if "delivered_before" in got:
        gv = "not-a-prefix"
    if hc["kind"] == "gzfd" and cls in ("body", "check") and got.get("verdict") == "ok" and got.get("zlib_gzread_accepts"):
        # zlib's own gzread()/gzclose_r() loop with the same request size does not report the premature end of this
        # file either (environment probe in the harness): the signature of finding F3d
        cls += "+eofblind"
    return "kind=%s fault=%s@%s stream=%d/%d exp=%s got=%s layout=%s" % (
        hc["kind"], c["fault"]["k"], cls, si, len(c["streams"]), hc["exp"]["verdict"], gv,
        json.dumps([[s["c"], s["u"]] for s in c["streams"]], separators=(",", ":")))


# ------------------------------------------------------------------------------------------ run

def binaries(ctx):
    specs = [dict(name="decomp_replay", src="decomp_replay.cpp", flags=["-DOSMIUM_VERIF_INPUT_BUFFER_SIZE=%d" % FD_PIECE])]
    if ctx.tier != "quick":
        specs.append(dict(name="decomp_replay_1m", src="decomp_replay.cpp", flags=[]))
    return vlib.build_many(specs)     # at most two compilers


def replay_cases(ctx, binary, hcases, timeout=900, watchdog=10):
    slim = [{k: v for k, v in hc.items() if k != "abstract"} for hc in hcases]
    # a hanging decompressor is killed by the harness watchdog and shows up as a crashed case; a handful suffices
    res = vlib.replay_cases(binary, slim, timeout=timeout, env={"VH_WATCHDOG": str(watchdog)}, max_crashes=6)
    if len(res) != len(hcases):
        raise vlib.ModelFailure("replay returned %d results for %d cases" % (len(res), len(hcases)))
    byid = {hc["id"]: hc for hc in hcases}
    bad = 0
    for r in res:
        if r.get("ok"):
            continue
        if r.get("step") == -1 and "unexpected exception" in r.get("note", ""):
            raise vlib.ModelFailure("harness failure: %s" % r["note"])
        bad += 1
        hc = byid[r["id"]]
        if "crash" in r:
            if "HANG:" in r.get("stderr", ""):
                r["crash"] = "hang"
            what = "real decompressor %s at step %s: %s" % (r["crash"], r.get("step"), r.get("stderr", "").strip()[:700])
        else:
            what = "%s: outcome differs from the spec at step %s: exp=%s got=%s; file: %s" % (
                r.get("note", ""), r.get("step"), json.dumps(r.get("exp"))[:200], json.dumps(r.get("got"))[:300],
                json.dumps({k: hc.get(k) for k in ("kind", "fault", "real_lens", "piece", "chunks")}))
        payload = {"case": {k: v for k, v in hc.items() if k != "lib"}, "result": r}
        ctx.violation(signature(hc, r), payload, what)
    return bad


def run(ctx):
    quick = ctx.tier == "quick"
    with ThreadPoolExecutor(max_workers=2) as ex:
        fb = ex.submit(binaries, ctx)
        ft = ex.submit(run_tlc, ctx)
        bins = fb.result()
        exported = ft.result()
    t1 = time.time()
    cases = select(ctx, dedup(exported))
    lib = Lib(os.path.join(vlib.BUILD, "c09", "lib_%d" % os.getpid()))
    try:
        hcases = []
        skipped = 0
        for i, c in enumerate(cases):
            hc = concretize(ctx, lib, c, i)
            if not hc:
                skipped += 1
            hcases += hc
        t2 = time.time()
        replay_cases(ctx, bins[0], hcases)
        t3 = time.time()
        ctx.extra["phase_wall_s"] = {"tlc_and_build": round(t1 - ctx.t0, 1), "concretize": round(t2 - t1, 1), "replay": round(t3 - t2, 1)}
        vlib.log("[C09] tlc+build %.1fs, %d abstract cases -> %d concrete in %.1fs (%d streams, %d compress calls), replay %.1fs"
                 % (t1 - ctx.t0, len(cases), len(hcases), t2 - t1, lib.n, lib.compress_calls, t3 - t2))
        extra = []
        if not quick:
            extra = thorough_extra(ctx, lib, cases, bins)
        allc = hcases + extra
        ctx.traces = len(allc)
        ctx.evaluations = sum(2 * (2 + sum(hc.get("real_lens", [0])) // hc.get("piece", FD_PIECE)) for hc in allc)
        ctx.nontrivial = len(set((hc["kind"], json.dumps(hc.get("streams")), json.dumps(hc.get("fault")), json.dumps(hc.get("chunks"))) for hc in allc))
        ctx.rule = ("a case = (decompressor kind, concrete file = sequence of real compressed streams, fault = none | cut at byte t | "
                    "byte p xor mask) or (kind, sequence of write() sizes); distinct by that tuple; each is run through the "
                    "read() loop and through ReadThreadManager; evaluations = read() results checked (offset, prefix) + final verdicts")
        kinds = {}
        for hc in allc:
            k = (hc["kind"], "rt" if hc.get("rt") else hc["fault"]["k"])
            kinds["%s/%s" % k] = kinds.get("%s/%s" % k, 0) + 1
        ctx.extra["cases_per_kind_and_fault"] = kinds
        ctx.extra["exported_by_tlc"] = len(exported)
        ctx.extra["distinct_abstract_cases"] = len(cases)
        ctx.extra["corruptions_not_concretizable"] = skipped
        ctx.extra["distinct_compressed_streams"] = lib.n
        ctx.extra["bzip2_streams_without_block_alignment"] = lib.unaligned
        seen = set()
        for hc in allc:
            k = (hc["kind"], hc.get("rt", False), (hc.get("fault") or {}).get("k"))
            if k not in seen and len(seen) < 6:
                seen.add(k)
                ctx.sample({k2: v for k2, v in hc.items() if k2 not in ("lib", "id")})
        ctx.assumptions = [
            "model constants are scaled down (libbz2 read block R=3 for 5000, piece size B=2); a model payload length q*B+r is made "
            "concrete as q*piece (+1 or piece-1 for r=1) with piece = %d (OSMIUM_VERIF_INPUT_BUFFER_SIZE hook) for the fd decompressors "
            "and 10240 for the buffer decompressors%s; for bzip2-from-fd the compressed length of each stream is searched so that the "
            "stream ends on / one after / one before a multiple of 5000 as in the model wherever the payload is large enough" % (
                FD_PIECE, "" if quick else "; a second build with the real 1 MiB piece size runs a subset"),
            "streams are produced by Python's zlib (gzip container) and bz2; a byte corruption counts only if the reference "
            "decompressor does not yield the original output for the corrupted file (header bytes like mtime are not protected)",
            "an empty (0 byte) file and trailing garbage that is not a stream are outside the file model",
            "the environment modules state the documented contracts of BZ2_bzRead/BZ2_bzReadGetUnused/stdio, gzread/gzclose_r and "
            "inflate/BZ2_bzDecompress; they were probed against the installed zlib/libbz2 but are not verified themselves",
        ]
    finally:
        shutil.rmtree(lib.path, ignore_errors=True)


def thorough_extra(ctx, lib, cases, bins):
    """every truncation length of small multi-stream files (expected outcome per position class from the TLC export),
    and a subset of the layouts with the real 1 MiB piece size"""
    out = []
    # index the exported truncation verdicts by (kind, layout, class, stream)
    verdict = {}
    layouts = {}
    for c in cases:
        if c["src"].startswith("GenDecompRT"):
            continue
        lay = json.dumps(c["streams"], sort_keys=True)
        if c["fault"]["k"] == "trunc":
            cls, si, o, cl = fault_class(c)
            verdict[(c["kind"], lay, cls, si)] = c
        elif c["fault"]["k"] == "none":
            layouts.setdefault(c["kind"], []).append(c)
    rnd = random.Random(ctx.seed + 77)
    idx = 10 ** 6
    for kind in KINDS:
        comp = "gz" if kind.startswith("gz") else "bz"
        multi = [c for c in layouts[kind] if len(c["streams"]) >= 2 and all(s["c"] >= 4 for s in c["streams"])]
        rnd.shuffle(multi)
        for c in multi[:6]:
            lay = json.dumps(c["streams"], sort_keys=True)
            # small payloads so that every byte position can be cut: model u -> u * 37 bytes
            recipe = [{"ulen": s["u"] * 37, "seed": 900 + i, "prev_end": None, "residue": None} for i, s in enumerate(c["streams"])]
            sids, lens, _ = build_streams(lib, comp, recipe)
            total = sum(lens)
            for t in range(1, total):
                start = 0
                for si, ln in enumerate(lens, 1):
                    if t < start + ln:
                        break
                    start += ln
                o = t - start
                cls = "boundary" if o == 0 else "magic" if o == 1 else "check" if o == ln - 1 else "body"
                ac = verdict.get((kind, lay, cls, si))
                if ac is None:
                    continue
                idx += 1
                out.append({"id": "%s-cut-%d" % (kind, idx), "kind": kind, "lib": lib.path, "streams": sids,
                            "fault": {"k": "trunc", "at": t},
                            "exp": {"verdict": ac["exp"]["verdict"], "nstreams": ac["exp"]["nstreams"]},
                            "lenient": bool(ac["model"]["lenient"]), "aligned": False, "real_lens": lens,
                            "piece": FD_PIECE if kind.endswith("fd") else BUF_PIECE, "recipe": recipe, "abstract": ac})
    replay_cases(ctx, bins[0], out)
    # real 1 MiB pieces (fd kinds only; the buffer decompressors do not depend on it)
    big = []
    for kind in ("bz2fd", "gzfd"):
        sel = [c for c in cases if c["kind"] == kind and not c["src"].startswith("GenDecompRT")
               and c["fault"]["k"] in ("none", "trunc") and sum(s["u"] for s in c["streams"]) <= 5]
        rnd.shuffle(sel)
        none = [c for c in sel if c["fault"]["k"] == "none"][:14]
        tr = [c for c in sel if c["fault"]["k"] == "trunc"][:10]
        for c in none + tr:
            idx += 1
            big += concretize_big(ctx, lib, c, idx)
    replay_cases(ctx, bins[1], big, timeout=3000, watchdog=600)
    return out + big


def concretize_big(ctx, lib, c, idx):
    """same mapping with piece = 1 MiB, no block alignment search (too slow for MiB-sized streams)"""
    kind = c["kind"]
    comp = "gz" if kind.startswith("gz") else "bz"
    rnd = random.Random(ctx.seed + idx)
    recipe = [{"ulen": real_ulen(s["u"], BIG_PIECE, idx + i), "seed": idx + i, "prev_end": None, "residue": None}
              for i, s in enumerate(c["streams"])]
    sids, lens, _ = build_streams(lib, comp, recipe)
    cls, si, o, cl = fault_class(c)
    fault = {"k": c["fault"]["k"]}
    if fault["k"] == "trunc":
        start = sum(lens[:si - 1])
        ln = lens[si - 1]
        fault["at"] = {"boundary": start, "magic": start + 1, "check": start + ln - 1}.get(cls, start + 2 + rnd.randrange(max(1, ln - 4)))
    return [{"id": "%s-1m-%d" % (kind, idx), "kind": kind, "lib": lib.path, "streams": sids, "fault": fault,
             "exp": {"verdict": c["exp"]["verdict"], "nstreams": c["exp"]["nstreams"]},
             "lenient": bool(c["model"]["lenient"]), "aligned": False, "real_lens": lens, "piece": BIG_PIECE, "recipe": recipe,
             "abstract": c}]


def replay(ctx, path):
    """re-run exactly one recorded case: the streams are rebuilt from the recorded recipe (deterministic)"""
    with open(path) as fh:
        d = json.load(fh)
    hc = d["case"]["case"]
    lib = Lib(os.path.join(vlib.BUILD, "c09", "replay_%d" % os.getpid()))
    try:
        if hc.get("piece") == BIG_PIECE:
            binary = vlib.build("decomp_replay_1m", "decomp_replay.cpp", flags=[])
        else:
            binary = vlib.build("decomp_replay", "decomp_replay.cpp", flags=["-DOSMIUM_VERIF_INPUT_BUFFER_SIZE=%d" % FD_PIECE])
        hc = dict(hc, lib=lib.path)
        if not hc.get("rt"):
            comp = "gz" if hc["kind"].startswith("gz") else "bz"
            sids, lens, _ = build_streams(lib, comp, hc["recipe"])
            if lens != hc["real_lens"]:
                raise vlib.ModelFailure("replay: rebuilt streams have compressed lengths %s, recorded %s" % (lens, hc["real_lens"]))
            hc["streams"] = sids
        replay_cases(ctx, binary, [hc])
        ctx.traces = 1
        ctx.evaluations = 2
        ctx.nontrivial = 1
        ctx.states = ctx.transitions = 1
        ctx.sample({k: v for k, v in hc.items() if k not in ("lib", "id")})
    finally:
        shutil.rmtree(lib.path, ignore_errors=True)


def selftest(ctx):
    """binding of the design check: for the algorithms as they were before the F2/F3 repairs (Algo = "legacy") TLC must
    find a counterexample to Correct; prints the file of each counterexample"""
    bad = 0
    for k in ("bz2fd", "bz2buf", "gzbuf"):
        r = vlib.tlc("Decompress", "MCDecompLegacy_%s.cfg" % k, workers=2, extra=["-noGenerateSpecTE"])
        hit = bool(r.violation) and "Correct" in r.violation
        files = [ln.strip() for ln in (r.violation or "").splitlines() if "streams |->" in ln]
        vlib.log("selftest %s legacy algorithm: %s %s" % (k, "rejected by TLC (Correct violated)" if hit else "NOT rejected",
                                                         files[1] if len(files) > 1 else ""))
        bad += 0 if hit else 1
    return 2 if bad else 0
