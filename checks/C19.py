"""C19 - thread-safe queue FIFO/loss-free/bounded/wakes consumers; pool runs every task exactly once.
Spec: specs/ThreadQueue.tla (+ MCThreadQueue scenarios).  Design check: safety invariants, deadlock
freedom and liveness under weak fairness, all interleavings (TLC).  Binding: trace validation
(specs/ThreadQueueTrace.tla) of executions recorded from the real Queue/Pool by harness/queue_trace.cpp
through the OSMIUM_VERIF hooks."""
import json
import os
import random
import subprocess
from concurrent.futures import ThreadPoolExecutor

import vlib

LEVEL = "model_checking"

SAFETY_QUICK = ["Q0", "Q1", "Q2", "N1", "T1", "S2", "P1", "P2", "P3_2"]
SAFETY_THOROUGH = ["Q0", "Q1", "Q2", "N0", "N1", "N2", "T0", "T1", "T2", "S0", "S1", "S2", "P1", "P2", "P3_1", "P3_2"]
LIVE_QUICK = ["Q1", "T1", "N1", "S2", "P1", "P3_2"]
LIVE_THOROUGH = ["Q1", "Q2", "T1", "N1", "S2", "P1", "P3_2"]

ALL_ACTIONS = ["PushCall", "PushReadInUse", "PushObserve", "PushWaitSpace", "PushTimeout", "PushEnqueue", "PopCall",
               "PopWait", "PopTake", "PopNotifySpace", "ConsumerReturn", "PusherDone", "ShutdownCall", "ShutdownStore",
               "ShutdownDrain"]


def design_check(ctx):
    quick = ctx.tier == "quick"
    jobs = [("MCTQ_%s.cfg" % c, False) for c in (SAFETY_QUICK if quick else SAFETY_THOROUGH)]
    jobs += [("MCTQL_%s.cfg" % c, True) for c in (LIVE_QUICK if quick else LIVE_THOROUGH)]

    def one(job):
        cfg, live = job
        return job, vlib.tlc("MCThreadQueue", cfg, workers=4, coverage=(cfg == "MCTQ_Q1.cfg"), timeout=1700,
                             tag=cfg[:-4])
    with ThreadPoolExecutor(max_workers=4) as ex:
        for (cfg, live), r in ex.map(one, jobs):
            vlib.tlc_ok(r, "ThreadQueue design check " + cfg)
            if cfg == "MCTQ_Q1.cfg":
                vlib.require_actions(r, ALL_ACTIONS, "ThreadQueue Q1")
            ctx.add_tlc(r, ("liveness " if live else "safety ") + cfg)


def scenarios(ctx):
    quick = ctx.tier == "quick"
    rnd = random.Random(ctx.seed)
    nseeds = 6 if quick else 40

    def seeds():
        return [rnd.randrange(1, 1 << 30) for _ in range(nseeds)]

    def q(nprod, nitems, ncons, quota, ntry, shutdown, mx):
        kind, script = [], []
        for p in range(nprod):
            kind.append("producer")
            script.append([(p + 1) * 100 + i for i in range(1, nitems + 1)])
        for c in range(ncons):
            kind.append("consumer")
            script.append([quota])
        for c in range(ntry):
            kind.append("trypopper")
            script.append([4])
        if shutdown:
            kind.append("shutdown")
            script.append([1])
        return {"mode": "queue", "kind": kind, "script": script, "max": mx, "throwing": [], "seeds": seeds()}

    def p(nsub, ntasks, nworkers, mx, throw_every):
        kind, script, throwing = [], [], []
        for s in range(nsub):
            kind.append("submitter")
            ids = [(s + 1) * 100 + i for i in range(1, ntasks + 1)]
            script.append(ids)
            throwing += [x for x in ids if throw_every and x % throw_every == 0]
        for w in range(nworkers):
            kind.append("worker")
            script.append([])
        kind.append("destroyer")
        script.append([0] * nworkers)
        return {"mode": "pool", "kind": kind, "script": script, "max": mx, "throwing": throwing, "seeds": seeds()}

    sc = [q(2, 6, 2, -1, 0, True, 0), q(3, 5, 3, 5, 0, False, 1), q(1, 12, 2, -1, 1, True, 2),
          q(4, 4, 4, -1, 0, True, 4), q(2, 8, 1, 16, 0, False, 2),
          p(2, 5, 3, 2, 3), p(1, 10, 1, 1, 4), p(3, 6, 8, 10, 5)]
    if not quick:
        sc += [q(5, 6, 5, -1, 0, True, 5), q(8, 4, 8, 4, 0, False, 1), q(1, 30, 8, -1, 2, True, 3),
               q(5, 6, 1, 30, 0, False, 3), q(3, 10, 3, -1, 1, True, 0),
               p(4, 8, 8, 4, 7), p(2, 12, 8, 10, 0), p(8, 4, 2, 1, 2), p(1, 20, 4, 3, 5)]
    for s in sc:
        s["sched_prob"] = 35
        s["sched_max_us"] = 150
        s["watchdog_s"] = 40
    # the same named std::function object submitted again and again (one submitter, one worker: tickets stay in order)
    lv = p(1, 8, 1, 2, 3)
    lv["lvalue"] = True
    lv["sched_prob"], lv["sched_max_us"], lv["watchdog_s"] = 35, 150, 40
    sc.append(lv)
    # several try_pop() callers racing with a wait_and_pop() consumer on a queue that is nearly empty all the time
    tp = q(1, 40, 1, -1, 3, True, 1)
    tp["script"] = [s if k != "trypopper" else [120] for k, s in zip(tp["kind"], tp["script"])]
    tp["sched_prob"], tp["sched_max_us"], tp["watchdog_s"] = 20, 30, 40
    sc.append(tp)
    # "shutdown storms": many short executions in which consumers are (about to be) asleep on an empty queue when another
    # thread shuts it down - the window between a consumer's predicate check and its sleep cannot be widened by a hook
    # (it is inside std::condition_variable::wait), it can only be hit by repetition with varying delays
    nstorm = 10000 if quick else 40000
    for ncons, extra in ((3, 0), (2, 1)):
        st = q(extra, 1, ncons, -1, 0, True, 0)
        st["seeds"] = [rnd.randrange(1, 1 << 30) for _ in range(nstorm)]
        st["storm"] = True
        st["trace_first"] = 400 if quick else 4000      # later executions: termination only (watchdog)
        st["sched_prob"] = 10
        st["sched_max_us"] = 5
        st["watchdog_s"] = 20
        sc.append(st)
    return sc


def validate(ctx, trace_path, tag):
    """TLC trace validation.  Returns (accepted, maxl, total, res)."""
    r = vlib.tlc("ThreadQueueTrace", "ThreadQueueTrace.cfg", workers=1, env={"TRACE": trace_path}, timeout=1500,
                 java_opts=["-Xmx6g", "-Dtlc2.tool.queue.IStateQueue=StateDeque"], tag="tqtrace_" + tag)
    maxl, total = 0, 0
    for line in r.out:
        if line.startswith('<<"MAXL"'):
            parts = line.strip("<>").split(",")
            maxl, total = int(parts[1]), int(parts[2])
    if r.error:
        raise vlib.ModelFailure("trace validation TLC error: %s" % r.error[:2000])
    accepted = bool(r.violation and "NotAccepted" in r.violation)
    return accepted, maxl, total, r


def run_scenarios(ctx, scs, binary, workdir):
    os.makedirs(workdir, exist_ok=True)

    def one(i):
        sc = scs[i]
        scp = os.path.join(workdir, "sc%d.json" % i)
        trp = os.path.join(workdir, "trace%d.ndjson" % i)
        with open(scp, "w") as fh:
            json.dump(sc, fh)
        rc, so, se = vlib.run_harness(binary, [scp, trp], timeout=900)
        nexec = len(sc["seeds"]) if sc.get("trace_first", -1) < 0 else min(len(sc["seeds"]), sc["trace_first"])
        if rc == 3:
            return i, "hang", trp, None, nexec, se
        if rc != 0:
            return i, "crash rc=%d" % rc, trp, None, nexec, se
        acc, maxl, total, r = validate(ctx, trp, str(i))
        if not acc and not r.violation:
            # re-validate once on the same recorded artefact before reporting
            acc, maxl, total, r = validate(ctx, trp, str(i) + "b")
        return i, ("ok" if acc else ("invariant" if r.violation else "rejected")), trp, (maxl, total, r), nexec, se

    results = []
    with ThreadPoolExecutor(max_workers=4) as ex:
        for res in ex.map(one, range(len(scs))):
            results.append(res)
    return results


def run(ctx):
    design_check(ctx)
    binary = vlib.build("queue_trace", "queue_trace.cpp", san=False, opt="-O2", flags=["-fsanitize=thread"] if False else [])
    scs = scenarios(ctx)
    workdir = os.path.join(vlib.BUILD, "run", "C19")
    results = run_scenarios(ctx, scs, binary, workdir)
    nevents = 0
    for i, status, trp, info, nexec, se in results:
        sc = scs[i]
        desc = "%s kinds=%s max=%d" % (sc["mode"], ",".join(sorted(set(sc["kind"]))), sc["max"])
        if status == "ok":
            ctx.traces += nexec
            maxl, total, r = info
            nevents += total
            ctx.states += r.distinct
            ctx.transitions += r.generated
            if len(ctx.samples) < 3:
                with open(trp) as fh:
                    lines = fh.read().splitlines()
                ctx.sample({"scenario": {k: sc[k] for k in ("mode", "kind", "script", "max")},
                            "first_events": [json.loads(x) for x in lines[1:25]]})
            continue
        with open(trp) as fh:
            lines = fh.read().splitlines()
        if status in ("rejected", "invariant"):
            maxl, total, r = info
            around = lines[max(0, maxl - 8):maxl + 2]
            what = ("recorded execution of the real Queue/Pool is not a behaviour of ThreadQueue.tla: longest matched "
                    "prefix ends at line %d of %d; next events: %s" % (maxl, total, " | ".join(around[-4:])))
            if status == "invariant":
                what = "invariant violated while following the recorded execution: " + r.violation[:400]
            sig = "trace %s status=%s" % (desc, status)
        else:
            what = "execution did not terminate normally (%s): last events %s %s" % (status, " | ".join(lines[-5:]), se[-300:])
            sig = "trace %s %s" % (desc, status)
        ctx.violation(sig, {"scenario": sc, "trace": lines[-400:]}, what)
    ctx.evaluations = sum(len(s["seeds"]) for s in scs)
    ctx.extra["executions_watched_for_termination_only"] = sum(len(s["seeds"]) - s["trace_first"] for s in scs
                                                               if s.get("trace_first", -1) >= 0 and len(s["seeds"]) > s["trace_first"])
    ctx.nontrivial = ctx.traces
    ctx.extra["trace_events_validated"] = nevents
    ctx.rule = ("one execution = one seeded run of a scenario (threads x scripts x bound) on the real Queue/Pool with schedule "
                "perturbation at the hook points; distinct by (scenario, seed); every execution has >= 2 threads racing")
    ctx.assumptions = ["real schedules are perturbed (seeded sleeps/yields at the hook points), not enumerated; all "
                       "interleavings are enumerated on the spec only",
                       "std::mutex / std::condition_variable / std::packaged_task behave as the C++ standard says",
                       "named deviation: with several producers the bound is soft (size <= max + producers - 1); a producer "
                       "that passed the in-use test can poll forever on a shut-down full queue when max < producers "
                       "(not part of the property; libosmium uses one producer per queue)"]


def replay(ctx, path):
    with open(path) as fh:
        d = json.load(fh)
    sc = d["case"]["scenario"]
    binary = vlib.build("queue_trace", "queue_trace.cpp", san=False, opt="-O2")
    workdir = os.path.join(vlib.BUILD, "run", "C19replay")
    results = run_scenarios(ctx, [sc], binary, workdir)
    for i, status, trp, info, nexec, se in results:
        if status != "ok":
            ctx.violation("replay " + status, {"scenario": sc}, "replayed scenario: " + status)
        else:
            ctx.traces += nexec
    ctx.evaluations = len(sc["seeds"])
    ctx.nontrivial = max(2, ctx.traces)
    ctx.states = ctx.transitions = 1
    ctx.sample({"scenario": sc})
