"""C07 - Reader pipeline always terminates and reports the first error to the caller.
Spec: specs/ReaderPipeline.tla (shared with C05).  Design check: for every configuration (chunks x nested buffers
x fault x consumer script x queue bounds x pool/no pool x fd mode) TLC explores every interleaving: the consumer
log equals Expected(cfg) (first error exactly once, nothing after it), no deadlock, termination under weak
fairness, at most the in-flight read after close(), header promise set exactly once, no thread/descriptor left.
Binding: TLC-exported configurations are run on the real Reader (mock decompressor/parser through the factory
seams; real PBF files truncated/corrupted at blob m) under seeded schedule perturbation; the API-level log is
compared with Expected(cfg) and every recorded execution is validated against ReaderPipelineTrace.tla."""
import random

import rpipe
import vlib

LEVEL = "model_checking"


def run(ctx):
    quick = ctx.tier == "quick"
    rnd = random.Random(ctx.seed)
    faulty = lambda c: c["cfg"]["fault"]["k"] != "none" or "close" in c["cfg"]["script"] or len(c["cfg"]["script"]) < 3
    if quick:
        mcs = [("MCRP_q1.cfg", "safety: n<=1 chunks, all faults, scripts<=2 + long, bound 1, pool, fd", True),
               ("MCRP_live.cfg", "liveness (termination under weak fairness), n<=1", False)]
    else:
        mcs = [("MCRP_small.cfg", "safety: n<=2, scripts<=3 + long, bounds 1/2, pool", False),
               ("MCRP_quick.cfg", "safety: n<=2, scripts<=2 + long, bounds 1/2, pool, fd", True),
               ("MCRP_liveT.cfg", "liveness (termination under weak fairness), n<=2", False),
               ("MCRP_big.cfg", "safety: 6 chunks, bounds 2/2 (both queues full), all faults, scripts<=1", False),
               ("MCRP_pbfq.cfg", "safety: real PBF parser fed through the input queue (header blob, early exit when the output queue is shut down)", False)]
    _, mock, mockfd, pbf, big, pbfq, xmlq = rpipe.parallel(lambda: rpipe.design(ctx, mcs, workers_each=4),
                                                           lambda: rpipe.export(ctx, "mock"), lambda: rpipe.export(ctx, "mockfd"),
                                                           lambda: rpipe.export(ctx, "realpbf"), lambda: rpipe.export(ctx, "mockbig"),
                                                           lambda: rpipe.export(ctx, "realpbfq"), lambda: rpipe.export(ctx, "realxmlq"))
    cases = []
    nseeds = 2 if quick else 4
    for i, c in enumerate(rpipe.sample(mock, 160 if quick else 2500, rnd, pred=faulty)):
        cases.append(rpipe.mk_case(i, "mock", c, rnd, nseeds))
    for i, c in enumerate(rpipe.sample(mockfd, 60 if quick else 1000, rnd, pred=faulty)):
        cases.append(rpipe.mk_case(i, "mockfd", c, rnd, nseeds))
    # six chunks with the smallest real queue bounds: both queues are full and read thread, parser and consumer are all
    # blocked or about to block when the consumer stops / a fault hits (the consumer waits a moment before its first call)
    for i, c in enumerate(rpipe.sample(big, 70 if quick else 600, rnd)):
        cases.append(rpipe.mk_case(i, "mockfd" if c["cfg"]["fd"] else "mock", c, rnd, nseeds, qin=2, qout=2,
                                   start_delay_us=rnd.choice([0, 2000, 6000])))
        cases[-1]["id"] = "big-%d" % i
    okpbf = lambda c: faulty(c) and rpipe.mask_of(c["cfg"]) and rpipe.literal_reads_ok(c)
    for i, c in enumerate(rpipe.sample(pbf, 80 if quick else 1000, rnd, pred=okpbf)):
        cases.append(rpipe.mk_case(i, "realpbf", c, rnd, nseeds, format="pbf", R=rnd.choice([3, 40]),
                                   mask=rpipe.mask_of(c["cfg"]), meta=True, single=False))
    # real PBF data through the input queue (what a compressed .osm.pbf or a memory buffer takes): the mock decompressor
    # delivers one blob frame per piece to the real PBF parser; a corrupt blob is either damaged data or a BlobHeader
    # length far above the limit
    for i, c in enumerate(rpipe.sample(pbfq, 80 if quick else 1000, rnd, pred=okpbf)):
        cases.append(rpipe.mk_case(i, "realpbfq", c, rnd, nseeds, format="pbf", R=rnd.choice([3, 40]),
                                   mask=rpipe.mask_of(c["cfg"]), meta=True, single=False,
                                   # damaged blob data is noticed where the blob is decoded (a pool worker when the pool is used);
                                   # a fault of the parser thread itself is then a damaged BlobHeader length
                                   corrupt=("len" if c["cfg"]["pool"] and c["cfg"]["fault"]["at"] > 1 else rnd.choice(["len", "data"]))))
    # a real XML document through the input queue in n pieces: failing decompressor reads / close and documents that
    # stop short of their closing tags (cut at several distances from the end: inside "</osm>", inside the last object)
    okxml = lambda c: rpipe.mask_of(c["cfg"])
    for i, c in enumerate(rpipe.sample(xmlq, 90 if quick else 900, rnd, pred=okxml)):
        cases.append(rpipe.mk_case(i, "realxmlq", c, rnd, nseeds, format="xml", R=rnd.choice([3, 40]),
                                   mask=rpipe.mask_of(c["cfg"]), meta=True, single=False, cut=rnd.choice([2, 7, 9, 40, 200])))
    nexec, nvalid = rpipe.run_cases(ctx, cases)
    finish(ctx, cases, nexec, nvalid)


def finish(ctx, cases, nexec, nvalid):
    ctx.traces = nexec
    ctx.evaluations = sum(len(c["expected"]) * len(c["seeds"]) for c in cases)
    ctx.nontrivial = len(set((c["mode"], str(c["cfg"])) for c in cases))
    ctx.rule = ("one execution = one seeded run of one TLC-exported configuration (file, fault, consumer script, pool, bounds) on "
                "the real Reader; distinct by (mode, configuration); every execution has >= 3 threads and is validated twice: "
                "API-level log == Expected(cfg), recorded event trace accepted by ReaderPipelineTrace.tla")
    ctx.extra["cases_validated_by_trace"] = nvalid
    kinds = {}
    for c in cases:
        k = c["mode"] + ":" + rpipe.fault_key(c).split("@")[0]
        kinds[k] = kinds.get(k, 0) + 1
    ctx.extra["cases_per_mode_and_fault"] = kinds
    for c in cases[:3] + [c for c in cases if c["mode"] == "realpbf"][:2]:
        ctx.sample({k: c[k] for k in ("mode", "cfg", "expected", "qin", "qout", "pool_threads")})
    ctx.assumptions = [
        "real schedules are perturbed (seeded sleeps/yields at the OSMIUM_VERIF hook points of queue/pool and in the mocks), not "
        "enumerated; every interleaving is enumerated on the spec only",
        "queue interface as verified by C19 (ThreadQueue.tla); real queue bounds are >= 2 (the library clamps), the model also covers 1",
        "faults are injected through the existing factory seams (mock decompressor / mock parser) and by truncating / corrupting "
        "real PBF files / XML documents; zlib/expat internals are environment",
        "realxmlq executions are compared at the API level only (the real XML parser decides how many buffers it makes of the data)",
        "header() after close() is outside the scripts: its result legitimately depends on how far the parser got"]


def replay(ctx, path):
    import json
    with open(path) as fh:
        d = json.load(fh)
    c = d["case"]["case"]
    nexec, nvalid = rpipe.run_cases(ctx, [c])
    finish(ctx, [c], nexec, nvalid)
    ctx.states = ctx.states or 1
    ctx.transitions = ctx.transitions or 1
