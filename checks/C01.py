"""C01 - write-then-read round trip is lossless for every format and writer option.

Spec: specs/RoundTrip.tla (+ MCRoundTrip.tla for the constants).  A-layer: Project(options, object) = what has to
come back (dropped fields come back as defaults), AOutcome (the Writer has to refuse what the format cannot
express), ProjectHeader.  I-layer: the Writer as a transducer - PBF PrimitiveBlock state machine (type, count, size,
can_add gate at 95 %, per-block string table, per-block dense-node delta registers, size check when the blob is
serialized), attribute-presence rules of the XML / XML-change / OPL writers - with the decoders mirroring them.
TLC checks decoder o encoder = Project, outcome = AOutcome, blob limits, block shape and delta reset over the full
option matrix x element alphabet, over all type-switch sequences, and over bulk elements (7999/8000/8001 objects,
blocks filled to the gate, string-table-heavy blocks); the F7 configurations must FAIL (one object larger than the
5 % the gate leaves) - that is the spec-level statement of the open finding F7a.

Binding: replay.  TLC exports (option vector, structural shape, Project per element, expected outcome, header
features, block layout); harness/roundtrip_replay.cpp instantiates the tokens with boundary values from a seeded
pool, writes with the real osmium::io::Writer, reads with the real osmium::io::Reader (OSMIUM_POOL_THREADS = 1 and 4)
and compares every field with the spec's projection.  tools/pbf_framing.py (independent parser) checks every
BlobHeader / Blob / PrimitiveBlock of the PBF files against the format limits, the header features the spec
demands, and decodes the ids (with per-block delta reset) which have to equal the ids that were written."""
import json
import os
import re
import shutil
import sys
import threading
from concurrent.futures import ThreadPoolExecutor

import vlib

sys.path.insert(0, os.path.join(vlib.VERIF, "tools"))
import pbf_framing  # noqa: E402

LEVEL = "model_checking"

ACTIONS = ["Open", "Feed", "PbfGate", "PbfAdd", "TextWrite", "Close", "ReadHeader", "ReadBlob", "ReadText", "Finish"]
COMPS = ["none", "zlib", "lz4"]
FCOMPS = ["none", "gzip", "bzip2"]
SIZES = {"med": 1342177, "big": 3355443}      # nominal encoded bytes of the heavy classes = MCRoundTrip!SizesMC
THREADS = (1, 4)


def harness_name():
    # a scratch tree (VERIF_REPO) must not evict the binary built for /repo
    if vlib.REPO == "/repo":
        return "roundtrip_replay"
    import hashlib
    return "roundtrip_replay_" + hashlib.sha256(vlib.REPO.encode()).hexdigest()[:8]


def build():
    return vlib.build(harness_name(), "roundtrip_replay.cpp", flags=["-DOSMIUM_WITH_LZ4"])


# ------------------------------------------------------------------------------------------ TLC

def tlc_jobs(ctx):
    """(cfg, label, role): role mc = must hold, fail:<Inv> = must violate exactly that invariant, gen:<family> = export"""
    q = ctx.tier == "quick"
    T = "Q" if q else "T"
    jobs = [
        ("MCRoundTripMatrix%s.cfg" % T, "decoder o encoder = Project over the %s option matrix (format x dense x blob compression x "
         "metadata subset x history x locations-on-ways x file compression) x 18 element shapes" % ("816-point" if q else "full 3264-point"), "mc"),
        ("MCRoundTripSeq%s.cfg" % T, "all object-type sequences to length %d (type switches force new blocks) x 4 formats" % (4 if q else 6), "mccov"),
        ("MCRoundTripBlocks%s.cfg" % T, "PBF block machine: runs of 1/7999/8000/8001 objects, blocks filled to the 95 %% gate, string-table-heavy "
         "blocks, sequences to length %d: count <= 8000, size <= 32 MiB, delta reset, round trip" % (3 if q else 4), "mc"),
        ("MCRoundTripF7.cfg", "vacuity / open finding F7a: with one object above 5 %% of the blob limit OutcomeAgrees must be violated", "fail:OutcomeAgrees"),
        ("MCRoundTripF7old.cfg", "the block accounting before the F7 fix (no size check at serialization) must violate SizeLimit", "fail:SizeLimit"),
        ("GenRoundTripMatrix%s.cfg" % T, "export: structural option matrix x fixed rich inputs", "gen:matrix"),
        ("GenRoundTripSeq%s.cfg" % T, "export: all type sequences to length %d" % (3 if q else 4), "gen:seq"),
        ("GenRoundTripBulk%s.cfg" % T, "export: bulk shapes", "gen:bulk"),
        ("GenRoundTripF7.cfg", "export: a block filled to 92 % then one object of 10 %", "gen:f7"),
    ]
    if not q:
        jobs.insert(1, ("MCRoundTripPairsT.cfg", "all pairs of element shapes x the 576 structural option vectors", "mc"))
    return jobs


def run_tlc(ctx):
    jobs = tlc_jobs(ctx)
    par = int(os.environ.get("VERIF_TLC_PARALLEL", "0") or "0") or (2 if os.environ.get("VERIF_TLC_WORKERS") else 4)
    out = {}

    def one(job):
        cfg, label, role = job
        big = cfg.startswith("MCRoundTripMatrix") or cfg.startswith("MCRoundTripPairs") or cfg.startswith("MCRoundTripBlocksT")
        r = vlib.tlc("MCRoundTrip", cfg, workers=8 if big else 2, coverage=(role == "mccov"), timeout=1700,
                     extra=["-noGenerateSpecTE"], keep_out=True, tag="C01_" + cfg[:-4])
        return job, r

    with ThreadPoolExecutor(max_workers=par) as ex:
        for job, r in ex.map(one, jobs):
            cfg, label, role = job
            if role.startswith("fail:"):
                inv = role.split(":")[1]
                if r.error:
                    raise vlib.ModelFailure("%s: TLC error: %s" % (cfg, r.error[:2000]))
                if not r.violation or ("Invariant %s is violated" % inv) not in r.violation:
                    raise vlib.ModelFailure("%s: the configuration that contains an object above the 5 %% margin must violate %s "
                                            "(vacuity guard of the block-size invariants); TLC said: %s" % (cfg, inv, (r.violation or "no violation")[:500]))
                ctx.add_tlc(r, label + " - violated as required")
            else:
                vlib.tlc_ok(r, cfg)
                if role == "mccov":
                    vlib.require_actions(r, ACTIONS, cfg)
                ctx.add_tlc(r, label)
            out[cfg] = r
    return out


# ------------------------------------------------------------------------------------------ cases

def shape_of(c):
    return ",".join("%s:%s*%d" % (e["t"], e["cls"], e["n"]) for e in c["input"])


def opt_str(o):
    return "fmt=%s dense=%s comp=%s md=%s hist=%s low=%s fcomp=%s" % (
        o["fmt"], str(o["dense"]).lower(), o["comp"], "+".join(sorted(o["md"])) or "none", str(o["hist"]).lower(), str(o["low"]).lower(), o["fcomp"])


def heavy(c):
    return any(e["cls"] != "tiny" or e["n"] > 100 for e in c["input"])


def make_cases(ctx, tlcres):
    """Turn the exported structural cases into replay cases.  Blob compression and file compression are passed through by
    the model; they (and the number of pool threads and the value seed) are assigned here so that every pair
    (structural option point, compression) of the quick tier's sample and the whole product in the thorough tier is run."""
    quick = ctx.tier == "quick"
    T = "Q" if quick else "T"
    cases = []
    n = [0]

    def add(base, fam, comp, fcomp, threads, seed):
        o = dict(base["opt"])
        o["md"] = sorted(o["md"])
        if o["fmt"] == "pbf":
            o["comp"] = comp
        o["fcomp"] = fcomp
        c = {"id": "%s-%d" % (fam, n[0]), "fam": fam, "opt": o, "threads": threads, "seed": seed, "sizes": SIZES,
             "header": {"generator": "v", "boxes": (n[0] % 3)}, "input": base["input"], "exp": base["exp"]}
        n[0] += 1
        cases.append(c)

    matrix = tlcres["GenRoundTripMatrix%s.cfg" % T].cases
    seq = tlcres["GenRoundTripSeq%s.cfg" % T].cases
    bulk = tlcres["GenRoundTripBulk%s.cfg" % T].cases
    f7 = tlcres["GenRoundTripF7.cfg"].cases
    for fam, lst in (("matrix", matrix), ("seq", seq), ("bulk", bulk), ("f7", f7)):
        if not lst:
            raise vlib.ModelFailure("TLC exported no %s cases" % fam)
        lst.sort(key=lambda c: json.dumps(c, sort_keys=True))
    seeds = [ctx.seed] if quick else [ctx.seed + k for k in range(5)]
    for sd in seeds:
        for i, b in enumerate(matrix):
            if quick:
                # one (comp, fcomp) point per structural case, cycling so that all 9 combinations meet every format
                k = i + sd
                add(b, "matrix", COMPS[k % 3], FCOMPS[(k // 3) % 3], THREADS[(k // 9) % 2], sd * 100003 + i)
            else:
                combos = [(c, f) for c in COMPS for f in FCOMPS] if b["opt"]["fmt"] == "pbf" else [("zlib", f) for f in FCOMPS]
                for j, (cp, fc) in enumerate(combos):
                    add(b, "matrix", cp, fc, THREADS[(i + j) % 2], sd * 100003 + i * 16 + j)
    for i, b in enumerate(seq):
        add(b, "seq", COMPS[i % 3], FCOMPS[(i // 3) % 3] if i % 5 == 0 else "none", THREADS[i % 2], ctx.seed * 7919 + i)
    # bulk shapes write blocks of up to 32 MiB: every shape runs with two (quick) or half (thorough) of its option vectors, rotating with the seed
    for fam, lst, mult in (("bulk", bulk, 104729), ("f7", f7, 15485863)):
        byshape = {}
        for b in lst:
            byshape.setdefault(shape_of(b), []).append(b)
        i = 0
        for sh in sorted(byshape):
            grp = byshape[sh]
            want = 2 if quick else max(2, len(grp) // 2)
            step = max(1, len(grp) // want)
            pick = [grp[(ctx.seed + len(sh) + j * step) % len(grp)] for j in range(min(want, len(grp)))]
            for b in pick:
                # lz4 only where the independent parser can afford to decode it
                add(b, fam, ["none", "zlib"][i % 2], (FCOMPS[i % 3] if i % 4 == 0 else "none") if fam == "bulk" else "none",
                    THREADS[i % 2], ctx.seed * mult + i)
                i += 1
    return cases


def signature(c, r):
    note = r.get("note", "")
    m = re.search(r"field (\S+)", note)
    if "crash" in r:
        what = "crash=%s step=%s" % (r["crash"], r.get("step"))
    elif m:
        what = "field=%s" % re.sub(r"\[\d+\]", "[]", m.group(1))
    else:
        what = "step=%s got=%s" % (r.get("step"), str(r.get("got"))[:60])
    return "roundtrip %s threads=%d shape=%s %s" % (opt_str(c["opt"]), c["threads"], shape_of(c), what)


def check_framing(c, info):
    """Independent look at the PBF file the Writer produced.  Returns a list of (kind, text)."""
    problems = []
    small = info.get("ids") is not None
    res = pbf_framing.parse(info["file"], want_ids=small, fcomp=c["opt"]["fcomp"])
    for p in res["problems"]:
        problems.append(("format-limit", p))
    h = res["header"]
    if h is not None:
        want_req = set(c["exp"]["required"])
        if set(h["required"]) != want_req:
            problems.append(("header-features", "required features %s, the spec demands %s" % (sorted(h["required"]), sorted(want_req))))
        if not set(c["exp"]["optional"]) <= set(h["optional"]):
            problems.append(("header-features", "optional features %s, the spec demands %s" % (sorted(h["optional"]), sorted(c["exp"]["optional"]))))
    parsed = [b for b in res["blocks"] if b["count"] is not None]
    if len(parsed) == len(res["blocks"]):
        total = sum(b["count"] for b in parsed)
        if total != info["objects"]:
            problems.append(("object-count", "%d entities in the file, %d were written" % (total, info["objects"])))
        if small:
            got = [i for b in parsed for i in b["ids"]]
            want = [i for _, i in info["ids"]]
            if got != want:
                k = next((x for x in range(min(len(got), len(want))) if got[x] != want[x]), min(len(got), len(want)))
                problems.append(("ids", "ids decoded independently (delta registers reset per block) differ from the ids written at "
                                        "position %d: %s vs %s" % (k, got[k:k + 3], want[k:k + 3])))
    layout = [[b["kind"], b["count"]] for b in res["blocks"]]
    return problems, layout


def judge(ctx, c, r, stats):
    exp = c["exp"]
    if r.get("skipped"):
        return
    if not r.get("ok"):
        if "crash" in r:
            what = "harness %s at step %s: %s" % (r["crash"], r.get("step"), r.get("stderr", "")[:900])
            ctx.violation(signature(c, r), {"case": c, "result": r}, what)
            return
        got = r.get("got")
        if exp["outcome"] == "ok" and exp["ioutcome"] != "ok" and isinstance(got, str) and got.split(":")[0] == exp["ioutcome"]:
            # the implementation-shaped layer of the spec predicts exactly this failure: the open finding F7a
            sig = "pbf-blob-limit ioutcome=%s got=%s %s shape=%s" % (exp["ioutcome"], got.split(":")[0], opt_str(c["opt"]), shape_of(c))
            ctx.violation(sig, {"case": c, "result": r}, "the A-layer demands a loss-free round trip, the Writer gave up as the I-layer "
                          "predicts (an object larger than the 5 %% margin of the can_add gate): %s" % r.get("note", ""))
            return
        what = "step %s: %s: expected %s got %s" % (r.get("step"), r.get("note", ""), json.dumps(r.get("exp"))[:400], json.dumps(got)[:400])
        ctx.violation(signature(c, r), {"case": c, "result": r}, what)
        return
    info = r.get("info", {})
    if info.get("outcome") == "writer_error":
        stats["writer_error_as_required"] += 1
        return
    if info.get("writer_accepted_unexpressible"):
        stats["accepted_and_round_tripped_beyond_model"] = stats.get("accepted_and_round_tripped_beyond_model", 0) + 1
        return
    if exp["ioutcome"] != "ok":
        # The real pair round-trips what the implementation-shaped layer says it cannot (e.g. F7a repaired): the property as
        # stated holds for this case, the I-layer of the spec is out of date.  Evidence, not a verdict.
        stats["ilayer_outcome_drift"] = stats.get("ilayer_outcome_drift", 0) + 1
    stats["ok"] += 1
    if c["opt"]["fmt"] == "pbf" and os.path.exists(info.get("file", "")):
        problems, layout = check_framing(c, info)
        stats["pbf_files_parsed"] += 1
        for kind, text in problems:
            ctx.violation("framing %s %s shape=%s" % (kind, opt_str(c["opt"]), shape_of(c)), {"case": c, "result": r},
                          "independent PBF framing parser: " + text)
        if c["fam"] in ("bulk", "f7") and all(e["cls"] in ("med", "big") or e["n"] == 1 for e in c["input"]):
            stats["layout_compared"] += 1
            if layout == [[b["type"], b["count"]] for b in exp["blocks"]]:
                stats["layout_as_modelled"] += 1


def run_cases(ctx, cases):
    binary = build()
    tmp = os.path.join(vlib.BUILD, "tmp", "C01_%d" % os.getpid())
    byid = {c["id"]: c for c in cases}
    stats = {"ok": 0, "pbf_files_parsed": 0, "layout_as_modelled": 0, "layout_compared": 0, "writer_error_as_required": 0}
    # Batches bound the disk space of the files kept for the framing parser; heavy cases write blocks of ~32 MiB.
    hv = [c for c in cases if heavy(c)]
    lt = [c for c in cases if not heavy(c)]
    batches = [(hv[i:i + 48], 6) for i in range(0, len(hv), 48)] + [(lt[i:i + 4000], max(2, vlib.NCPU // 2)) for i in range(0, len(lt), 4000)]
    nres = 0
    try:
        for batch, nproc in batches:
            shutil.rmtree(tmp, ignore_errors=True)
            os.makedirs(tmp)
            results = []
            lock = threading.Lock()

            def go(th):
                cs = [c for c in batch if c["threads"] == th]
                r = vlib.replay_cases(binary, cs, nproc=nproc, timeout=2400, args=[tmp, "keep"], env={"OSMIUM_POOL_THREADS": str(th)})
                with lock:
                    results.extend(r)

            with ThreadPoolExecutor(max_workers=len(THREADS)) as ex:
                list(ex.map(go, THREADS))
            nres += len(results)
            for r in results:
                judge(ctx, byid[r["id"]], r, stats)
        if nres != len(cases):
            raise vlib.ModelFailure("replay returned %d results for %d cases" % (nres, len(cases)))
        if stats.get("ilayer_outcome_drift"):
            vlib.log("NOTE: %d case(s) round-trip although the implementation-shaped layer of RoundTrip.tla predicts a failure "
                     "(finding F7a repaired?): update the PBF gate in the spec" % stats["ilayer_outcome_drift"])
        return stats
    finally:
        shutil.rmtree(tmp, ignore_errors=True)


def run(ctx):
    import C01ext
    C01ext.start_prebuild()      # the extension's harness compiles beside everything below
    # compile while TLC runs
    bres = {}

    def bg():
        try:
            bres["bin"] = build()
        except Exception as ex:  # re-raised in the foreground
            bres["err"] = ex

    t = threading.Thread(target=bg)
    t.start()
    tlcres = run_tlc(ctx)
    t.join()
    if "err" in bres:
        raise bres["err"]
    cases = make_cases(ctx, tlcres)
    stats = run_cases(ctx, cases)
    ctx.traces = len(cases)
    nobj = sum(sum(e["n"] for e in c["input"]) for c in cases)
    ctx.evaluations = nobj + len(cases)
    ctx.nontrivial = len(set((opt_str(c["opt"]), shape_of(c), json.dumps(c["input"], sort_keys=True)) for c in cases))
    ctx.rule = ("a case = (option vector incl. blob/file compression, reader pool threads, input shape, value seed); distinct by "
                "(option vector, input shape); evaluations = objects compared field by field with Project + one header per case")
    fams = {}
    points = set()
    for c in cases:
        fams[c["fam"]] = fams.get(c["fam"], 0) + 1
        points.add(opt_str(c["opt"]))
    ctx.extra["cases_per_family"] = fams
    ctx.extra["option_points_run"] = len(points)
    ctx.extra["objects_round_tripped"] = nobj
    ctx.extra["replay"] = stats
    seen = set()
    for c in cases:
        k = (c["fam"], c["opt"]["fmt"])
        if k not in seen and len(seen) < 6:
            seen.add(k)
            ctx.sample({"opt": c["opt"], "threads": c["threads"], "shape": shape_of(c), "exp_outcome": c["exp"]["outcome"],
                        "exp_first": c["exp"]["objs"][0]})
    ctx.assumptions = [
        "values are boundary tokens instantiated from a seeded pool (ids, versions, uids, timestamps, changesets, coordinates, UTF-8 strings of "
        "0..1024 bytes with every character the text formats escape); bit-level codec fidelity is exercised, not enumerated",
        "value domain = what the readers accept: ids of XML files in (INT64_MIN, INT64_MAX) and uint32 attributes < 2^32-1 (the string parsers keep "
        "the extreme values as overflow sentinels, C13), consecutive delta-coded ids (dense nodes of a block, way nodes, members) differ by less "
        "than 2^63, defined locations have both coordinates != 2147483647",
        "named deviations modelled in the spec: D1 PBF nodes that come back invisible carry no location; D2 OPL drops node locations outside "
        "+-180/+-90 on reading and refuses them on ways with locations; D3 PBF carries one joined header box, OPL no header; D4 XML does not "
        "write the user name of an anonymous changeset",
        "heavy shapes (blocks near 32 MiB) only with PBF; sizes of the heavy classes are nominal (+-100 bytes), cases whose gate decisions are "
        "closer than 300000 bytes to a threshold are not exported",
        "blob compression, file compression and the number of pool threads do not occur in the structural model (passed through); the check "
        "assigns them: quick = one combination per structural point, cycling; thorough = the full product",
    ]
    # extension (specs/FileSpec*.tla): osmium::io::File / metadata_options / Header upstream of the option vector, CRC as a second observer
    C01ext.run_part(ctx)


def replay(ctx, path):
    with open(path) as fh:
        d = json.load(fh)
    if str(d.get("signature", "")).startswith("ext:"):
        import C01ext
        return C01ext.replay_case(ctx, d)
    c = d["case"]["case"]
    stats = run_cases(ctx, [c])
    ctx.evaluations = sum(e["n"] for e in c["input"]) + 1
    ctx.traces = 1
    ctx.nontrivial = 1
    ctx.states = ctx.transitions = 1
    ctx.extra["replay"] = stats
    ctx.sample({"opt": c["opt"], "threads": c["threads"], "shape": shape_of(c)})


def selftest(ctx):
    """Binding of the replay itself: doctored expectations have to be reported (no tree is touched)."""
    r = vlib.tlc_ok(vlib.tlc("MCRoundTrip", "GenRoundTripSeqQ.cfg", workers=2, extra=["-noGenerateSpecTE"], tag="C01_selftest"), "selftest export")
    base = sorted(r.cases, key=lambda c: json.dumps(c, sort_keys=True))
    pbf = next(c for c in base if c["opt"]["fmt"] == "pbf" and not c["opt"]["hist"] and c["input"][0]["ver"] == "v")
    xml = next(c for c in base if c["opt"]["fmt"] == "xml" and c["input"][0]["ver"] == "v")

    def mk(i, b, fn):
        c = json.loads(json.dumps(b))
        c["opt"]["md"] = sorted(c["opt"]["md"])
        c.update(id="selftest-%d" % i, fam="seq", threads=THREADS[i % 2], seed=ctx.seed + i, sizes=SIZES, header={"generator": "v", "boxes": 1})
        fn(c)
        return c

    def flip_version(c):
        c["exp"]["objs"][0]["ver"] = "0"

    def drop_generator(c):
        c["exp"]["hdr"]["generator"] = "none"

    def want_history_flag(c):
        c["exp"]["required"] = list(c["exp"]["required"]) + ["HistoricalInformation"]

    doctored = [mk(0, xml, flip_version), mk(1, pbf, drop_generator), mk(2, pbf, want_history_flag), mk(3, pbf, lambda c: None)]
    run_cases(ctx, doctored)
    sigs = [v[0] for v in ctx.violations]
    ok = (any("field=version" in x for x in sigs) and any("header generator" in v[2] for v in ctx.violations)
          and any(x.startswith("framing header-features") for x in sigs) and len(ctx.violations) == 3)
    vlib.log("selftest: %d doctored expectations reported, undoctored case accepted: %s" % (len(ctx.violations), "OK" if ok else "FAILED"))
    for v in ctx.violations:
        vlib.log("  reported: " + v[0][:160])
    ctx.violations = []
    import C01ext
    return 0 if ok and C01ext.selftest(ctx) == 0 else 2
