"""C13 - coordinate, timestamp and number text conversions are exact and strict.

Specs (each with an A-layer = what the text means, in exact digit-sequence arithmetic, and an I-layer = the
code's scanner / formatter as a state machine; TLC checks I => A and the round trip theorems):
  NumTextCoord.tla     string_to_location_coordinate(): every string the environment can feed (all strings over a
                       small alphabet to a length bound, scanner-directed) + grammar-directed long strings
  NumTextCoordFmt.tla  append_location_coordinate_to_string(), CoordFull(FormatCoord(x)) = x, Location::valid()
  NumTextTime.tla      parse_timestamp()/to_iso(): boundary grid of every field, malformed variants, round trip
  NumTextInt.tla       opl_parse_int<T>, string_to_object_id/ulong, str_to_int<T>, output_int: all short strings +
                       strings around every type boundary
Binding: TLC exports <<input, result the spec demands>> for every terminal state; harness/numtext_replay.cpp calls
the real functions (set_lon/set_lat[_partial], as_string, Timestamp(..), to_iso, opl_parse_*, string_to_*,
str_to_int, output_int) on the same inputs and compares value / rest pointer / exception class.  In addition the
two round trip theorems of the specs are run on the implementation over (a stride of / all of) the 2^32 domains."""
import json
import os
import threading
from concurrent.futures import ThreadPoolExecutor

import vlib

LEVEL = "model_checking"
BATCH = 64

COORD_ACTIONS = ["Feed", "Close", "Sign", "First", "IntDigit", "IntExit", "Point", "FracSig", "FracSigExit", "FracIgn",
                 "FracIgnExit", "Exp", "ESign", "EFirst", "EDigit", "EExit", "Scale", "Down", "DownExit", "Up", "UpZero",
                 "UpExit", "Round"]


def _num(neg, mag):
    v = int("".join(str(d) for d in mag) or "0")
    return -v if neg else v


def _s(chars):
    return "".join(chars)


def plan(ctx):
    """(label, module, cfg, workers, converter) for every TLC run of the tier."""
    q = ctx.tier == "quick"
    runs = []
    runs.append(("coordinate scanner I=>A, every fed string, alphabet {0 1 5 9 . - e x}, length <= 6 (1 tail character)",
                 "NumTextCoord", "MCNumTextCoordFeed.cfg", 6, "coord"))
    if not q:
        runs.append(("coordinate scanner I=>A, every fed string, alphabet {0 1 5 9 . - e x}, length <= 7",
                     "NumTextCoord", "MCNumTextCoordFeedT.cfg", 16, "coord"))
        runs.append(("coordinate scanner I=>A, every fed string, alphabet {0 1 5 9 . - + e E space x}, length <= 6 (1 tail character)",
                     "NumTextCoord", "MCNumTextCoordFeedT2.cfg", 10, "coord"))
    runs.append(("coordinate scanner I=>A, grammar-directed long strings (level %d)" % (0 if q else 1),
                 "NumTextCoord", "MCNumTextCoordGrammar.cfg" if q else "MCNumTextCoordGrammarT.cfg", 3 if q else 12, "coord"))
    runs.append(("coordinate formatter I=>A + round trip theorem", "NumTextCoordFmt",
                 "MCNumTextCoordFmt.cfg" if q else "MCNumTextCoordFmtT.cfg", 2, "cfmt"))
    runs.append(("timestamp parser I=>A", "NumTextTime", "MCNumTextTimeParse.cfg" if q else "MCNumTextTimeParseT.cfg", 2 if q else 6, "time"))
    runs.append(("timestamp formatter I=>A + round trip theorem", "NumTextTime",
                 "MCNumTextTimeFormat.cfg" if q else "MCNumTextTimeFormatT.cfg", 2 if q else 6, "time"))
    runs.append(("integer parsers I=>A (opl_parse_int loop, strtoll/strtoul wrappers)", "NumTextInt",
                 "MCNumTextIntParse.cfg" if q else "MCNumTextIntParseT.cfg", 3 if q else 8, "int"))
    runs.append(("output_int I=>A + round trip theorems", "NumTextInt", "MCNumTextIntOut.cfg" if q else "MCNumTextIntOutT.cfg", 1, "int"))
    return runs


def convert(conv, c):
    """TLC payload -> (kind, item) for the harness.  Only representation changes (character sequence -> string,
    digit sequence -> number); every expected result is the spec's."""
    if conv == "coord":
        it = {"s": _s(c["s"]), "ok": c["ok"]}
        if c["ok"]:
            it["v"] = _num(c["neg"], c["mag"])
            it["rest"] = c["rest"]
        return "coord", it
    if conv == "cfmt":
        return "cfmt", {"v": _num(c["neg"], c["mag"]), "str": _s(c["str"]), "vlon": c["vlon"], "vlat": c["vlat"]}
    if conv == "time":
        if c["k"] == "parse":
            it = {"s": _s(c["s"]), "ok": c["ok"]}
            if c["ok"]:
                it["rep"] = c["rep"]
                it["rest"] = c["rest"]
                if c["rep"]:
                    it["t"] = c["days"] * 86400 + c["sod"]
            return "tparse", it
        return "tfmt", {"t": c["days"] * 86400 + c["sod"], "str": _s(c["s"])}
    if conv == "int":
        if c["k"] == "parse":
            def r(x, rest=True):
                d = {"ok": x["ok"]}
                if x["ok"]:
                    d["v"] = _num(x["neg"], x["mag"])
                    if rest:
                        d["rest"] = x["rest"]
                return d
            return "int", {"s": _s(c["s"]), "opl64": r(c["opl64"]), "opl32": r(c["opl32"]), "oid": r(c["oid"], False),
                           "ulong": r(c["ulong"], False), "sti32": _num(False, c["sti32"]), "sti64": _num(False, c["sti64"])}
        return "iout", {"v": _num(c["neg"], c["mag"]), "str": _s(c["str"])}
    raise vlib.ModelFailure("unknown converter " + conv)


CALLS = {"coord": 4, "cfmt": 5, "tparse": 3, "tfmt": 3, "int": 14, "iout": 2}


def gen_items(ctx):
    runs = plan(ctx)
    items = {}
    lock = threading.Lock()
    results = [None] * len(runs)

    def one(i):
        label, mod, cfg, workers, conv = runs[i]
        got = []
        res = vlib.tlc(mod, cfg, workers=workers, coverage=(mod == "NumTextCoord"), timeout=3000,
                       java_opts=["-Xmx6g"], case_cb=got.append, tag="C13_%d" % i)
        results[i] = (res, got)
        vlib.log("[tlc] %s: %d distinct states, %d exported, %.0fs" % (label[:60], res.distinct, len(got), res.wall))

    # all runs at once by default; VERIF_TLC_JOBS caps the number of JVMs alive at the same time (shared machines)
    jobs = int(os.environ.get("VERIF_TLC_JOBS", "0") or "0") or len(runs)
    order = sorted(range(len(runs)), key=lambda i: -runs[i][3])        # the big ones first
    with ThreadPoolExecutor(max_workers=max(1, min(jobs, len(runs)))) as ex:
        list(ex.map(one, order))
    cov = {}
    for i, (label, mod, cfg, workers, conv) in enumerate(runs):
        res, got = results[i]
        vlib.tlc_ok(res, label)
        if mod == "NumTextCoord":
            for a, (d, n) in res.coverage.items():
                cov[a] = cov.get(a, 0) + n
        ctx.add_tlc(res, label, {"cfg": cfg})
        if not got:
            raise vlib.ModelFailure("%s: TLC exported no case" % label)
        for c in got:
            kind, it = convert(conv, c)
            items.setdefault(kind, []).append(it)
    missing = [a for a in COORD_ACTIONS if not cov.get(a)]
    if missing:      # vacuity guard over the union of the feed and the grammar run
        raise vlib.ModelFailure("coordinate scanner: actions never taken in the model: %s" % missing)
    # the same string can be produced by two runs (feed + grammar): keep one
    for kind in items:
        seen = {}
        for it in items[kind]:
            seen.setdefault(json.dumps([it.get("s"), it.get("v"), it.get("t")]), it)
        items[kind] = list(seen.values())
    return items


def sweep_cases(ctx, full):
    """The round trip theorems (RoundTrip in NumTextCoordFmt / NumTextTime) run on the implementation: a seeded stride
    of the two 2^32 domains plus both ends (sanitizer build), or - full - every value (optimised build, thorough)."""
    stride = 1 if full else 4099
    parts = 64 if full else 16
    tag = "full" if full else "stride"
    cases = []
    for what, lo, hi in (("coord", -2 ** 31, 2 ** 31 - 1), ("time", 0, 2 ** 32 - 1)):
        span = (hi - lo + 1) // parts
        for p in range(parts):
            a = lo + p * span
            b = hi if p == parts - 1 else a + span - 1
            off = (ctx.seed * 7919 + p) % stride if stride > 1 else 0
            cases.append({"id": "sweep-%s-%s-%d" % (tag, what, p), "kind": "sweep",
                          "steps": [{"what": what, "from": a + off, "to": b, "stride": stride}]})
        if not full:      # the ends of the domain are always included
            cases.append({"id": "sweep-%s-ends" % what, "kind": "sweep",
                          "steps": [{"what": what, "from": lo, "to": lo + 70000, "stride": 1},
                                    {"what": what, "from": hi - 70000, "to": hi, "stride": 1}]})
    return cases


def batches(items):
    cases = []
    for kind in sorted(items):
        lst = items[kind]
        for i in range(0, len(lst), BATCH):
            cases.append({"id": "%s-%d" % (kind, i // BATCH), "kind": kind, "steps": lst[i:i + BATCH]})
    return cases


def sig_of(kind, it, r):
    fn = r.get("note", "") or r.get("crash", "")
    key = it.get("s", it.get("str", it.get("v", it.get("t"))))
    if kind == "sweep":
        key = [it.get("what"), r.get("exp")]
    return "%s fn=%s input=%s" % (kind, fn, json.dumps(key))


def binary():
    return vlib.build("numtext_replay", "numtext_replay.cpp")


def sweep_binary():
    """Same source, optimised and without sanitizers: only used for the full 2^32 round trip sweeps of the thorough tier."""
    return vlib.build("numtext_sweep", "numtext_replay.cpp", san=False, opt="-O2")


def run_cases(ctx, cases, exe=None, res=None):
    exe = exe or binary()
    if res is None:
        res = vlib.replay_cases(exe, cases, timeout=3000)
    if len(res) != len(cases):
        raise vlib.ModelFailure("replay returned %d results for %d cases" % (len(res), len(cases)))
    byid = {c["id"]: c for c in cases}
    failed = [r for r in res if not r.get("ok")]
    # a failing batch is taken apart so that every failing input of it is reported by itself
    singles = []
    for r in failed:
        c = byid[r["id"]]
        if len(c["steps"]) == 1 or c["kind"] == "sweep":
            report(ctx, c, r)
        elif len(singles) < 4000:
            singles += [{"id": "%s/%d" % (c["id"], k), "kind": c["kind"], "steps": [st]} for k, st in enumerate(c["steps"])]
    if singles:
        res2 = vlib.replay_cases(exe, singles, timeout=3000)
        by2 = {c["id"]: c for c in singles}
        for r in res2:
            if not r.get("ok"):
                report(ctx, by2[r["id"]], r)


def report(ctx, c, r):
    k = r.get("step", 0)
    it = c["steps"][k if isinstance(k, int) and 0 <= k < len(c["steps"]) else 0]
    if "crash" in r:
        se = r.get("stderr", "")
        key = [l.strip() for l in se.splitlines() if "runtime error" in l or "ERROR: AddressSanitizer" in l]
        what = "%s on input %s: %s\n%s" % (r["crash"], json.dumps(it)[:200], " / ".join(key[:2]), se[:600])
    else:
        what = "%s: the spec demands %s, libosmium returned %s for input %s" % (
            r.get("note", ""), json.dumps(r.get("exp"))[:200], json.dumps(r.get("got"))[:200], json.dumps(it)[:300])
    single = {"id": c["id"], "kind": c["kind"], "steps": [it]}
    ctx.violation(sig_of(c["kind"], it, r), {"case": single, "result": r}, what)


def run(ctx):
    exe_holder = {}
    th = threading.Thread(target=lambda: exe_holder.setdefault("r", _try(binary)))
    th.start()                        # the sanitizer build runs while TLC enumerates
    full, full_holder, th2 = [], {}, None
    if ctx.tier == "thorough":        # so do the two full 2^32 round trip sweeps (they need nothing from TLC), on half the cores
        full = sweep_cases(ctx, True)
        th2 = threading.Thread(target=lambda: full_holder.setdefault("r", _try(
            lambda: vlib.replay_cases(sweep_binary(), full, nproc=max(2, vlib.NCPU // 2), timeout=3000))))
        th2.start()
    items = gen_items(ctx)
    th.join()
    if isinstance(exe_holder["r"], Exception):
        raise exe_holder["r"]
    cases = batches(items)
    sweeps = sweep_cases(ctx, False)
    run_cases(ctx, cases + sweeps, exe_holder["r"])
    if th2:
        th2.join()
        if isinstance(full_holder["r"], Exception):
            raise full_holder["r"]
        run_cases(ctx, full, sweep_binary(), res=full_holder["r"])
        sweeps += full
    n_items = sum(len(v) for v in items.values())
    ctx.traces = n_items
    ctx.evaluations = sum(CALLS[k] * len(v) for k, v in items.items())
    ctx.nontrivial = n_items
    ctx.rule = ("a case = one input (string or value) with the result the spec computed for it; distinct by input per "
                "function family; evaluations = library calls compared (4 per coordinate string, 14 per integer string, ...)")
    for kind in sorted(items):
        acc = [it for it in items[kind] if it.get("ok")]
        ctx.sample({"kind": kind, "item": (acc or items[kind])[len(acc or items[kind]) // 2]}, cap=8)
    ctx.extra["inputs_per_family"] = {k: len(v) for k, v in sorted(items.items())}
    ctx.extra["accepted_inputs"] = {k: sum(1 for it in v if it.get("ok")) for k, v in sorted(items.items()) if k in ("coord", "tparse")}
    sw = {"coord": 0, "time": 0}
    for c in sweeps:
        for st in c["steps"]:
            sw[st["what"]] += (st["to"] - st["from"]) // st["stride"] + 1
    ctx.extra["roundtrip_sweep_full_2_32"] = ctx.tier == "thorough"
    ctx.extra["roundtrip_sweep_on_implementation"] = {
        "values": sw, "note": "parse(format(x)) == x run on the code (theorem RoundTrip of the specs); reported separately, "
                              "not counted in traces_validated_against_impl"}
    ctx.exhaustive = False
    ctx.assumptions = [
        "numbers beyond 31 bits are digit sequences in the specs; the driver only converts digit sequences to numbers and "
        "character sequences to strings",
        "the accepted coordinate grammar includes libosmium's documented scanner bounds (<= 10 integer digits, <= 27 fraction "
        "digits, <= 5 exponent digits, no '+' signs); longer runs are rejected by spec and code alike",
        "Timestamp(const char*) parses a prefix (nothing behind the Z is looked at), every February has 29 days, second 60 is "
        "accepted - modelled as the code documents it; well-formed dates outside 1970..2106-02-07T06:28:15Z are not compared",
        "strtoll/strtoul/timegm/gmtime_r are environment models (C standard contract); white space is {space, tab, newline}",
        "string enumeration is exhaustive for the scanner-directed strings up to the length bound over the reduced alphabet, "
        "grammar-directed beyond; the infinite language is not covered",
    ]


def _try(f):
    try:
        return f()
    except Exception as ex:  # noqa: BLE001 - handed to the main thread
        return ex


def replay(ctx, path):
    with open(path) as fh:
        d = json.load(fh)
    c = d["case"]["case"]
    run_cases(ctx, [c])
    ctx.evaluations = CALLS.get(c["kind"], 1)
    ctx.traces = 1
    ctx.nontrivial = 1
    ctx.states = ctx.transitions = 1
    ctx.sample(c)


def selftest(ctx):
    """The design check is not vacuous: the models of the code BEFORE the fixes F9, F11, F12 are refuted by TLC."""
    bad = 0
    for mod, cfg, inv in (("NumTextCoord", "MCNumTextCoordF9.cfg", "NoOverflow"),
                          ("NumTextCoord", "MCNumTextCoordF11.cfg", "IimpliesA"),
                          ("NumTextInt", "MCNumTextIntF12.cfg", "NoOverflow")):
        res = vlib.tlc(mod, cfg, workers=4, timeout=900)
        hit = bool(res.violation) and ("Invariant %s is violated" % inv) in res.violation
        vlib.log("[selftest] %s/%s: %s" % (mod, cfg, "counterexample found (%s)" % inv if hit else "NOT refuted"))
        bad += 0 if hit else 1
    return 0 if bad == 0 else 2
