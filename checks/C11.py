"""C11 - relations managers complete each relation exactly once with all its members.
Spec: specs/RelMgr.tla (I-layer: relations db countdown, sorted members db, stash; A-layer: set based).
Binding: TLC-exported first/second pass histories replayed on real RelationsManager instantiations."""
import json
import vlib

LEVEL = "model_checking"
SUBSETS = ["TNone", "TN", "TW", "TR", "TNW", "TNR", "TWR", "TNWR"]


def gen_cases(ctx):
    quick = ctx.tier == "quick"
    cases = []
    r = vlib.tlc_ok(vlib.tlc("MCRelMgr", "MCRelMgr.cfg", timeout=1500), "RelMgr design check")
    ctx.add_tlc(r, "I-layer vs set-based A-layer: 2 relations x <=3 members over 3 refs x interest/wanted flags x all stream subsets")
    r = vlib.tlc_ok(vlib.tlc("MCRelMgr", "GenRelMgrSmall.cfg", workers=8), "export small")
    ctx.add_tlc(r, "export: every scenario with 2 relations x <=2 members (exhaustive)")
    step = 4 if quick else 1
    for i, c in enumerate(r.cases):
        if (i + ctx.seed) % step == 0:
            cases.append(dict(c, id="small-%d" % i))
    n = 150 if quick else 3000
    for sub in SUBSETS:
        r = vlib.tlc_ok(vlib.tlc("MCRelMgr", "GenRelMgr_%s.cfg" % sub, workers=8, simulate=n, depth=60, seed=ctx.seed,
                                 tag="relmgr_" + sub), "export " + sub)
        ctx.add_tlc(r, "export: simulated scenarios, 3 relations x <=4 members over 6 refs, template flags " + sub)
        for i, c in enumerate(r.cases):
            cases.append(dict(c, id="%s-%d" % (sub, i)))
            if i % 3 == 0:      # same scenario with members padded so that the stash garbage collects in the middle
                cases.append(dict(c, id="%s-%d-big" % (sub, i), big=True))
    # scenarios over six node/way member refs (no relation members): enough stored members for the stash's automatic
    # garbage collection to run in the middle when the members are padded ("big")
    r = vlib.tlc_ok(vlib.tlc("MCRelMgr", "GenRelMgr_GC.cfg", workers=8, simulate=(150 if quick else 2000), depth=60, seed=ctx.seed,
                             tag="relmgr_GC"), "export GC")
    ctx.add_tlc(r, "export: simulated scenarios, 3 relations x <=4 members over 6 node/way refs (GC in the middle)")
    for i, c in enumerate(r.cases):
        cases.append(dict(c, id="GC-%d-big" % i, big=True))
        if i % 4 == 0:
            cases.append(dict(c, id="GC-%d" % i))
    # negative member ids: legal file order (-1, -2, -3, 1, ...) is not the numeric order the members database is sorted by
    r = vlib.tlc_ok(vlib.tlc("MCRelMgr", "GenRelMgr_Neg.cfg", workers=8, simulate=(120 if quick else 1500), depth=60, seed=ctx.seed,
                             tag="relmgr_Neg"), "export Neg")
    ctx.add_tlc(r, "export: simulated scenarios over negative and positive node/way ids in file order")
    for i, c in enumerate(r.cases):
        cases.append(dict(c, id="Neg-%d" % i))
    cases.extend(wide_cases(cases, quick))
    return cases


def wide_cases(cases, quick):
    """Scenarios with one member-list entry repeated 2^8 / 2^16 times (see relmgr_replay.cpp, "wide"): the countdown of
    wanted members, the members database range of one id and the removal after completion beyond TLC's list lengths."""
    out = []
    plan = [(256, 12 if quick else 60), (65536, 2 if quick else 6)]
    for k, want_n in plan:
        n = 0
        for c in cases:
            if n >= want_n:
                break
            if c.get("big") or "wide" in c:
                continue
            pick = None
            for s in c["steps"]:
                for e in s["ev"] or []:
                    if e.get("e") == "complete" and e["probe"].count("present") >= 2:
                        idxs = [i for i, p in enumerate(e["probe"]) if p == "present"]
                        pick = (e["id"], idxs[(n + k) % len(idxs)])
                        break
                if pick:
                    break
            if pick:
                out.append(dict(c, id="%s-wide%d" % (c["id"], k), wide={"rel": pick[0], "idx": pick[1], "k": k}))
                n += 1
        if n == 0:
            raise vlib.ModelFailure("no exported scenario with a completing relation of >= 2 tracked members (wide family vacuous)")
    return out


def sig_of(c, r):
    k = r.get("step", -1)
    st = c["steps"][:k + 1] if isinstance(k, int) and k >= 0 else c["steps"]
    return "wanted=%s %s | %s" % ("".join(sorted(c["wanted"])),
                                  " ".join("%s%s" % (s["a"], json.dumps(s["x"], separators=(",", ":"))) for s in st),
                                  r.get("note", "")[:60])


def run_cases(ctx, cases):
    binary = vlib.build("relmgr_replay", "relmgr_replay.cpp", flags=["-DOSMIUM_VERIF_STASH_GC_MIN=2"])
    res = vlib.replay_cases(binary, cases, timeout=2400, env={"VH_CASE_TIMEOUT": "30"})
    byid = {c["id"]: c for c in cases}
    if len(res) != len(cases):
        raise vlib.ModelFailure("replay returned %d results for %d cases" % (len(res), len(cases)))
    for r in res:
        if r.get("ok"):
            continue
        c = byid[r["id"]]
        if "crash" in r:
            what = "real RelationsManager %s at step %s: %s" % (r["crash"], r.get("step"), r.get("stderr", "")[:700])
        else:
            what = "differs from RelMgr.tla at step %s (%s): exp=%s got=%s" % (
                r.get("step"), r.get("note", ""), json.dumps(r.get("exp"))[:300], json.dumps(r.get("got"))[:300])
        ctx.violation(sig_of(c, r), {"case": c, "result": r}, what)


def run(ctx):
    cases = gen_cases(ctx)
    run_cases(ctx, cases)
    ctx.traces = len(cases)
    ctx.evaluations = sum(len(c["steps"]) for c in cases)
    ctx.nontrivial = len(set(json.dumps([c["wanted"], [(s["a"], s["x"]) for s in c["steps"]]], sort_keys=True) for c in cases))
    ctx.rule = ("a case = (template flags, first pass relations with member lists and interest predicates, fed object "
                "stream); distinct by that tuple; compared after every call")
    for c in cases[:1] + cases[-2:]:
        ctx.sample({"wanted": c["wanted"], "calls": [[s["a"], s["x"]] for s in c["steps"]],
                    "expected_events": [s["ev"] for s in c["steps"] if s["ev"]]})
    ctx.assumptions = ["member objects are fed in sorted order with distinct ids (the manager's CheckOrder enforces it)",
                       "named deviation: a relation of interest without wanted members never completes and is listed as incomplete",
                       "MultipolygonManager is covered through its base class RelationsManager only",
                       "every third simulated scenario is replayed a second time with member objects padded to a quarter of the "
                       "stash buffer, so that ItemStash's automatic garbage collection (threshold lowered by "
                       "OSMIUM_VERIF_STASH_GC_MIN=2) runs inside add_item() in the middle of the scenario",
                       "family wide: exported scenarios replayed with one tracked member-list entry listed 2^8 / 2^16 times in a row "
                       "(RelMgr.tla counts list entries, so callbacks, pending count and held objects are unchanged and the probe has "
                       "the entry repeated); relations with >= 2^16 DISTINCT members are not generated"]


def replay(ctx, path):
    with open(path) as fh:
        d = json.load(fh)
    c = d["case"]["case"]
    run_cases(ctx, [c])
    ctx.evaluations = len(c["steps"])
    ctx.nontrivial = 2
    ctx.states = ctx.transitions = 1
    ctx.sample({"wanted": c["wanted"], "calls": [[s["a"], s["x"]] for s in c["steps"]]})
