"""C04 - buffers and builders keep objects intact across growth, commit, rollback, purge.
Spec: specs/Buffer.tla.  Design check (TLC): size bookkeeping = layout size of the content, builder offsets
stay valid across every reserve_space outcome, committed data is stable.  Binding: TLC exports histories
(all histories of bounded depth + simulated long ones) over initial capacity x growth mode; the real Buffer
and builders are stepped through them by harness/buffer_replay.cpp and the item sequence with its full
content is compared after every call."""
import json
import vlib

LEVEL = "model_checking"


def sig_of(case, res):
    k = res.get("step", -1)
    steps = case["steps"]
    upto = steps[:k + 1] if isinstance(k, int) and k >= 0 else steps
    ops = " ".join("%s%s" % (s["a"], json.dumps(s["args"], sort_keys=True, separators=(",", ":"))) for s in upto[-6:])
    return "mode=%s cap=%s ... %s" % (case["mode"], case["cap"], ops)


def gen_cases(ctx):
    quick = ctx.tier == "quick"
    cases = []
    for cfg, lab in (("MCBufferA.cfg", "design check A: one object, all builders, depth 13"),
                     ("MCBufferB.cfg", "design check B: buffer operations, 3 objects, depth 8")):
        r = vlib.tlc_ok(vlib.tlc("MCBuffer", cfg, timeout=1500), lab)
        ctx.add_tlc(r, lab)
    r = vlib.tlc_ok(vlib.tlc("MCBuffer", "MCBufferA.cfg", workers=4, coverage=True, timeout=600, tag="bufcov",
                             simulate=200, depth=14), "coverage probe")
    vlib.require_actions(r, ["Next"], "Buffer spec")

    def add(res, tag):
        for i, c in enumerate(res.cases):
            c["id"] = "%s-%d" % (tag, i)
            cases.append(c)

    r = vlib.tlc_ok(vlib.tlc("MCBuffer", "GenBufferA.cfg", workers=8), "export A")
    ctx.add_tlc(r, "export: all builder histories of depth 9 x 5 capacities x {yes, internal}")
    add(r, "A")
    r = vlib.tlc_ok(vlib.tlc("MCBuffer", "GenBufferB.cfg", workers=8), "export B")
    ctx.add_tlc(r, "export: all buffer-operation histories of depth 5 x 3 capacities x 3 modes")
    add(r, "B")
    n = 300 if quick else 6000
    for cfg, depth, tag in (("GenBufferSim.cfg", 31, "S"), ("GenBufferSimB.cfg", 17, "SB")):
        r = vlib.tlc_ok(vlib.tlc("MCBuffer", cfg, workers=8, simulate=n, depth=depth, seed=ctx.seed, timeout=3000),
                        "simulation export " + cfg)
        ctx.add_tlc(r, "export: simulated histories %s (full vocabulary, 25 capacities 64..256, 3 modes)" % cfg)
        add(r, tag)
    return cases


def run_cases(ctx, cases):
    binary = vlib.build("buffer_replay", "buffer_replay.cpp")
    res = vlib.replay_cases(binary, cases, timeout=1500, env={"VH_CASE_TIMEOUT": "30"})
    byid = {c["id"]: c for c in cases}
    if len(res) != len(cases):
        raise vlib.ModelFailure("replay returned %d results for %d cases" % (len(res), len(cases)))
    for r in res:
        if r.get("ok"):
            continue
        c = byid[r["id"]]
        if "crash" in r:
            what = "real Buffer/builders %s while replaying a spec history: %s" % (r["crash"], r.get("stderr", "")[-700:])
            sig = "crash " + sig_of(c, r)
        else:
            what = "projection differs from Buffer.tla at step %s (%s): exp=%s got=%s" % (
                r.get("step"), r.get("note", ""), json.dumps(r.get("exp"))[:300], json.dumps(r.get("got"))[:300])
            sig = "mismatch " + sig_of(c, r)
        ctx.violation(sig, {"case": c, "result": r}, what)


def run(ctx):
    cases = gen_cases(ctx)
    run_cases(ctx, cases)
    ctx.traces = len(cases)
    ctx.evaluations = sum(len(c["steps"]) for c in cases)
    distinct = set()
    for c in cases:
        distinct.add((c["mode"], c["cap"], tuple((s["a"], json.dumps(s["args"], sort_keys=True)) for s in c["steps"])))
    ctx.nontrivial = len(distinct)
    ctx.rule = ("a case = (growth mode, initial capacity, history of API calls); distinct by that triple; every case "
                "has >= 5 calls and is compared after each call; evaluations = total calls compared")
    for c in cases[:2] + cases[-1:]:
        ctx.sample({"mode": c["mode"], "cap": c["cap"], "calls": [[s["a"], s["args"]] for s in c["steps"]],
                    "expected_after_last": c["steps"][-1]["exp"]})
    ctx.extra["histories_replayed"] = len(cases)
    ctx.assumptions = ["strings are represented by their lengths in the spec; the harness materialises deterministic bytes and "
                       "re-checks them on every parse",
                       "exact capacity after growth is not compared (the property does not state it)",
                       "set_removed/purge_removed are exercised in growth modes no/yes only (which items are in the current "
                       "block under auto_grow::internal depends on the growth policy)",
                       "sizeof constants of the item classes are static_assert-ed in the harness against the spec's"]
    # extension (specs/BufferExt.tla): areas, CallbackBuffer, nested chain in place, purge in all growth modes
    import C04ext
    C04ext.run_part(ctx)


def replay(ctx, path):
    with open(path) as fh:
        d = json.load(fh)
    if str(d.get("signature", "")).startswith("ext:"):
        import C04ext
        return C04ext.replay_case(ctx, d)
    c = d["case"]["case"]
    run_cases(ctx, [c])
    ctx.evaluations = len(c["steps"])
    ctx.nontrivial = 2
    ctx.states = ctx.transitions = 1
    ctx.sample({"mode": c["mode"], "cap": c["cap"], "calls": [[s["a"], s["args"]] for s in c["steps"]]})
