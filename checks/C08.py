"""C08 - Writer produces the complete file or throws; OS write errors are never lost.
Spec: specs/WriterPipeline.tla (+ MCWriterPipeline.tla).  Design check: for every configuration (script of
operator()(Buffer) / operator()(Item) / flush / close calls x format shape x compressor model plain/gzip/bzip2 x
fsync x fault x queue bound x pool) TLC explores every interleaving of user thread, pool workers and write thread
and every buffering choice of the compressor: the log of results the caller sees is one of the logs of the
sequential specification Walk(cfg, p); a close() that returns a size does so only when nothing failed, the disk
then holds exactly Encode(objects handed in) and the size is the file's size; a fault before close() returned is
reported by an exception; after an exception data is refused; the future is read at most once; no thread and no
descriptor is left; termination under weak fairness.
Binding: spec -> code replay.  TLC exports (format x compression x fsync x fault x script) with the allowed logs;
harness/writer_fault.cpp runs the real Writer with the real encoders and compressors and makes the kernel refuse
(RLIMIT_FSIZE at byte offset o, /dev/full, interposed fsync/close/fclose), or uses an unencodable object / a mock
encoder / a mock compressor; the observed log must be one of the allowed logs, a reported size must be the file's
size, the file of a successful close() must read back (osmium::io::Reader) as exactly the objects handed in, and
after ~Writer all threads are joined and no descriptor is left.  A watchdog reports a deadlock as 'hang'.
Scripts contain, besides data, an operator()(Buffer) whose buffer the format encodes to nothing ('nul': only an Area or a bare
TagList): the empty string is the end-of-data marker of the output queue, so such a block must never travel through it (F08b).
Code -> spec: the executions are also recorded (queue hooks, WriteThread hooks, API results) and TLC validates each
recorded execution against specs/WriterPipelineTrace.tla (all invariants evaluated along the way)."""
import json
import os
import random
import shutil
from concurrent.futures import ThreadPoolExecutor

import vlib

LEVEL = "model_checking"

ACTIONS = ["UCall", "UHdr", "UChk", "UBlkI", "UBlkB", "UBlkN", "UAdd", "UThrow", "UEnd", "UClosed", "UEod", "UXPush", "UPushChk",
           "UPushEnq", "UGet", "URetOk", "URetExc", "UJoin", "Worker", "WPopChk", "WWait", "WGet", "WWrite", "WCClose",
           "WSetVal", "WCatch1", "WCatch2", "WShut0", "WShut1", "WDtor"]

# bytes at the end of the file that are only produced while the file is being closed
TAIL = {("xml", "plain"): 7, ("mock", "plain"): 2, ("mock", "mockc"): 2}
SWEEP_SCRIPTS = (["buf", "flush", "buf", "flush", "close", "close"], ["item", "buf", "item", "close", "buf"])


def tail_of(fmt, comp):
    if comp == "gzip":
        return 8          # CRC32 + ISIZE
    if comp == "bzip2":
        return 10         # end-of-stream magic + combined CRC
    return TAIL.get((fmt, comp), 1)


def fmt_of(cfg):
    if cfg["defer"]:
        return "pbf"
    return "xml" if cfg["hdr"] and cfg["trl"] else "opl"


def design(ctx):
    if os.environ.get("VERIF_DEV_SKIP_DESIGN"):      # development only (mutation runs against a scratch tree)
        return
    if ctx.tier == "quick":
        jobs = [("MCWP_q1.cfg", "safety: xml shape, 3 compressor models, every fault kind, all scripts <= 2, bound 1, pool", False),
                ("MCWP_q2.cfg", "safety: opl shape, pool and no pool, bound 2, buffer of 1 item, long scripts", False),
                ("MCWP_q3.cfg", "safety: pbf shape (block handed over in write_end), scripts <= 1 + 9 long, bound 2", True),
                ("MCWP_live.cfg", "liveness: both threads finish under weak fairness, every fault kind, scripts <= 2", False)]
        w = 4
    else:
        jobs = [("MCWP_t1.cfg", "safety: xml shape, 3 compressor models, every fault kind, all scripts <= 3 + 9 long, bound 1, pool", True),
                ("MCWP_t2.cfg", "safety: opl + pbf shapes, pool and no pool, bounds 1 and 2, buffer of 1 and 2 items, scripts <= 1 + 9 long", False),
                ("MCWP_liveT.cfg", "liveness: both threads finish under weak fairness, every fault kind, scripts <= 1 + 9 long, xml + opl", False)]
        w = 5

    def one(job):
        cfg, label, cov = job
        return job, vlib.tlc("MCWriterPipeline", cfg, workers=w, coverage=cov, timeout=3000, tag=cfg[:-4], java_opts=["-Xmx6g"])
    # VERIF_TLC_WORKERS is the development cap of a shared machine: then at most two JVMs at a time
    with ThreadPoolExecutor(max_workers=2 if os.environ.get("VERIF_TLC_WORKERS") else len(jobs)) as ex:
        for (cfg, label, cov), r in ex.map(one, jobs):
            vlib.tlc_ok(r, "WriterPipeline design check " + cfg)
            if cov:
                vlib.require_actions(r, ACTIONS, "WriterPipeline " + cfg)
            ctx.add_tlc(r, label)
    # negative control: the model of the compressors as shipped before 58a932f (fdfix = FALSE) must violate NoFdLeft
    r = vlib.tlc("MCWriterPipeline", "MCWP_shipped.cfg", workers=2, timeout=600, tag="MCWP_shipped", extra=["-noGenerateSpecTE"])
    if r.error or not (r.violation and "NoFdLeft" in r.violation):
        raise vlib.ModelFailure("negative control failed: the as-shipped compressor model (fdfix = FALSE) no longer violates NoFdLeft: %s"
                                % (r.error or r.violation or "no violation")[:800])
    ctx.extra["negative_control"] = "as-shipped compressor model (descriptor not closed when gzclose_w/fsync fail) violates NoFdLeft, as the real code did (F08a)"
    # negative control: as shipped before 646d69f (emptyfix = FALSE) a block that is encoded as the empty string is taken for the
    # end marker by the write thread: close() reports success for a truncated file
    r = vlib.tlc("MCWriterPipeline", "MCWP_shipped_empty.cfg", workers=2, timeout=600, tag="MCWP_shipped_empty", extra=["-noGenerateSpecTE"])
    if r.error or not (r.violation and "CompleteOrThrows" in r.violation):
        raise vlib.ModelFailure("negative control failed: the as-shipped model (emptyfix = FALSE) no longer violates CompleteOrThrows: %s"
                                % (r.error or r.violation or "no violation")[:800])
    ctx.extra["negative_control_empty_block"] = ("as-shipped model (a block encoded as the empty string travels through the queue and is taken for "
                                                 "the end marker) violates CompleteOrThrows, as the real code did (F08b)")


def export(ctx, family):
    prefix = "GenWP_" if ctx.tier == "quick" else "GenWPT_"
    r = vlib.tlc_ok(vlib.tlc("MCWriterPipeline", prefix + "%s.cfg" % family, workers=4, timeout=1500, tag="genwp_" + family,
                             keep_out=False), "export " + family)
    ctx.add_tlc(r, "export of configurations with their allowed logs: family " + family)
    return r.cases


def fault_key(cfg):
    return "%s@%s" % (cfg["fault"]["k"], cfg["fault"]["at"])


def sample(cases, k, rnd, key):
    """stratified sample: round-robin over the strata given by key"""
    if len(cases) <= k:
        return list(cases)
    strata = {}
    for c in cases:
        strata.setdefault(key(c), []).append(c)
    for v in strata.values():
        rnd.shuffle(v)
    out = []
    keys = sorted(strata, key=str)
    i = 0
    while len(out) < k and keys:
        kk = keys[i % len(keys)]
        if strata[kk]:
            out.append(strata[kk].pop())
            i += 1
        else:
            keys.remove(kk)
    return out


def mk_case(cid, mode, e, fmt, comp, inst, rnd, nseeds, nobj):
    cfg = e["cfg"]
    return {"id": cid, "mode": mode, "fmt": fmt, "comp": comp, "fsync": cfg["fsync"], "script": cfg["script"],
            "fault": cfg["fault"], "inst": inst, "allowed": e["allowed"], "content": e["content"], "blocks": e["blocks"],
            "pool": cfg["pool"], "nobj": nobj, "tail": tail_of(fmt, comp),
            "seeds": [rnd.randrange(1, 1 << 30) for _ in range(nseeds)],
            "qsize": rnd.choice([2, 2, 3, 20]), "pool_threads": rnd.choice([1, 2, 3]),
            "sched_prob": rnd.choice([0, 20, 50]), "sched_max_us": rnd.choice([50, 300, 1500]),
            "budget_s": 12}      # watchdog per execution (a normal execution takes milliseconds)


def real_cases(ctx, exported, rnd, nseeds, budget):
    """instantiate the exported configurations of the real formats/compressors"""
    out = []
    pool = []
    for e in exported:
        cfg = e["cfg"]
        fmt = fmt_of(cfg)
        comp = cfg["comp"]
        k = cfg["fault"]["k"]
        if k == "epool" and fmt != "opl":
            continue                       # only the OPL encoder refuses a (non UTF-8) string
        if k == "fsync" and not cfg["fsync"]:
            continue
        pool.append((e, fmt, comp))
    key = lambda t: (t[1], t[2], fault_key(t[0]["cfg"]), t[0]["cfg"]["fsync"], "nul" in t[0]["cfg"]["script"])
    chosen = sample([t for t in pool if t[0]["cfg"]["fault"]["k"] == "write"], budget // 2, rnd, key) + \
        sample([t for t in pool if t[0]["cfg"]["fault"]["k"] != "write"], budget // 2, rnd, key)
    for i, (e, fmt, comp) in enumerate(chosen):
        cfg = e["cfg"]
        k, at, total = cfg["fault"]["k"], cfg["fault"]["at"], e["total"]
        nobj = rnd.choice([1, 1, 3, 120]) if fmt != "pbf" else rnd.choice([1, 3, 120])
        insts = [None]
        if k == "write":
            if at == 0:
                insts = [{"kind": "first"}, {"kind": "frac", "frac": rnd.choice([0.02, 0.1, 0.3, 0.5, 0.7, 0.9, 0.97])}]
                if total > 0 and i % 3 == 0:
                    insts.append({"kind": "devfull"})
                if total == 0:
                    insts = [{"kind": "first"}]
            elif at == total - 1:
                t = tail_of(fmt, comp)
                insts = [{"kind": "last", "delta": d} for d in sorted(set([0, t - 1, rnd.randrange(0, t)]))]
            else:
                insts = [{"kind": "end", "delta": d} for d in (0, rnd.choice([1, 7, 4096]))]
        for j, inst in enumerate(insts):
            out.append(mk_case("real-%d-%d" % (i, j), "real", e, fmt, comp, inst or {}, rnd, nseeds, nobj))
    return out


def empty_cases(ctx, exported, rnd, nseeds, budget):
    """F08b: scripts with a buffer the format encodes to nothing ('nul': only an Area / a bare TagList), without any other
    fault, for every format x compression x fsync: data handed in after it must be in the file, or a call must throw"""
    pool = [e for e in exported if "nul" in e["cfg"]["script"] and e["cfg"]["fault"]["k"] == "none"]
    chosen = sample(pool, budget, rnd, key=lambda e: (fmt_of(e["cfg"]), e["cfg"]["comp"], e["cfg"]["fsync"]))
    return [mk_case("empty-%d" % i, "real", e, fmt_of(e["cfg"]), e["cfg"]["comp"], {}, rnd, nseeds, rnd.choice([1, 3, 120]))
            for i, e in enumerate(chosen)]


def mock_cases(ctx, exported, rnd, nseeds, budget):
    out = []
    chosen = sample(exported, budget, rnd, key=lambda e: (fault_key(e["cfg"]), e["cfg"]["pool"]))
    for i, e in enumerate(chosen):
        k = e["cfg"]["fault"]["k"]
        comp = "mockc" if k in ("cwrite", "cclose") else "plain"
        out.append(mk_case("mock-%d" % i, "mock", e, "mock", comp, {}, rnd, nseeds, rnd.choice([1, 2, 5])))
    return out


def sweep_cases(ctx, exported, rnd, binary, workdir):
    """every byte offset (thorough) / a strided set (quick) of the would-be output of two fixed scripts, for every
    format x compression x fsync: the expected outcome of offset o is the exported one of its offset class"""
    quick = ctx.tier == "quick"
    by = {}
    for e in exported:
        cfg = e["cfg"]
        if cfg["script"] in SWEEP_SCRIPTS and cfg["fault"]["k"] == "write":
            by.setdefault((fmt_of(cfg), cfg["comp"], cfg["fsync"], tuple(cfg["script"])), {})[
                "first" if cfg["fault"]["at"] == 0 else ("last" if cfg["fault"]["at"] == e["total"] - 1 else "end")] = e
    combos = sorted(k for k in by if len(by[k]) == 3)
    if quick:
        combos = [k for k in combos if k[3] == tuple(SWEEP_SCRIPTS[0])]
    nobj = 4
    probes = []
    for n, (fmt, comp, sync, script) in enumerate(combos):
        c = mk_case("probe-%d" % n, "probe", by[(fmt, comp, sync, script)]["end"], fmt, comp, {}, rnd, 1, nobj)
        probes.append(c)
    res = vlib.replay_cases(binary, probes, nproc=4, timeout=600, args=[workdir])
    size = {}
    for r in res:
        if not r.get("ok") or not r.get("dry_closed"):
            raise vlib.ModelFailure("probe run of the Writer without fault failed: %s" % json.dumps(r)[:600])
        size[r["id"]] = r["S"]
    out = []
    for n, key in enumerate(combos):
        fmt, comp, sync, script = key
        S = size["probe-%d" % n]
        t = tail_of(fmt, comp)
        offs = set(range(0, S + 3))
        if quick:
            stride = max(1, S // 12)
            offs = set(range(0, S, stride)) | {0, 1, S - t - 1, S - t, S - 1, S, S + 1}
        for o in sorted(x for x in offs if x >= 0):
            cls = "end" if o >= S else ("last" if o >= S - t else "first")
            c = mk_case("sweep-%d-%d" % (n, o), "real", by[key][cls], fmt, comp, {"kind": "offset", "o": o}, rnd, 1, nobj)
            c["sweep_size"] = S
            out.append(c)
    ctx.extra["offset_sweep"] = {"combinations": len(combos), "executions": len(out),
                                 "sizes": {"%s/%s/fsync=%s/%s" % (k[0], k[1], k[2], ",".join(k[3])): size["probe-%d" % n] for n, k in enumerate(combos)},
                                 "every_byte_offset": not quick}
    return out


def big_cases(ctx, exported, rnd, nseeds):
    """outputs that are larger than the buffers of zlib / libbz2 / stdio, so that kernel writes happen inside
    Compressor::write and not only while closing"""
    out = []
    want = ["buf", "buf", "buf", "close"]
    n = 0
    for e in exported:
        cfg = e["cfg"]
        if cfg["script"] != want or cfg["fault"]["k"] != "write" or cfg["fault"]["at"] != 0 or cfg["fsync"]:
            continue
        fmt = fmt_of(cfg)
        if fmt == "pbf":
            continue
        for frac in ([0.2, 0.6] if ctx.tier == "quick" else [0.05, 0.2, 0.4, 0.6, 0.8, 0.95]):
            n += 1
            c = mk_case("big-%d" % n, "real", e, fmt, cfg["comp"], {"kind": "frac", "frac": frac}, rnd, nseeds,
                        4000 if cfg["comp"] == "bzip2" else 1500)
            c["budget_s"] = 60
            out.append(c)
    return out


def sig_of(c, kind):
    inst = c.get("inst") or {}
    return "%s mode=%s fmt=%s comp=%s fsync=%s fault=%s@%s inst=%s script=%s" % (
        kind, c["mode"], c["fmt"], c["comp"], c["fsync"], c["fault"]["k"], c["fault"]["at"], inst.get("kind", "-"), ",".join(c["script"]))


def build():
    return vlib.build("writer_fault", "writer_fault.cpp", san=False, opt="-O1", flags=["-rdynamic"], libs=vlib.LIBS + ["-ldl"])


def scratch(ctx):
    workdir = os.path.join(vlib.BUILD, "run", ctx.prop)
    shutil.rmtree(workdir, ignore_errors=True)
    os.makedirs(workdir, exist_ok=True)
    return workdir


def validate_traces(ctx, workdir, files, tag, budget=None):
    """files: list of (case, path) of recorded executions.  Concatenates them and lets TLC decide whether every one is a
    behaviour of WriterPipeline (specs/WriterPipelineTrace.tla).  Returns ([(case, what, lines)], executions accepted, events)."""
    cat = os.path.join(workdir, "trace_%s.ndjson" % tag)
    index = []      # (first line, last line, case) per case file; a file holds one execution per seed
    n = 0
    nexec = 0
    with open(cat, "w") as out:
        for case, path in files:
            if not os.path.exists(path):
                continue
            with open(path) as fh:
                lines = fh.read().splitlines()
            if not lines:
                continue
            index.append((n + 1, n + len(lines), case))
            nexec += sum(1 for x in lines if x.startswith('{"cfg"'))
            out.write("\n".join(lines) + "\n")
            n += len(lines)
    if n == 0:
        return [], 0, 0

    def run(t):
        r = vlib.tlc("WriterPipelineTrace", "WriterPipelineTrace.cfg", workers=1, env={"TRACE": cat}, timeout=2400,
                     java_opts=["-Xmx4g", "-Dtlc2.tool.queue.IStateQueue=StateDeque"], tag="wptrace_" + t, extra=["-noGenerateSpecTE"])
        maxl = 0
        for line in r.out:
            if line.startswith('<<"MAXL"'):
                maxl = int(line.strip("<>").split(",")[1])
        if r.error:
            raise vlib.ModelFailure("trace validation TLC error: %s" % r.error[:2000])
        return bool(r.violation and "NotAccepted" in r.violation), maxl, r
    accepted, maxl, r = run(tag)
    if not accepted and not (r.violation and "NotAccepted" not in r.violation):
        accepted, maxl, r = run(tag + "b")           # re-validate once on the same artefact
    ctx.states += r.distinct
    ctx.transitions += r.generated
    if accepted:
        return [], nexec, n
    with open(cat) as fh:
        lines = fh.read().splitlines()
    bad = None
    for a, b, case in index:
        if a <= maxl <= b or a <= maxl + 1 <= b:
            bad = (a, b, case)
    if bad is None:
        bad = index[-1]
    a, b, case = bad
    around = lines[max(a - 1, maxl - 8):min(b, maxl + 2)]
    if r.violation and "NotAccepted" not in r.violation:
        what = "trace: invariant violated while following the recorded execution: " + r.violation[:500]
    else:
        what = ("trace: recorded execution of the real Writer is not a behaviour of WriterPipeline.tla: longest matched prefix ends at "
                "line %d (case file spans lines %d-%d); events around: %s" % (maxl, a, b, " | ".join(around)))
    # the executions behind the rejected one have not been looked at: validate them separately, but on a tree that is
    # rejected again and again stop after a few (each rejection costs two TLC runs)
    budget = [3] if budget is None else budget
    rest = [(c, os.path.join(workdir, "tr", c["id"] + ".ndjson")) for aa, bb, c in index if aa > b]
    more, cnt, _ = ([], 0, 0)
    if rest and budget[0] > 0:
        budget[0] -= 1
        more, cnt, _ = validate_traces(ctx, workdir, rest, tag + "r", budget)
    okbefore = sum(1 for x in lines[:a - 1] if x.startswith('{"cfg"'))
    return [(case, what, lines[a - 1:b][-300:])] + more, okbefore + cnt, n


def run_cases(ctx, binary, workdir, cases, traced=None):
    byid = {c["id"]: c for c in cases}
    res = []
    trdir = os.path.join(workdir, "tr")
    os.makedirs(trdir, exist_ok=True)
    for c in cases:
        c.pop("trace", None)
        if traced is None or c["id"] in traced:
            c["trace"] = os.path.join(trdir, c["id"] + ".ndjson")
    # in chunks: a tree on which the Writer hangs costs one watchdog period per hanging case, so stop once the
    # verdict is clear anyway
    bounds = [0, min(150, len(cases))]
    while bounds[-1] < len(cases):
        bounds.append(min(len(cases), bounds[-1] + 800))
    for k, kend in zip(bounds, bounds[1:]):
        part = cases[k:kend]
        nproc = min(8, max(1, len(part) // 6))
        r = vlib.replay_cases(binary, part, nproc=nproc, timeout=3000, args=[workdir])
        if len(r) != len(part):
            raise vlib.ModelFailure("replay returned %d results for %d cases" % (len(r), len(part)))
        res += r
        bad = sum(1 for x in res if not x.get("ok"))
        if bad >= 40 and kend < len(cases):
            ctx.extra["aborted"] = "stopped after %d of %d cases: %d failing cases already" % (kend, len(cases), bad)
            vlib.log("[C08] %s" % ctx.extra["aborted"])
            break
    stats = {"executions": 0, "exception_from_operator_or_flush": 0, "exception_from_close_only": 0, "faults_injected_by_interposer_or_mock": 0}
    for r in res:
        c = byid[r["id"]]
        if r.get("ok"):
            stats["executions"] += r.get("execs", 0)
            stats["exception_from_operator_or_flush"] += r.get("early", 0)
            stats["exception_from_close_only"] += r.get("late", 0)
            stats["faults_injected_by_interposer_or_mock"] += r.get("hits", 0)
            continue
        if "crash" in r:
            kind = "hang" if r["crash"] == "timeout" else r["crash"]
            ctx.violation(sig_of(c, kind), {"case": c, "result": r}, "real Writer: %s (%s)" % (kind, r.get("stderr", "")[-500:]))
            continue
        note = r.get("note", "")
        if note.startswith("harness:"):
            raise vlib.ModelFailure("writer_fault harness failed on case %s: %s" % (c["id"], note))
        kind = note.split(":")[0] if ":" in note else "log"
        what = "%s | exp=%s got=%s" % (note, json.dumps(r.get("exp"))[:500], json.dumps(r.get("got"))[:900])
        ctx.violation(sig_of(c, kind), {"case": c, "result": r}, what)
    # code -> spec: every recorded execution of a case that passed the replay is validated against the trace spec
    okids = set(r["id"] for r in res if r.get("ok"))
    files = [(c, c["trace"]) for c in cases if "trace" in c and c["id"] in okids]
    nshards = max(1, min(2 if os.environ.get("VERIF_TLC_WORKERS") else 6, len(files) // 40))
    stats["executions_validated_by_trace_spec"] = 0
    stats["trace_events_validated"] = 0
    with ThreadPoolExecutor(max_workers=nshards) as ex:
        for rejected, nok, nlines in ex.map(lambda k: validate_traces(ctx, workdir, files[k::nshards], "s%d" % k), range(nshards)):
            for case, what, lines in rejected:
                ctx.violation(sig_of(case, "trace"), {"case": case, "trace": lines}, what)
            stats["executions_validated_by_trace_spec"] += nok
            stats["trace_events_validated"] += nlines
    return stats


def finish(ctx, cases, stats):
    ctx.traces = stats["executions"] + stats.get("executions_validated_by_trace_spec", 0)
    ctx.evaluations = sum((len(c["script"]) + 3) * len(c["seeds"]) for c in cases)
    ctx.nontrivial = len(set((c["fmt"], c["comp"], c["fsync"], json.dumps(c["fault"]), json.dumps(c["inst"], sort_keys=True),
                              tuple(c["script"]), c["nobj"]) for c in cases))
    ctx.rule = ("one execution = one seeded run of one TLC-exported configuration (format, compression, fsync, fault, script) on the real "
                "Writer with a concrete instance of the fault (byte offset / n-th close / block); distinct by that tuple; evaluations = "
                "results of the script's calls + threads/descriptors/content checks per execution; impl_traces = executions replayed "
                "+ recorded executions accepted by WriterPipelineTrace.tla")
    ctx.extra["execution_stats"] = stats
    kinds = {}
    for c in cases:
        k = "%s/%s:%s" % (c["fmt"], c["comp"], c["fault"]["k"])
        kinds[k] = kinds.get(k, 0) + 1
    ctx.extra["cases_per_format_compression_fault"] = kinds
    seen = set()
    for c in cases:
        k = (c["mode"], c["fault"]["k"])
        if k not in seen and len(seen) < 6:
            seen.add(k)
            ctx.sample({kk: c[kk] for kk in ("mode", "fmt", "comp", "fsync", "script", "fault", "inst", "allowed", "content", "nobj")})
    ctx.assumptions = [
        "real schedules are perturbed (seeded delays between the caller's calls, at the OSMIUM_VERIF hook points of the queue and in the "
        "mocks), not enumerated; every interleaving and every buffering choice of the compressors is enumerated on the spec only",
        "the kernel refuses through RLIMIT_FSIZE (EFBIG at byte offset o), /dev/full (ENOSPC) and interposed fsync/close/fclose (EIO); "
        "errors that surface only after a successful write (page cache) are fsync's contract and modelled as 'fsync fails'",
        "byte offsets are instances of the spec's offset classes: any offset inside the would-be output uses the allowed logs of "
        "'write fails at unit 0' (a superset for later offsets), offsets in the tail that is only produced while closing (gzip CRC/ISIZE, "
        "bzip2 end-of-stream, </osm>) use 'last unit' (only close() may throw), offsets >= size use 'no fault reached'",
        "queue interface as verified by C19 (ThreadQueue.tla); real queue bounds are >= 2 (the library clamps), the model also covers 1",
        "PBF is modelled for inputs of less than one primitive block (the data blob is handed over in write_end)",
        "objects a format cannot represent (an Area, a bare TagList: script op 'nul') are skipped by its encoder and are not part of "
        "'the objects handed to the Writer'; what is checked is that such a buffer does not end the file (F08b)"]


def run(ctx):
    quick = ctx.tier == "quick"
    rnd = random.Random(ctx.seed)
    with ThreadPoolExecutor(max_workers=2) as ex:
        fb = ex.submit(build)
        fd = ex.submit(design, ctx)
        binary = fb.result()
        fd.result()
    with ThreadPoolExecutor(max_workers=2) as ex:
        fr = ex.submit(export, ctx, "real")
        fm = ex.submit(export, ctx, "mock")
        real, mock = fr.result(), fm.result()
    workdir = scratch(ctx)
    nseeds = 2 if quick else 3
    cases = real_cases(ctx, real, rnd, nseeds, 560 if quick else 5000)
    cases += mock_cases(ctx, mock, rnd, nseeds, 160 if quick else 2500)
    cases += empty_cases(ctx, real, rnd, nseeds, 240 if quick else 1500)
    cases += big_cases(ctx, real, rnd, nseeds)
    cases += sweep_cases(ctx, real, rnd, binary, workdir)
    # the recorded executions of a seeded part of the cases are validated by TLC (quick: a third, thorough: a fifth,
    # which is several times more executions)
    ids = [c["id"] for c in cases]
    rnd.shuffle(ids)
    traced = set(ids[:len(ids) // (3 if quick else 5)])
    stats = run_cases(ctx, binary, workdir, cases, traced)
    finish(ctx, cases, stats)
    shutil.rmtree(workdir, ignore_errors=True)


def replay(ctx, path):
    with open(path) as fh:
        d = json.load(fh)
    c = d["case"]["case"]
    binary = build()
    workdir = scratch(ctx)
    stats = run_cases(ctx, binary, workdir, [c])
    finish(ctx, [c], stats)
    ctx.states = ctx.states or 1
    ctx.transitions = ctx.transitions or 1
    shutil.rmtree(workdir, ignore_errors=True)
