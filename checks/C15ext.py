"""C15, extension of the specification (called from C15.run() after the four base containers).

  specs/ContainersExtDense.tla   IdSetDense as a VALUE: two objects, copy construction, copy assignment onto a non-empty
                                 set (and onto itself), move construction, move assignment, swap; unset() on a chunk that
                                 was never allocated, iteration after clear(), two const iterators over a set that is only
                                 read, used_memory() bracketed (allocated chunks <= estimate <= slots of the chunk vector)
                                 and monotone under the element-wise calls.
  specs/ContainersExtSmall.tla   IdSetSmall as a value: two objects, set() out of order + sort_unique(), merge_sorted() with
                                 the other object / itself / empty operands / overlaps, clear(), copy assignment,
                                 begin/end/cbegin/cend, used_memory() >= ids held.
  specs/ContainersExtNwr.tla     nwr_array<IdSetDense|IdSetSmall>: three independent sets addressed by item_type through
                                 operator()(type), nodes()/ways()/relations() and begin()..end().
  specs/ContainersExtRelMap.tla  RelationsMapStash/Index/Indexes: ids exactly at 2^32-1 / 2^32, size()/empty()/sizes(),
                                 add_members(), the stash and the indexes as movable values, every builder on every stash
                                 incl. the empty one, member_to_parent()/parent_to_member().
  specs/ContainersExtStash.tla   ItemStash with the REAL should_gc() thresholds (an entry is a block of 1000 / 999 / 1
                                 items), buffer growth by doubling, clear() and reuse, used_memory() against the capacity
                                 the spec predicts.  Three generator configurations: mixed histories, histories of blocks
                                 only (automatic collection at the start / in the middle of a block, exactly at 10000
                                 removed items), and "fill 64 units, then remove" where the removed/live ratio decides.
Binding: harness/containersext_replay.cpp replays every exported history on the real classes, once built with -DNDEBUG
and once with the library's assertions enabled.  Violations carry signatures starting with "ext:"."""
import json
import os
import random
import threading
import time

import vlib

SRC = "containersext_replay.cpp"
BUILDS = {"ndebug": dict(name="containersext_replay", src=SRC, ndebug=True),
          "assert": dict(name="containersext_replay_dbg", src=SRC, ndebug=False)}

MC_RUNS = [  # (module, quick cfg, thorough cfg, label, actions that must have been taken)
    ("ContainersExtDense", "MCContainersExtDense.cfg", "MCTContainersExtDense.cfg",
     "IdSetDense as a value (two objects): I => A, used_memory monotone",
     ["CheckAndSet", "Unset", "Get", "Clear", "CopyAssign", "CopyCtor", "MoveCtor", "MoveAssign", "Swap"]),
    ("ContainersExtSmall", "MCContainersExtSmall.cfg", "MCTContainersExtSmall.cfg",
     "IdSetSmall as a value (two objects): I => A, sort_unique/merge_sorted postconditions",
     ["Set", "Get", "GetBin", "SortUnique", "MergeSorted", "Clear", "CopyAssign"]),
    ("ContainersExtNwr", "MCContainersExtNwr_dense.cfg", "MCTContainersExtNwr_dense.cfg",
     "nwr_array<IdSetDense>: every accessor reaches the slot of its own type, the sets are independent",
     ["Set", "Unset", "Get", "Clear", "ClearAll", "Save", "Restore"]),
    ("ContainersExtNwr", "MCContainersExtNwr_small.cfg", "MCTContainersExtNwr_small.cfg",
     "nwr_array<IdSetSmall>: every accessor reaches the slot of its own type, the sets are independent",
     ["Set", "Get", "Clear", "ClearAll", "Save", "Restore"]),
    ("ContainersExtRelMap", "MCContainersExtRelMap.cfg", "MCTContainersExtRelMap.cfg",
     "RelationsMap around the 32 bit border: every stash of <= 3 calls (add, add_members, move) x 3 builders",
     ["Add", "AddMembers", "MoveStash", "BuildM2P", "BuildP2M", "BuildBoth"]),
    ("ContainersExtStash", "MCContainersExtStash.cfg", "MCTContainersExtStash.cfg",
     "ItemStash with blocks, growth, clear, automatic collection at the start and in the middle of a block (scaled constants)",
     ["AddPlain", "AddAfterGC", "AddMidGC", "RemoveItem", "GarbageCollect", "Clear"]),
]

SIM_RUNS = [  # (module, cfg, kind, behaviours quick, behaviours thorough, depth)
    ("ContainersExtDense", "GenContainersExtDense.cfg", "xdense", 120, 2500, 15),
    ("ContainersExtSmall", "GenContainersExtSmall.cfg", "xsmall", 150, 3000, 15),
    ("ContainersExtNwr", "GenContainersExtNwr_dense.cfg", "xnwr", 90, 800, 15),
    ("ContainersExtNwr", "GenContainersExtNwr_small.cfg", "xnwr", 90, 800, 15),
    ("ContainersExtRelMap", "GenContainersExtRelMap.cfg", "xrelmap", 300, 6000, 9),
    ("ContainersExtStash", "GenContainersExtStash.cfg", "xstash", 100, 1500, 23),
    ("ContainersExtStash", "GenContainersExtStashAuto.cfg", "xstash", 400, 6000, 47),
    ("ContainersExtStash", "GenContainersExtStashRatio.cfg", "xstash", 80, 700, 85),
]
GEN_RUNS = [  # breadth first, both tiers: the empty stash and every single call, x 3 builders x moved or not
    ("ContainersExtRelMap", "GenContainersExtRelMap1.cfg", "xrelmap"),
]
GEN_RUNS_THOROUGH = [  # every stash made by two calls
    ("ContainersExtRelMap", "GenContainersExtRelMap2.cfg", "xrelmap"),
]
AUTO_CFG = "GenContainersExtStashAuto.cfg"
RATIO_CFG = "GenContainersExtStashRatio.cfg"

_early = {}


def _build_all():
    return dict(zip(BUILDS, vlib.parallel(*[(lambda kw=kw: vlib.build(**kw)) for kw in BUILDS.values()])))


def start_prebuild():
    """Optional: C15.run() calls this first so that the cold build of the two harness binaries runs beside the base
    part's TLC runs.  run_part() works without it."""
    if "thread" in _early:
        return

    def work():
        try:
            _early["bins"] = _build_all()
        except Exception as ex:      # re-raised by prebuild() on the caller's thread
            _early["error"] = ex
    _early["thread"] = threading.Thread(target=work)
    _early["thread"].start()


def prebuild():
    t = _early.get("thread")
    if t is not None:
        t.join()
        if "error" in _early:
            raise _early["error"]
    return _build_all()


def _run_job(ctx, j):
    tag = "C15x_" + j["cfg"][:-4]
    if j["kind"] == "mc":
        r = vlib.tlc(j["mod"], j["cfg"], workers=3 if ctx.tier == "quick" else 4, coverage=True, timeout=1500, tag=tag)
    elif j["kind"] == "gen":
        r = vlib.tlc(j["mod"], j["cfg"], workers=2, timeout=900, tag=tag)
    else:
        # TLC generates num behaviours per worker
        r = vlib.tlc(j["mod"], j["cfg"], workers=2, simulate=max(1, j["n"] // 2), depth=j["depth"], seed=ctx.seed, timeout=900, tag=tag)
        for attempt in range(1, 5):
            if r.error or r.violation or not _wanted_missing(j["cfg"], r.cases):
                break
            r2 = vlib.tlc(j["mod"], j["cfg"], workers=2, simulate=max(1, j["n"] // 2), depth=j["depth"], seed=ctx.seed + 7919 * attempt,
                          timeout=900, tag=tag)
            r2.cases = r.cases + r2.cases
            r2.generated += r.generated
            r2.wall += r.wall
            r = r2
    return j, r


def _auto(p):
    return set(s.get("auto", "no") for s in p["steps"]) - {"no"}


def _ratio_events(p):
    """add_item() steps taken with the buffer full and >= GCMin removed items: ('gc', margin) if it collected, ('grow', margin) if
    the ratio of removed to live items was too low and the buffer doubled instead; margin = distance of 5 * removed from live."""
    out = []
    prev = None
    for s in p["steps"]:
        if prev is not None and s["a"] == "add_item" and prev["removed"] >= p["gcmin"]:
            if s["auto"] != "no":
                out.append(("gc", prev["removed"] * 5 - prev["size"]))
            elif s["cap"] > prev["cap"]:
                out.append(("grow", prev["size"] - prev["removed"] * 5))
        prev = s
    return out


def _ratio(p):
    return set(e[0] for e in _ratio_events(p))


def _wanted_missing(cfg, payloads):
    """Simulation is random: which kinds of history a run must have produced (the run is repeated with another seed if not)."""
    if cfg == AUTO_CFG:
        got = set().union(*[_auto(p) for p in payloads]) if payloads else set()
        return {"full", "mid"} - got
    if cfg == RATIO_CFG:
        got = set().union(*[_ratio(p) for p in payloads]) if payloads else set()
        return {"gc", "grow"} - got
    return set()


def _make_cases(ctx, j, payloads, rng):
    """TLC payloads of one run -> replay cases (instantiations are chosen here, outcomes are the spec's)."""
    quick = ctx.tier == "quick"
    fam = j["fam"]
    label = j["cfg"][3:-4]
    if j["cfg"] == AUTO_CFG:
        # keep the histories in which the automatic collection triggers (both ways) and a few others
        full = [p for p in payloads if "full" in _auto(p)]
        mid = [p for p in payloads if "mid" in _auto(p)]
        rest = [p for p in payloads if not _auto(p)]
        cap = (25, 8) if quick else (1500, 150)
        keep = {json.dumps(p, sort_keys=True): p for p in full[:cap[0]] + mid[:cap[0]]}
        for p in rng.sample(rest, min(cap[1], len(rest))):
            keep[json.dumps(p, sort_keys=True)] = p
        payloads = list(keep.values())
    elif j["cfg"] == RATIO_CFG:
        cap = 2 if quick else 60
        # the histories that come closest to the threshold from either side first
        def margin(p, kind):
            return min(m for k, m in _ratio_events(p) if k == kind)
        gc = sorted([p for p in payloads if "gc" in _ratio(p)], key=lambda p: margin(p, "gc"))
        grow = sorted([p for p in payloads if "grow" in _ratio(p)], key=lambda p: margin(p, "grow"))
        payloads = list({json.dumps(p, sort_keys=True): p for p in gc[:cap] + grow[:cap]}.values())
    out = []
    seen = set()
    n = 0
    for p in payloads:
        key = json.dumps(p, sort_keys=True)
        if key in seen:
            continue
        seen.add(key)
        if fam == "xdense":
            variants = ["u32low", "u64low"]
            if n % 4 == 0:
                variants.append("u32mid")
            if n % (4 if quick else 2) == 1:
                variants += ["u32top", "u64big"]
        elif fam == "xsmall":
            variants = ["u64", "u32"]
        elif fam == "xnwr":
            variants = ["small"] if p["kind"] == "small" else (["dense64", "densedefault"] if n % (16 if quick else 4) == 0 else ["dense64"])
        else:
            variants = [""]
        for v in variants:
            c = dict(p, id="x%s-%d%s" % (label, n, "-" + v if v else ""), kind=fam)
            if fam == "xnwr":
                c["settype"] = p["kind"]
            if v:
                c["variant"] = v
            out.append(c)
        n += 1
    return out, n


def _op(c, s):
    k = c["kind"]
    if k in ("xdense", "xsmall"):
        return "%s(%s%s%s)" % (s["a"], s["o"], "," + s["p"] if s["p"] != s["o"] or s["a"] in ("merge_sorted", "copy_assign", "swap") else "",
                               ",%s" % s["x"] if s["a"] in ("check_and_set", "unset", "get", "set", "get_binary_search") else "")
    if k == "xnwr":
        return "%s(%s,%s,%s)" % (s["a"], s["t"], s["via"], s["x"])
    if k == "xrelmap":
        return "%s(%s)" % (s["a"], json.dumps(s["x"], separators=(",", ":"), sort_keys=True))
    return "%s(%s)" % (s["a"], "%sx%s" % (s["x"]["k"], s["x"]["size"]) if s["a"] == "add_item" else s["x"])


def _sig(c, r, build):
    k = r.get("step", -1)
    st = c["steps"][:k + 1] if isinstance(k, int) and 0 <= k < len(c["steps"]) else c["steps"]
    head = c["kind"][1:] + ("/" + c["variant"] if c.get("variant") else "")
    if c["kind"] == "xrelmap":
        head += " phase=%s moved=%s" % (c["phase"], c["moved"])
    note = r.get("note", "")
    if "does not compile" in note:
        return "ext:%s move_assign does not compile" % head
    return "ext:%s%s %s" % (head, " [assertions on]" if build == "assert" else "", " ".join(_op(c, s) for s in st[-8:]))


def _replay(ctx, cases, builds=("ndebug", "assert")):
    bins = prebuild()
    byid = {c["id"]: c for c in cases}

    def one(b):
        t0 = time.time()
        res = vlib.replay_cases(bins[b], cases, timeout=2400, nproc=max(2, vlib.NCPU // len(builds)), env={"VH_CASE_TIMEOUT": "120"})
        vlib.log("[C15ext] %d cases replayed on the %s build in %.1fs" % (len(cases), b, time.time() - t0))
        return res
    for b, res in zip(builds, vlib.parallel(*[(lambda b=b: one(b)) for b in builds])):
        if len(res) != len(cases):
            raise vlib.ModelFailure("ext replay returned %d results for %d cases" % (len(res), len(cases)))
        for r in res:
            if r.get("ok"):
                continue
            c = byid[r["id"]]
            if str(r.get("note", "")).startswith("HARNESS:"):
                raise vlib.ModelFailure("ext harness self-check failed on %s: %s exp=%s got=%s" % (c["id"], r["note"], r.get("exp"), r.get("got")))
            if "crash" in r:
                what = "real object %s (%s build) at step %s: %s" % (r["crash"], b, r.get("step"), r.get("stderr", "")[:700])
            else:
                what = "result differs from the spec at step %s (%s build; %s): exp=%s got=%s" % (
                    r.get("step"), b, r.get("note", ""), json.dumps(r.get("exp"))[:300], json.dumps(r.get("got"))[:300])
            ctx.violation(_sig(c, r, b), {"ext": True, "build": b, "case": c, "result": r}, what)


def _evals(c):
    k = c["kind"]
    n = 0
    pcap, pgcs = c.get("cap0"), 0
    for s in c["steps"]:
        if k == "xdense":
            n += 1 + sum(5 + len(s[v]["iter"]) for v in ("va", "vb") if not s[v]["mv"])
        elif k == "xsmall":
            n += 1 + 2 * 6 + len(s["la"]) + len(s["lb"])
        elif k == "xnwr":
            n += 1 + 3 * 4 + 3
        elif k == "xrelmap":
            n += 4
        else:
            live = [b for b in s["live"] if b["size"]]
            total = sum(b["k"] for b in live)
            moved = s["cap"] != pcap or s["gcs"] != pgcs
            pcap, pgcs = s["cap"], s["gcs"]
            if total <= 20000 or moved or s is c["steps"][-1]:
                n += 4 + total               # every live item resolved and compared
            else:                            # long history, nothing can have moved: a sample of every block
                n += 4 + sum(min(b["k"], 2 + b["k"] // 50) for b in live) + (live[-1]["k"] if s["a"] == "add_item" and live else 0)
    if k == "xrelmap":
        n += (2 if c["phase"] == "both" else 1) * (2 + len(c["probes"]))
    return n


def _steps_seen(cases):
    acts = {}

    def hit(key):
        acts[key] = acts.get(key, 0) + 1
    for c in cases:
        k = c["kind"]
        prev_cap = c.get("cap0")
        prev_step = None
        cleared = False
        for s in c["steps"]:
            hit("%s:%s" % (k, s["a"]))
            if k == "xdense":
                if s["a"] in ("copy_assign", "swap") and s["o"] == s["p"]:
                    hit("xdense:%s:self" % s["a"])
            elif k == "xsmall" and s["a"] == "merge_sorted":
                if s["o"] == s["p"]:
                    hit("xsmall:merge_sorted:self")
            elif k == "xnwr":
                hit("xnwr:%s:%s:%s" % (c["settype"], s["a"], s["via"]) if s["a"] in ("set", "get") else "xnwr:%s:%s" % (c["settype"], s["a"]))
            elif k == "xstash":
                if s["auto"] != "no":
                    hit("xstash:auto:" + s["auto"])
                for kind in (_ratio({"gcmin": c["gcmin"], "steps": [prev_step, s]}) if prev_step is not None else ()):
                    hit("xstash:ratio:" + kind)
                prev_step = s
                if s["cap"] > prev_cap:
                    hit("xstash:growth")
                prev_cap = s["cap"]
                if s["a"] == "clear":
                    cleared = True
                elif s["a"] == "add_item" and cleared:
                    hit("xstash:add_after_clear")
        if k == "xrelmap":
            hit("xrelmap:%s:%s" % (c["phase"], "moved" if c["moved"] else "direct"))
            if not c["steps"]:
                hit("xrelmap:empty_stash")
            if c["steps"] and c["steps"][-1]["n32"] and c["steps"][-1]["n64"]:
                hit("xrelmap:mixed:" + c["phase"])
    return acts


NEED = (["xdense:" + a for a in ("check_and_set", "unset", "get", "clear", "copy_assign", "copy_ctor", "move_ctor", "move_assign", "swap",
                                 "copy_assign:self", "swap:self")] +
        ["xsmall:" + a for a in ("set", "get", "get_binary_search", "sort_unique", "merge_sorted", "merge_sorted:self", "clear", "copy_assign")] +
        ["xnwr:dense:set:call", "xnwr:dense:set:named", "xnwr:dense:get:const_call", "xnwr:dense:unset", "xnwr:dense:clear_all", "xnwr:dense:restore",
         "xnwr:small:set:call", "xnwr:small:set:named", "xnwr:small:get:const_call", "xnwr:small:clear_all", "xnwr:small:restore"] +
        ["xrelmap:add", "xrelmap:add_members", "xrelmap:move_stash", "xrelmap:empty_stash", "xrelmap:mixed:both", "xrelmap:mixed:m2p", "xrelmap:mixed:p2m"] +
        ["xrelmap:%s:%s" % (p, m) for p in ("m2p", "p2m", "both") for m in ("moved", "direct")] +
        ["xstash:add_item", "xstash:remove_item", "xstash:garbage_collect", "xstash:clear", "xstash:add_after_clear", "xstash:growth",
         "xstash:auto:full", "xstash:auto:mid", "xstash:ratio:gc", "xstash:ratio:grow"])


def run_part(ctx):
    quick = ctx.tier == "quick"
    rng = random.Random(ctx.seed + 15)
    jobs = []
    for mod, qcfg, tcfg, label, acts in MC_RUNS:
        jobs.append(dict(kind="mc", mod=mod, cfg=qcfg if quick else tcfg, label=label, acts=acts))
    for mod, cfg, fam, nq, nt, depth in SIM_RUNS:
        jobs.append(dict(kind="sim", mod=mod, cfg=cfg, label=cfg[:-4], fam=fam, n=nq if quick else nt, depth=depth))
    for mod, cfg, fam in GEN_RUNS + ([] if quick else GEN_RUNS_THOROUGH):
        jobs.append(dict(kind="gen", mod=mod, cfg=cfg, label=cfg[:-4], fam=fam))
    t0 = time.time()
    # TLC runs alive at the same time (VERIF_TLC_JOBS lowers it on a shared machine); the harness builds run beside them
    par = int(os.environ.get("VERIF_TLC_JOBS", "0") or "0") or (7 if quick else 5)
    sem = threading.Semaphore(par)

    def job_thunk(j):
        def f():
            with sem:
                return _run_job(ctx, j)
        return f
    out = vlib.parallel(prebuild, *[job_thunk(j) for j in jobs])[1:]
    vlib.log("[C15ext] %d TLC runs + harness builds in %.1fs (slowest: %s)" % (
        len(out), time.time() - t0, ", ".join("%s %.0fs" % (j["cfg"], r.wall) for j, r in sorted(out, key=lambda x: -x[1].wall)[:3])))
    cases = []
    per = {}
    for j, r in out:
        vlib.tlc_ok(r, "ext " + j["label"])
        if j["kind"] == "mc":
            vlib.require_actions(r, j["acts"], "ext " + j["label"])
            ctx.add_tlc(r, "ext I => A exhaustive: " + j["label"] + " (" + j["cfg"] + ")")
            continue
        ctx.add_tlc(r, "ext " + ("all histories (breadth first) " if j["kind"] == "gen" else "simulated histories ") + j["cfg"] +
                    ", invariants checked on every state")
        if not r.cases:
            raise vlib.ModelFailure("ext %s exported no history" % j["cfg"])
        cs, n = _make_cases(ctx, j, r.cases, rng)
        cases += cs
        per[j["label"]] = {"exported": len(r.cases), "histories_replayed": n, "cases": len(cs)}
    _replay(ctx, cases)
    # vacuity of the binding: the interesting steps must occur in what was replayed
    acts = _steps_seen(cases)
    missing = [a for a in NEED if not acts.get(a)]
    if missing:
        raise vlib.ModelFailure("ext: steps never replayed: %s" % missing)
    ctx.traces += 2 * len(cases)
    ctx.evaluations += 2 * sum(_evals(c) for c in cases)
    ctx.nontrivial += len(set((c["kind"], c.get("variant"), json.dumps(c["steps"], sort_keys=True), c.get("phase"), c.get("moved")) for c in cases))
    ctx.rule += ("; ext: a case = one history of calls on two id sets / an nwr_array / a relations stash + builder / an item stash with "
                 "blocks, replayed on the real classes in a build with and a build without the library's assertions (counted as two "
                 "traces); evaluations = values compared with the spec (every live item's content counts as one)")
    seen = set()
    samples = []
    for c in cases:
        if c["kind"] not in seen:
            seen.add(c["kind"])
            d = {k: c[k] for k in c if k != "id"}
            if c["kind"] == "xstash":
                d["steps"] = d["steps"][:6] + ["... %d more" % max(0, len(c["steps"]) - 6)]
            samples.append(d)
    ctx.extra["ext"] = {"histories_per_config": per, "steps_replayed": dict(sorted(acts.items())), "samples": samples}
    ctx.assumptions += [
        "ext/IdSetDense: a moved-from set is unspecified until clear() or an assignment to it (the defaulted move operations leave "
        "m_size behind) and nothing is observed on it; move assignment onto itself is not generated; used_memory() is only bracketed "
        "(allocated chunks <= estimate <= all slots of the chunk vector) and required not to shrink under set/unset/get",
        "ext/IdSetSmall: size() counts duplicates until sort_unique() as documented; used_memory() is only bounded from below; "
        "merge_sorted()/get_binary_search() are only called when their documented precondition (sorted, unique) holds",
        "ext/RelationsMap: id tokens around a 2 bit border stand for 0, 1, 2, 2^32-1, 2^32, 2^32+1, 2^32+2, 2^33-1; add_members() is fed "
        "relations with positive and negative ids alike; no call on a stash after a builder consumed it (documented precondition); "
        "RelationsMap has no used_memory() in this version",
        "ext/ItemStash: an entry of the model is a block of k add_item() calls (1000 or 999 items of 64 bytes plus one filler so that "
        "a block is exactly 64 KiB, or one item of 1 or 5 units); remove_item() is called for all items of a block in one step (in "
        "three different orders); should_gc() runs with its real thresholds; check *2 (more than 5 000 000 removed items) is not reached; "
        "used_memory() must lie within capacity predicted by the spec + 8..16 bytes per handle issued + sizeof(ItemStash) + 64",
    ]


def replay_part(ctx, d):
    c = d["case"]["case"]
    _replay(ctx, [c], builds=(d["case"].get("build", "ndebug"),))
    ctx.traces = 1
    ctx.evaluations = _evals(c)
    ctx.nontrivial = 1
    ctx.states = ctx.transitions = 1
    s = {k: c[k] for k in c if k != "id"}
    if len(json.dumps(s)) > 20000:
        s["steps"] = s["steps"][:4] + ["... %d more" % (len(c["steps"]) - 4)]
    ctx.sample(s)
