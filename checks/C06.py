"""C06 - the parse result is independent of how the input byte stream is chunked.

Specs: specs/Chunking.tla (piece delivery through the parser's input queue + A-layer notion) extended by
LineByLine.tla (OPL `rest` carry-over), PbfRefill.tla (m_input_buffer / ensure_available / pop and the
EOF-vs-truncation rule), O5mRefill.tla (m_input, m_data/m_end, ensure_bytes_available) and XmlFeed.tla
(expat feeding with the final flag).  TLC: for every stream up to the bound and EVERY segmentation the
delivered tokens + verdict equal the A-layer's function of the bytes, and the window invariant holds.
Binding: replay (harness/chunk_replay.cpp): the exported (stream, pieces, expected tokens/verdict) are
materialised as real OPL/PBF/o5m/XML files and read by osmium::io::Reader through a mock Decompressor
that returns exactly those pieces; line_by_line() is additionally driven directly, byte for byte.  The
spec's theorem (result = function of the bytes) is then applied to the repository's fixture files and to
harness-generated files: every single cut, pairs of cuts, fixed sizes, random cut sets, every truncation;
thorough also reads through the real plain/gzip/bzip2 fd decompressors with a lowered piece size."""
import json
import os
import random
import shutil
from concurrent.futures import ThreadPoolExecutor

import vlib

LEVEL = "model_checking"

# development knob: run only some phases (mc, gen, sweep, fd); the default is everything
PARTS = set((os.environ.get("C06_PARTS") or "mc,gen,sweep,fd").split(","))

FIX = os.path.join(vlib.REPO, "test", "t", "io")

ACTIONS = {
    "LineByLine": ["GetInput", "LoopExit", "RestScan", "Scan", "Final"],
    "PbfRefill": ["Fill", "TakeSize", "TakeHdr", "TakeBlob"],
    "O5mRefill": ["Ensure", "Fill", "FillDone", "Cont"],
    "XmlFeed": ["Feed", "LoopExit"],
}

# (module, cfg, label)
MC_QUICK = [
    ("LineByLine", "MCLineByLineQ.cfg", "LineByLine I=>A: all streams <= 5 bytes over {LF,CR,x,b}, every segmentation"),
    ("LineByLine", "MCLineByLineZQ.cfg", "LineByLine I=>A: all streams <= 4 bytes over {LF,CR,x,b,NUL}, every segmentation"),
    ("PbfRefill", "MCPbfRefillQ.cfg", "PbfRefill I=>A: <= 2 frames, header/blob 1..2 bytes, every truncation, every segmentation"),
    ("O5mRefill", "MCO5mRefill.cfg", "O5mRefill I=>A: header 7, varint window 10, <= 2 datasets, every truncation, every segmentation"),
    ("XmlFeed", "MCXmlFeed.cfg", "XmlFeed I=>A: 2..4 elements of 1..3 bytes, every truncation, every segmentation"),
]
MC_THOROUGH = [
    ("PbfRefill", "MCPbfRefill.cfg", "PbfRefill I=>A: <= 3 frames, header/blob 1..2 bytes, every truncation, every segmentation"),
    ("LineByLine", "MCLineByLineT.cfg", "LineByLine I=>A: all streams <= 7 bytes over {LF,CR,x,b}, every segmentation"),
    ("LineByLine", "MCLineByLineZT.cfg", "LineByLine I=>A: all streams <= 6 bytes over {LF,CR,x,b,NUL}, every segmentation"),
    ("PbfRefill", "MCPbfRefillT.cfg", "PbfRefill I=>A: <= 3 frames, header 1..3 / blob 1,3 bytes, every truncation, every segmentation"),
    ("O5mRefill", "MCO5mRefillT.cfg", "O5mRefill I=>A: header 7, varint window 10, <= 2(3) datasets with payload 0..12, every truncation, every segmentation"),
    ("XmlFeed", "MCXmlFeed.cfg", "XmlFeed I=>A: 2..4 elements of 1..3 bytes, every truncation, every segmentation"),
]
# the code as found (before the fix: commits): the same invariants must FAIL - guards against vacuous invariants
DEFECT = [
    ("LineByLine", "MCLineByLineDefect.cfg", "line_by_line as found (NUL-led line counted only via `rest`)"),
    ("O5mRefill", "MCO5mRefillDefect.cfg", "ensure_bytes_available as found (F4: stale m_data/m_end after erase)"),
]
GEN_QUICK = [
    ("LineByLine", "GenLineByLine.cfg", {}),
    ("LineByLine", "GenLineByLineZ.cfg", {}),
    ("PbfRefill", "GenPbfRefill.cfg", {}),
    ("O5mRefill", "GenO5mRefill.cfg", {}),
    ("XmlFeed", "GenXmlFeed.cfg", {}),
]
GEN_THOROUGH = [
    ("LineByLine", "GenLineByLineT.cfg", {}),
    ("LineByLine", "GenLineByLineZT.cfg", {}),
    ("PbfRefill", "GenPbfRefillT.cfg", {}),
    ("O5mRefill", "GenO5mRefillT.cfg", {}),
    ("XmlFeed", "GenXmlFeedT.cfg", {}),
]


def tlc_phase(ctx):
    """Design checks, defect (expected violation) checks and behaviour export, run concurrently."""
    quick = ctx.tier == "quick"
    jobs = []
    if "mc" in PARTS:
        jobs += [("mc", m, c, lab) for m, c, lab in (MC_QUICK if quick else MC_THOROUGH)]
        jobs += [("defect", m, c, lab) for m, c, lab in DEFECT]
    if "gen" in PARTS:
        jobs += [("gen", m, c, "") for m, c, _ in (GEN_QUICK if quick else GEN_THOROUGH)]

    def one(job):
        kind, mod, cfg, lab = job
        big = (not quick) and kind == "mc"
        return job, vlib.tlc(mod, cfg, workers=(8 if big else 3), coverage=(kind == "mc"), timeout=1500 if quick else 3000,
                             tag=cfg[:-4], keep_out=(kind != "gen"), extra=["-noGenerateSpecTE"])

    cases = []
    with ThreadPoolExecutor(max_workers=int(os.environ.get("VERIF_TLC_JOBS", "6") or "6")) as ex:
        for (kind, mod, cfg, lab), r in ex.map(one, jobs):
            if kind == "mc":
                vlib.tlc_ok(r, "design check " + cfg)
                vlib.require_actions(r, ACTIONS[mod], cfg)
                ctx.add_tlc(r, lab)
            elif kind == "defect":
                if r.error:
                    raise vlib.ModelFailure("defect model %s: TLC error: %s" % (cfg, r.error[:2000]))
                if not r.violation:
                    raise vlib.ModelFailure("defect model %s (%s) satisfies the invariants: the invariants are vacuous" % (cfg, lab))
                ctx.extra.setdefault("expected_violations", []).append(
                    {"cfg": cfg, "what": lab, "tlc": r.violation.splitlines()[0][:160]})
            else:
                vlib.tlc_ok(r, "behaviour export " + cfg)
                if not r.cases:
                    raise vlib.ModelFailure("behaviour export %s produced no case" % cfg)
                ctx.add_tlc(r, "export " + cfg + " (%d behaviours)" % len(r.cases))
                tagc = cfg[3:-4]
                for i, c in enumerate(r.cases):
                    c["id"] = "%s-%d" % (tagc, i)
                    cases.append(c)
    return cases


# ------------------------------------------------------------------------------------------------ sweeps

FIXED_Q = [1, 2, 3, 5, 7, 11, 13, 64]
FIXED_T = [1, 2, 3, 5, 7, 11, 13, 17, 31, 64, 1000, 4096]


def fixtures():
    out = []
    for fn in sorted(os.listdir(FIX)):
        p = os.path.join(FIX, fn)
        fmt = None
        if fn.endswith(".opl"):
            fmt = "opl"
        elif fn.endswith(".o5m"):
            fmt = "o5m"
        elif fn.endswith(".pbf"):
            fmt = "pbf"
        elif fn.endswith(".osm") or fn.endswith(".osh"):
            fmt = "osm"
        if fmt:
            out.append((fmt, p, os.path.getsize(p)))
    return out


def sweep_cases(ctx):
    quick = ctx.tier == "quick"
    rnd = random.Random(ctx.seed)
    cases = []

    def add(base, nshards):
        for s in range(nshards):
            c = dict(base, kind="sweep", shard=s, nshards=nshards, seed=rnd.randrange(1, 1 << 30))
            c["id"] = "sweep-%d" % len(cases)
            cases.append(c)

    smallest = {}
    for fmt, path, size in fixtures():
        if fmt not in smallest or size < smallest[fmt][1]:
            smallest[fmt] = (path, size)
    for fmt, path, size in fixtures():
        src = {"fmt": fmt, "path": path}
        # every single cut position, fixed piece sizes, random cut sets
        add(dict(src, plans=["cut1", "fixed", "random"], fixed=FIXED_Q if quick else FIXED_T, nrandom=10 if quick else 200), 2 if size < 600 else 6)
        # every pair of cut positions for small files (quick: the smallest file of each format)
        if size <= 200 and (not quick or smallest[fmt][0] == path):
            add(dict(src, plans=["cut2"]), 8 if size < 130 else 24)
        # every truncation x small fixed sizes (+ every single cut of every truncation for small files)
        if not quick or size <= 250:
            plans = ["fixed", "cut1"] if (size <= 60 or (not quick and size <= 200)) else ["fixed"]
            add(dict(src, trunc="all", plans=plans, fixed=[1, 2, 3, 7]), 4 if size <= 130 else 12)
    # harness-generated files (library Writer for OPL/XML/PBF, own encoder for o5m)
    gens = [("osm", "osm", 6, 2, 2), ("opl", "opl", 6, 2, 2), ("pbf", "pbf", 6, 2, 2), ("pbf", "pbf,pbf_dense_nodes=false,pbf_compression=none", 4, 1, 1)]
    for i, (fmt, gen, nn, nw, nr) in enumerate(gens):
        plans = ["cut1", "fixed", "random"] if (fmt == "pbf" or not quick) else ["fixed", "random"]
        add({"fmt": fmt, "gen": gen, "nn": nn, "nw": nw, "nr": nr, "gseed": ctx.seed + i, "plans": plans,
             "fixed": FIXED_Q, "nrandom": 30 if quick else 300}, 8)
    add({"fmt": "o5m", "gen": "o5m", "k": 25, "gseed": ctx.seed, "trunc": "all", "plans": ["fixed", "random"], "fixed": [1, 2, 3, 7, 11], "nrandom": 3}, 8)
    if not quick:
        for i in range(6):
            add({"fmt": "o5m", "gen": "o5m", "k": 40, "gseed": ctx.seed + 100 + i, "trunc": "all", "plans": ["fixed", "random"],
                 "fixed": [1, 2, 3, 5, 7, 11], "nrandom": 5}, 16)
        # large multi-block files: random cut sequences and fixed sizes
        for i, (fmt, gen) in enumerate((("osm", "osm"), ("opl", "opl"), ("pbf", "pbf"), ("pbf", "pbf,pbf_compression=none"))):
            add({"fmt": fmt, "gen": gen, "nn": 1500, "nw": 300, "nr": 150, "gseed": ctx.seed + 10 + i, "plans": ["fixed", "random"],
                 "fixed": [7, 64, 1000, 4096, 65536], "nrandom": 24}, 16)
        add({"fmt": "o5m", "gen": "o5m", "k": 10000, "gseed": ctx.seed + 5, "plans": ["fixed", "random"], "fixed": [7, 11, 1000, 65536], "nrandom": 24}, 16)
    return cases


def fd_cases(ctx):
    """thorough: the same files through the REAL fd decompressors with a small input_buffer_size"""
    cases = []
    for fmt, path, size in fixtures():
        if fmt == "pbf":
            continue                 # PBF files are read from the fd by the parser itself, not in pieces
        for comp in ("none", "gz", "bz2"):
            c = {"fmt": fmt, "comp": comp, "path": path}
            if comp == "none" and size <= 600:
                c["trunc"] = "all"
            cases.append(c)
            if comp != "none":
                cases.append(dict(c, streams=3))
    for i, (fmt, gen) in enumerate((("osm", "osm"), ("opl", "opl"))):
        for comp in ("none", "gz", "bz2"):
            cases.append({"fmt": fmt, "comp": comp, "gen": gen, "nn": 40, "nw": 10, "nr": 5, "gseed": ctx.seed + i})
    for comp in ("none", "gz", "bz2"):
        cases.append({"fmt": "o5m", "comp": comp, "gen": "o5m", "k": 60, "gseed": ctx.seed})
    for i, c in enumerate(cases):
        c["id"] = "fd-%d" % i
    return cases


# ------------------------------------------------------------------------------------------------ replay

def harness_env():
    tmp = os.path.join(vlib.BUILD, "tmp")
    os.makedirs(tmp, exist_ok=True)
    return {"OSMIUM_POOL_THREADS": "2", "VH_TMP": tmp, "OSMIUM_MAX_INPUT_QUEUE_SIZE": "4096"}


def short(x, n=160):
    s = json.dumps(x, separators=(",", ":"))
    return s if len(s) <= n else s[:n] + "..."


def sig_of(c, r):
    if "mod" in c:
        desc = {"lbl": lambda: "stream=" + "".join(c["stream"]), "pbf": lambda: "frames=%s n=%d" % (short(c["frames"]), c["n"]),
                "o5m": lambda: "ds=%s n=%d" % (short(c["ds"]), c["n"]), "xml": lambda: "els=%s n=%d" % (short(c["els"]), c["n"])}[c["mod"]]()
        return "model %s %s pieces=%s verdict=%s :: %s" % (c["mod"], desc, short(c["pieces"]), c["verdict"], (r.get("note") or r.get("crash") or "")[:100])
    src = os.path.basename(c["path"]) if "path" in c else "gen:%s/%s" % (c["gen"], c.get("gseed"))
    got = r.get("got") if isinstance(r.get("got"), dict) else {}
    if c.get("kind") in ("sweep", "one"):
        return "sweep %s %s n=%s plan=%s :: %s" % (c["fmt"], src, got.get("n", c.get("n")), short(got.get("plan", c.get("plan"))), (r.get("note") or r.get("crash") or "")[:60])
    return "fd %s %s comp=%s streams=%s piece=%s n=%s :: %s" % (c["fmt"], src, c.get("comp"), c.get("streams", 1), c.get("piece"), got.get("n"), (r.get("note") or r.get("crash") or "")[:60])


def narrow(c, r):
    """replay payload: a failing sweep is narrowed to the one failing segmentation"""
    got = r.get("got") if isinstance(r.get("got"), dict) else {}
    if c.get("kind") == "sweep" and "plan" in got:
        n = {k: v for k, v in c.items() if k in ("fmt", "path", "gen", "nn", "nw", "nr", "k", "gseed")}
        n.update(kind="one", id=c["id"] + "-one", n=got.get("n"), plan=got["plan"])
        return n
    return c


def run_cases(ctx, binary, cases, nproc=None, args=()):
    if not cases:
        return 0
    cap = int(os.environ.get("VERIF_REPLAY_PROCS", "0") or "0")
    nproc = nproc or min(32, 2 * vlib.NCPU)
    res = vlib.replay_cases(binary, cases, nproc=min(nproc, cap) if cap else nproc, timeout=3000, env=harness_env(), args=args)
    byid = {c["id"]: c for c in cases}
    if len(res) != len(cases):
        raise vlib.ModelFailure("replay returned %d results for %d cases" % (len(res), len(cases)))
    runs = 0
    by = ctx.extra.setdefault("reader_runs_by_case_kind", {})
    for r in res:
        runs += int(r.get("runs", 0))
        c = byid[r["id"]]
        k = ("model " + c["mod"]) if "mod" in c else "%s %s %s%s" % (c.get("kind", "fd"), c["fmt"], "+".join(c.get("plans", [])) or c.get("comp", ""),
                                                                  " x every prefix" if c.get("trunc") == "all" else "")
        by[k] = by.get(k, 0) + int(r.get("runs", 0))
        if r.get("ok"):
            continue
        if "crash" in r:
            what = "real parser %s at step %s: %s" % (r["crash"], r.get("step"), r.get("stderr", "")[:700])
        elif r.get("step") == -1 and "harness:" in (r.get("note") or ""):
            raise vlib.ModelFailure("harness failure on case %s: %s" % (short(c, 400), r.get("note")))
        else:
            what = "%s: exp=%s got=%s" % (r.get("note", ""), short(r.get("exp"), 500), short(r.get("got"), 500))
        ctx.violation(sig_of(c, r), {"case": narrow(c, r), "result": r, "binary": os.path.basename(binary).split("-")[0]}, what)
    return runs


FD_SIZES = (1, 7)


def build_all(ctx):
    specs = [dict(name="chunk_replay", src="chunk_replay.cpp", flags=["-g1"])]
    if ctx.tier != "quick" and "fd" in PARTS:
        for k in FD_SIZES:
            specs.append(dict(name="chunk_replay_fd%d" % k, src="chunk_replay.cpp", flags=["-g1", "-DCHUNK_FD", "-DOSMIUM_VERIF_INPUT_BUFFER_SIZE=%d" % k]))
    par = int(os.environ.get("VERIF_BUILD_JOBS", "3") or "3")
    if par >= len(specs):
        return vlib.build_many(specs)
    return [vlib.build(**sp) for sp in specs]


def run(ctx):
    quick = ctx.tier == "quick"
    with ThreadPoolExecutor(max_workers=2) as ex:
        fb = ex.submit(build_all, ctx)          # cold sanitizer build overlaps with TLC
        ft = ex.submit(tlc_phase, ctx)
        model_cases = ft.result()
        bins = fb.result()
    if quick and len(model_cases) > 14000:      # keep the quick tier bounded: seeded sub-sample per module
        rnd = random.Random(ctx.seed)
        rnd.shuffle(model_cases)
        model_cases = model_cases[:14000]
    # group behaviours of the same stream so that the harness' one-piece cache hits
    model_cases.sort(key=lambda c: (c["mod"], json.dumps([c.get("stream"), c.get("frames"), c.get("ds"), c.get("els"), c.get("n")])))
    nproc = min(32, 2 * vlib.NCPU)
    if int(os.environ.get("VERIF_REPLAY_PROCS", "0") or "0"):
        nproc = min(nproc, int(os.environ["VERIF_REPLAY_PROCS"]))
    per = (len(model_cases) + nproc - 1) // nproc
    # replay_cases shards round-robin; re-order so that each shard gets a contiguous block
    order = [model_cases[j * per + i] for i in range(per) for j in range(nproc) if j * per + i < len(model_cases)]
    import time
    t0 = time.time()
    vlib.log("[C06] TLC + build done after %.0fs; replaying %d exported behaviours" % (t0 - ctx.t0, len(order)))
    runs = run_cases(ctx, bins[0], order, nproc=nproc)
    sw = sweep_cases(ctx) if "sweep" in PARTS else []
    if os.environ.get("C06_SWEEP_SLICE"):                     # development: "i/m" runs every m-th sweep shard
        i, m = [int(x) for x in os.environ["C06_SWEEP_SLICE"].split("/")]
        sw = sw[i::m]
    t1 = time.time()
    vlib.log("[C06] model replay %.0fs (%d Reader runs); %d sweep shards" % (t1 - t0, runs, len(sw)))
    sruns = run_cases(ctx, bins[0], sw, nproc=48)
    vlib.log("[C06] sweeps %.0fs (%d segmentations)" % (time.time() - t1, sruns))
    fruns = 0
    fdc = []
    if not quick and "fd" in PARTS:
        for k, b in zip(FD_SIZES, bins[1:]):
            fc = [dict(c, piece=k, id="%s-p%d" % (c["id"], k)) for c in fd_cases(ctx)]
            fdc += fc
            fruns += run_cases(ctx, b, fc)
    # the driver writes replay files for the first 20 violations only: interleave the kinds so that every kind is represented
    groups = {}
    for v in ctx.violations:
        groups.setdefault(" ".join(v[0].split()[:2]), []).append(v)
    inter = []
    while any(groups.values()):
        for k in sorted(groups):
            if groups[k]:
                inter.append(groups[k].pop(0))
    ctx.violations[:] = inter
    ctx.traces = len(model_cases) + sruns + fruns
    ctx.evaluations = runs + sruns + fruns
    ctx.nontrivial = len(set(json.dumps([c.get(k) for k in ("mod", "stream", "frames", "ds", "els", "n", "pieces")]) for c in model_cases)) + sruns
    ctx.rule = ("a model case = (stream description, piece lengths chosen by TLC, tokens + verdict derived by the spec), distinct by that tuple; "
                "a sweep case = one segmentation of (a prefix of) a real file compared with its one-piece run; evaluations = Reader runs")
    per_mod = {}
    for c in model_cases:
        per_mod[c["mod"]] = per_mod.get(c["mod"], 0) + 1
    seen = set()
    for c in model_cases:
        if c["mod"] not in seen and c["pieces"] and len(c["pieces"]) > 1:
            seen.add(c["mod"])
            ctx.sample({k: c[k] for k in c if k != "id"})
    if sw:
        ctx.sample({k: sw[0][k] for k in sw[0] if k != "id"})
    ctx.extra["model_cases_per_module"] = per_mod
    ctx.extra["sweep_segmentations"] = sruns
    ctx.extra["fd_decompressor_runs"] = fruns
    ctx.extra["sweep_sources"] = len(set((c.get("path") or c.get("gen"), c.get("gseed")) for c in sw))
    ctx.assumptions = [
        "expat is an environment module: its result depends only on the concatenation of the data passed, final flagged once at the end (not modelled further)",
        "PBF/XML model bytes map proportionally onto the fields of real files (4 byte length 1:1); OPL model bytes map to whole OPL fragments; o5m is byte for byte with the real header length 7 and max_varint_length 10",
        "on errors only the error class/message and (PBF) the blobs completed before it are compared with the spec; everything else with the one-piece run of the same bytes",
        "CPU contention on the shared box inflates wall time (the Reader runs are thread hand-offs, latency bound)",
    ]
    shutil.rmtree(os.path.join(vlib.BUILD, "tmp"), ignore_errors=True)


def replay(ctx, path):
    with open(path) as fh:
        d = json.load(fh)
    c = d["case"]["case"]
    which = d["case"].get("binary", "chunk_replay")
    if which == "chunk_replay":
        binary = vlib.build("chunk_replay", "chunk_replay.cpp", flags=["-g1"])
    else:
        k = int(which.replace("chunk_replay_fd", ""))
        binary = vlib.build(which, "chunk_replay.cpp", flags=["-g1", "-DCHUNK_FD", "-DOSMIUM_VERIF_INPUT_BUFFER_SIZE=%d" % k])
    ctx.evaluations = run_cases(ctx, binary, [c], nproc=1)
    ctx.traces = 1
    ctx.nontrivial = 1
    ctx.states = ctx.transitions = 1
    ctx.sample({k: c[k] for k in c if k != "id"})


def selftest(ctx):
    """Binding self-test: (1) the pre-fix models must violate the invariants; (2) behaviours whose expected
    tokens / verdict were corrupted must be rejected by the replay on the real code."""
    for mod, cfg, lab in DEFECT:
        r = vlib.tlc(mod, cfg, workers=4, tag="st_" + cfg[:-4], extra=["-noGenerateSpecTE"])
        if r.error or not r.violation:
            vlib.log("SELFTEST FAILED: %s did not violate the invariants" % cfg)
            return 2
        vlib.log("selftest: %s violates %s as expected" % (cfg, r.violation.splitlines()[0]))
    binary = vlib.build("chunk_replay", "chunk_replay.cpp", flags=["-g1"])
    bad = []
    for mod, cfg in (("O5mRefill", "GenO5mRefill.cfg"), ("LineByLine", "GenLineByLine.cfg"), ("PbfRefill", "GenPbfRefill.cfg"), ("XmlFeed", "GenXmlFeed.cfg")):
        r = vlib.tlc_ok(vlib.tlc(mod, cfg, workers=4, tag="st_" + cfg[:-4]), cfg)
        picked = [c for c in r.cases if c["verdict"] == "ok" and len(c["pieces"]) > 1 and (c.get("out") or c.get("lines"))
                  and (c["mod"] != "pbf" or len(c["out"]) >= 2)][:40]          # the header frame alone delivers no object
        for i, c in enumerate(picked):
            c = json.loads(json.dumps(c))
            if i % 2 == 0:
                c["verdict"] = {"lbl": "bad", "pbf": "truncated", "o5m": "premature", "xml": "xmlerror"}[c["mod"]]
            elif c["mod"] == "lbl":
                c["lines"] = c["lines"][:-1]
                c["starts"] = c["starts"][:-1]
            else:
                c["out"] = c["out"][:-2] if c["mod"] == "xml" else c["out"][:-1]
            c["id"] = "st-%s-%d" % (c["mod"], i)
            bad.append(c)
    res = vlib.replay_cases(binary, bad, nproc=8, env=harness_env())
    accepted = [r["id"] for r in res if r.get("ok")]
    if accepted or len(res) != len(bad):
        vlib.log("SELFTEST FAILED: corrupted behaviours accepted by the replay: %s" % accepted[:10])
        return 2
    vlib.log("selftest: all %d corrupted behaviours were rejected by the replay" % len(bad))
    return 0
