"""C16 - object orderings are strict weak orders; CheckOrder agrees.
Spec: specs/ObjectOrder.tla.  Design check: laws over triples (TLC), CheckOrder I-layer vs
A-layer for unbounded streams.  Binding: TLC exports the full comparison matrix and every
CheckOrder sequence; harness/order_replay.cpp evaluates them on real objects."""
import json
import vlib

LEVEL = "model_checking"


def gen_cases(ctx):
    cases = []
    quick = ctx.tier == "quick"
    seqcfgs = ["GenObjectOrderSeq3.cfg"] if quick else ["GenObjectOrderSeq4.cfg", "GenObjectOrderSeq3v2.cfg"]
    jobs = [lambda: vlib.tlc("ObjectOrder", "MCObjectOrderChk.cfg", coverage=True, workers=4),
            lambda: vlib.tlc("ObjectOrder", "MCObjectOrderLaws.cfg" if quick else "MCObjectOrderLawsT.cfg", timeout=3000, workers=8),
            lambda: vlib.tlc("ObjectOrder", "GenObjectOrderRows.cfg", workers=6),
            lambda: vlib.build("order_replay", "order_replay.cpp")]
    jobs += [(lambda cfg=cfg: vlib.tlc("ObjectOrder", cfg, workers=4)) for cfg in seqcfgs]
    res = vlib.parallel(*jobs)
    r = vlib.tlc_ok(res[0], "CheckOrder design check")
    vlib.require_actions(r, ["NextChk"], "CheckOrder design check")
    ctx.add_tlc(r, "CheckOrder I-layer = A-layer (unbounded streams over 27 (type,id) pairs)")
    r = vlib.tlc_ok(res[1], "ordering laws")
    ctx.add_tlc(r, "pair+triple laws (doc = impl, irreflexive, asymmetric, transitive, incomparability transitive, consistency)")
    r = vlib.tlc_ok(res[2], "matrix export")
    if len(r.cases) != 648:
        raise vlib.ModelFailure("expected 648 matrix rows, got %d" % len(r.cases))
    ctx.add_tlc(r, "comparison matrix export (648 x 648)")
    for row in r.cases:
        cases.append({"id": "row%d" % row["a"], "kind": "row", "a": row["a"], "obj": row["obj"], "row": row["row"]})
    for cfg, rr in zip(seqcfgs, res[4:]):
        r = vlib.tlc_ok(rr, "sequence export " + cfg)
        ctx.add_tlc(r, "CheckOrder sequence export " + cfg)
        for i, h in enumerate(r.cases):
            cases.append({"id": "seq-%s-%d" % (cfg[14:-4], i), "kind": "seq", "steps": h})
    return cases


def run_cases(ctx, cases):
    binary = vlib.build("order_replay", "order_replay.cpp")
    res = vlib.replay_cases(binary, cases)
    byid = {c["id"]: c for c in cases}
    pairs = 0
    for r in res:
        c = byid[r["id"]]
        if c["kind"] == "row":
            pairs += len(c["row"])
        if not r.get("ok"):
            if c["kind"] == "row":
                sig = "row a=%s step=%s" % (json.dumps(c["obj"], sort_keys=True), r.get("step"))
            else:
                sig = "seq " + json.dumps([[s["t"], s["id"], s["v"]] for s in c["steps"]])
            ctx.violation(sig, {"case": c, "result": r},
                          "real comparators / CheckOrder disagree with ObjectOrder.tla: %s" % json.dumps(r)[:500])
    if len(res) != len(cases):
        raise vlib.ModelFailure("replay returned %d results for %d cases" % (len(res), len(cases)))
    return pairs


def run(ctx):
    cases = gen_cases(ctx)
    pairs = run_cases(ctx, cases)
    nseq = sum(1 for c in cases if c["kind"] == "seq")
    ctx.traces = len(cases)
    ctx.evaluations = pairs + nseq
    ctx.nontrivial = pairs + nseq
    ctx.exhaustive = True
    ctx.rule = ("every ordered pair of the 648-object grid (3 types x 9 ids x 4 versions x 3 timestamps x visible) "
                "x 3 call variants (reference, pointer, operators) = distinct by construction; every CheckOrder "
                "sequence (pruned at first rejection) of the exported length over 27 (type,id) pairs; each accepted "
                "sequence additionally sorted from every permutation with 3 comparators")
    for c in cases:
        if c["kind"] == "seq" and len(ctx.samples) < 3:
            ctx.sample(c)
    ctx.sample({"kind": "row", "a": cases[5]["a"], "obj": cases[5]["obj"], "row_prefix": cases[5]["row"][:24]})
    ctx.extra["pairs_compared"] = pairs
    ctx.extra["sequences_replayed"] = nseq
    ctx.assumptions = ["ids/versions/timestamps are rank tokens; the harness maps them to INT64_MIN+1,-2^32,-2,-1,0,1,2,2^32,"
                       "INT64_MAX / 0,1,2,2^31-1 / unset,1,2^32-1",
                       "triple laws are proved on the spec for the grid; the code is bound through the complete pair matrix"]


def replay(ctx, path):
    with open(path) as fh:
        d = json.load(fh)
    c = d["case"]["case"]
    run_cases(ctx, [c])
    ctx.evaluations = 1
    ctx.nontrivial = 2
    ctx.states = ctx.transitions = 1
    ctx.sample(c if c["kind"] == "seq" else {"kind": "row", "a": c["a"]})
