"""C10 - assembled areas are valid multipolygons that cover exactly the input's region.

Spec: specs/AreaGrid.tla.  A-layer: exact integer geometry on a small grid (segments mod 2, Crosses/Overlaps,
ValidArrangement, even-odd Region on generic sample points, Judge = the oracle for an observed result).  I-layer:
the case builder (catalogue rings -> damaged or undamaged segment bag -> every drawing of the bag as ways x roles).
Design check (TLC, exhaustive for small constants): the drawing conserves the segment bag, the verdict is a
function of the drawn ways, the fill is ray-independent / XOR of the rings / invariant under cancellation, Judge
accepts the reference answer for vertex-disjoint rings and rejects spoiled ones.
Binding: TLC exports cases with their expected verdict (simulation of the builder); harness/area_replay.cpp runs
the real osmium::area::Assembler (way entry, relation entry, MultipolygonManager; several configs and embeddings of
the grid into Locations) and logs the rings; the log goes back to TLC (specs/AreaGridTrace.tla), which evaluates
Judge per run and invariance within each group of cases over the same segment set.  No geometry in this file."""
import json
import os
import random
from concurrent.futures import ThreadPoolExecutor

import vlib

LEVEL = "model_checking"

BUILDER_ACTIONS = ["Start", "PickKind", "PickShape", "PickMut", "ApplyMut", "Expect", "Style", "StartWay", "Extend",
                   "Stutter", "Finish", "Roles"]
RUNDIR = os.path.join(vlib.BUILD, "run", "C10")


def caps():
    cap = int(os.environ.get("VERIF_TLC_WORKERS", "0") or "0")
    return cap


def par_jvms():
    """number of TLC processes run side by side and workers for each"""
    cap = caps()
    if cap:
        return 2, max(1, cap)
    return 4, 4


# ------------------------------------------------------------------------------------------- TLC jobs

CAT3 = ("MCAreaGridCat3.cfg", "A-layer theorems + Judge accepts reference / rejects spoiled for every trapezoid / slanted quadrilateral / "
                              "triangle (both orientations) and every rectangle with subdivided edges on G=3", False)


def design_jobs(ctx):
    quick = ctx.tier == "quick"
    if quick:
        return [("MCAreaGridDraw.cfg", "builder: every drawing of a triangle (G=1), all mutations: bag conserved, verdict is a "
                                       "function of the ways", True),
                ("MCAreaGridThm2.cfg", "A-layer theorems, all pairs of rect/tri/dia/dense rect on G=2", False),
                ("MCAreaGridThm3.cfg", "A-layer theorems + Judge accepts reference / rejects spoiled, all pairs of rect/dia on G=3", False),
                ("MCAreaGridTile.cfg", "tiling theorem: chains of 2 and 3 copies of every motif of <= 2 rings (kite/dia) on G=4", False),
                CAT3]
    return [("MCAreaGridDrawT.cfg", "builder: every drawing of the unit square and the triangles (G=1), all styles/mutations", True),
            ("MCAreaGridThm2.cfg", "A-layer theorems, all pairs of rect/tri/dia/dense rect on G=2", False),
            ("MCAreaGridThm3T.cfg", "A-layer theorems + Judge accepts reference / rejects spoiled, all pairs of rect/dia/L on G=3", False),
            ("MCAreaGridThm7.cfg", "A-layer theorems + Judge reference on chains of up to 4 nested rectangles (hole in island) on G=7", False),
            ("MCAreaGridTile.cfg", "tiling theorem: chains of 2 and 3 copies of every motif of <= 2 rings (kite/dia) on G=4", False),
            CAT3]


def export_plan(ctx):
    """(cfg, behaviours, tag); every behaviour yields Drawings (= 4; deep nesting 3, tiles 2, hole over island 2 (G=8: 3)) cases"""
    plan = export_plan_full(ctx)
    scale = float(os.environ.get("VERIF_C10_SCALE", "1") or "1")      # development only: fewer behaviours
    return [(cfg, max(8, int(n * scale)), tag) for cfg, n, tag in plan]


def export_plan_full(ctx):
    if ctx.tier == "quick":
        return [("GenAreaGrid4.cfg", 230, "g4"), ("GenAreaGrid4N.cfg", 130, "g4n"), ("GenAreaGrid4T.cfg", 130, "g4t"),
                ("GenAreaGrid7N.cfg", 70, "g7n"), ("GenAreaGridTile4.cfg", 40, "tile4"), ("GenAreaGridIsle7.cfg", 160, "isle7")]
    return [("GenAreaGrid4.cfg", 2600, "g4"), ("GenAreaGrid4N.cfg", 1500, "g4n"), ("GenAreaGrid4T.cfg", 1500, "g4t"),
            ("GenAreaGrid5.cfg", 1200, "g5"), ("GenAreaGrid5N.cfg", 800, "g5n"), ("GenAreaGrid5T.cfg", 800, "g5t"),
            ("GenAreaGrid7N.cfg", 600, "g7n"), ("GenAreaGridTile4.cfg", 200, "tile4"),
            ("GenAreaGridIsle7.cfg", 1500, "isle7"), ("GenAreaGridIsle8.cfg", 300, "isle8")]


def run_tlc_jobs(ctx):
    """design checks and case exports side by side (independent TLC processes); returns {tag: TlcResult of the export}"""
    rnd = random.Random(ctx.seed)
    nj, nw = par_jvms()
    jobs = [("mc", j) for j in design_jobs(ctx)] + [("gen", j + (rnd.randrange(1, 1 << 30),)) for j in export_plan(ctx)]

    def one(job):
        kind, j = job
        if kind == "mc":
            cfg, lab, cov = j
            return job, vlib.tlc("AreaGrid", cfg, workers=nw, coverage=cov, timeout=1500, tag=cfg[:-4])
        cfg, traces, tag, seed = j
        per = max(1, (traces + nw - 1) // nw)
        return job, vlib.tlc("AreaGrid", cfg, workers=nw, simulate=per, depth=600, seed=seed, timeout=1500,
                             tag="gen_" + tag, keep_out=False)
    exports = {}
    with ThreadPoolExecutor(max_workers=nj) as ex:
        for (kind, j), r in ex.map(one, jobs):
            if kind == "mc":
                cfg, lab, cov = j
                vlib.tlc_ok(r, "AreaGrid design check " + cfg)
                if cov:
                    vlib.require_actions(r, BUILDER_ACTIONS, "AreaGrid " + cfg)
                ctx.add_tlc(r, lab)
            else:
                cfg, traces, tag, seed = j
                vlib.tlc_ok(r, "AreaGrid case export " + cfg)
                if not r.cases:
                    raise vlib.ModelFailure("case export %s produced no case" % cfg)
                ctx.add_tlc(r, "case export %s (simulation of the case builder, seed %d)" % (cfg, seed))
                exports[tag] = r.cases
    return exports


def seg_key(c):
    return json.dumps(sorted(c["segs"]))


def decorate(ctx, raw, prefix):
    """ids, groups (same G and same segment set mod 2), variants."""
    groups = {}
    cases = []
    seen = set()
    for c in raw:
        key = (c["G"], seg_key(c))
        ident = json.dumps([c["G"], c["ways"], c["roles"]])
        if ident in seen:
            continue
        seen.add(ident)
        g = groups.setdefault(key, len(groups) + 1)
        cases.append({"id": "%s-%d" % (prefix, len(cases)), "grp": "%s-%d" % (prefix, g), "G": c["G"], "ways": c["ways"],
                      "roles": c["roles"], "exp": c["exp"], "mut": c["mut"], "style": c["style"], "nrings": len(c["rings"])})
    return cases


EMB = "abcde"


def variants_for(c, k, thorough):
    """which entry points / configs / embeddings / id schemes a case is run with"""
    single = len(c["ways"]) == 1
    vs = ["rel/pr/%s/s" % EMB[k % 5], "rel/def/%s/%s" % (EMB[(k + 1) % 5], "su"[k % 2])]
    if k % 3 == 0:
        vs.append("rel/ne/%s/s" % EMB[(k + 2) % 5])
    if k % 4 == 1:
        vs.append("rel/prne/%s/u" % EMB[(k + 3) % 5])
    if k % 5 == 2:
        vs.append("mgr/pr/%s/%s" % (EMB[(k + 4) % 5], "su"[(k // 5) % 2]))
    if k % 7 == 3:
        vs.append("rel/kt/%s/s" % EMB[(k + 2) % 5])
    if single:
        vs += ["way/pr/%s/s" % EMB[(k + 2) % 5], "way/def/%s/u" % EMB[(k + 3) % 5]]
        if k % 2 == 0:
            vs.append("mgr/def/%s/s" % EMB[(k + 4) % 5])
        if k % 3 == 1:
            vs.append("way/ne/%s/s" % EMB[k % 5])
    if thorough:
        for e in EMB:
            v = "rel/def/%s/s" % e
            if v not in vs:
                vs.append(v)
    return vs


# ------------------------------------------------------------------------------------------- real runs

def run_real(ctx, cases):
    binary = vlib.build("area_replay", "area_replay.cpp", opt="-O0")
    inp = [{"id": c["id"], "ways": c["ways"], "roles": c["roles"], "variants": c["variants"],
            **({"tile": {"n": c["tile"]["n"], "dx": c["tile"]["dx"]}} if "tile" in c else {})} for c in cases]
    # per-case watchdog: the assembler's ring joining is exponential for some chains (finding F10b); without it one such
    # case costs the whole shard's time limit several times over
    res = vlib.replay_cases(binary, inp, timeout=1800, nproc=min(8, vlib.NCPU), env={"VH_CASE_TIMEOUT": "30"})
    if len(res) != len(cases):
        raise vlib.ModelFailure("harness returned %d results for %d cases" % (len(res), len(cases)))
    return {r["id"]: r for r in res}


def records_of(c, r):
    """one record per distinct ring set that was observed, with the distinct runs (entry point / config class / return
    value / counters) that produced it; identical observations of several variants are judged once"""
    single = len(c["ways"]) == 1 and "tile" not in c
    recs = {}
    for run in r["runs"]:
        entry, cfg, emb, ids = run["v"].split("/")
        mgr = entry == "mgr"
        obs = {"entry": "way" if (entry == "way" or (mgr and single)) else "rel", "mgr": mgr,
               "pr": cfg in ("pr", "prne"), "ne": cfg in ("ne", "prne"), "ret": run["ret"], "area": run["area"],
               "st": run["st"], "rep": {k: v for k, v in run["rep"].items() if k != "on"}, "why": run.get("why", "")}
        rec = recs.setdefault(json.dumps(run["rings"]), {"rings": run["rings"], "runs": {}, "variants": []})
        rec["runs"].setdefault(json.dumps(obs, sort_keys=True), obs)
        rec["variants"].append(run["v"])
    out = []
    for x in recs.values():
        rec = {"id": c["id"], "grp": c["grp"], "G": c["G"], "ways": c["ways"], "roles": c["roles"], "exp": c["exp"],
               "rings": x["rings"], "runs": list(x["runs"].values()), "variants": x["variants"]}
        if "tile" in c:
            rec["tile"] = c["tile"]
        out.append(rec)
    return out


# ------------------------------------------------------------------------------------------- the oracle (TLC)

def judge(ctx, records, tag):
    """records (all of one G) -> list of (record, fails) as decided by TLC on AreaGridTrace"""
    os.makedirs(RUNDIR, exist_ok=True)
    # same group adjacent, same observation kind adjacent inside a group (invariance compares neighbours)
    records.sort(key=lambda r: (r["grp"], r["id"]))
    # the trace spec is a linear counter: parallelism = several single-worker TLC processes on separate files
    nj = 2 if caps() else max(2, vlib.NCPU // 2)
    batch = max(150, min(3000, (len(records) + nj - 1) // nj))
    # never split a group over two batches
    batches, cur = [], []
    for i, r in enumerate(records):
        if len(cur) >= batch and records[i - 1]["grp"] != r["grp"]:
            batches.append(cur)
            cur = []
        cur.append(r)
    if cur:
        batches.append(cur)

    def one(bi):
        b = batches[bi]
        path = os.path.join(RUNDIR, "%s_%d_%d.ndjson" % (tag, os.getpid(), bi))
        with open(path, "w") as fh:
            for r in b:
                fh.write(json.dumps({k: v for k, v in r.items() if k != "variants"}, separators=(",", ":")) + "\n")
        res = vlib.tlc("AreaGridTrace", "AreaGridTrace.cfg", workers=1, env={"TRACE": path}, timeout=1700, java_opts=["-Xmx3g"],
                       tag="%s_%d" % (tag, bi), keep_out=False)
        vlib.tlc_ok(res, "AreaGridTrace " + tag)
        if len(res.cases) != len(b):
            raise vlib.ModelFailure("AreaGridTrace judged %d of %d lines of %s" % (len(res.cases), len(b), path))
        os.unlink(path)
        return [(b[v["i"] - 1], v["fails"]) for v in res.cases], res

    out = []
    with ThreadPoolExecutor(max_workers=nj) as ex:
        for verdicts, res in ex.map(one, range(len(batches))):
            out += verdicts
            ctx.states += res.distinct
            ctx.transitions += res.generated
    return out


def klass(c):
    e = c["exp"]
    if e["valid"]:
        return "valid/touch%d" % min(e["ntouch"], 3)
    return "empty" if e["empty"] else ("cross" if e["ncross"] else "open")


def signature(rec, fails):
    """failing requirement(s), the library's own explanation of a silent rejection (label logged by the harness), chain, input"""
    why = ",".join(sorted(set(r["why"] for r in rec["runs"] if r.get("why")))) or "-"
    tile = ("n%d/touch%d" % (rec["tile"]["n"], rec["tile"]["ntouch"])) if "tile" in rec else "-"
    return "fails=%s why=%s tile=%s ways=%s roles=%s" % (",".join(sorted(fails)), why, tile, json.dumps(rec["ways"], separators=(",", ":")),
                                                         json.dumps(rec["roles"], separators=(",", ":")))


def process(ctx, cases, tag):
    """real runs + TLC verdicts for a list of decorated cases; records violations; returns #records"""
    res = run_real(ctx, cases)
    byg = {}
    for c in cases:
        r = res[c["id"]]
        if not r.get("ok") or "crash" in r:
            what = ("real assembler %s: %s" % (r.get("crash", "failed"), (r.get("stderr") or r.get("note") or "")[:700]))
            tile = ("tile=n%d/touch%d motif_rings=%d " % (c["tile"]["n"], c["tile"]["ntouch"], c.get("nrings", 0))) if "tile" in c else ""
            if "crash" not in r and str(r.get("note", "")).startswith("hang"):
                r["crash"] = "timeout"                 # reported by the harness's own per-case watchdog
            ctx.violation("harness %s %sways=%s roles=%s" % (r.get("crash", "exception"), tile, json.dumps(c["ways"], separators=(",", ":")),
                                                             json.dumps(c["roles"])), {"case": c, "result": r}, what)
            continue
        for rec in records_of(c, r):
            byg.setdefault(c["G"], []).append(rec)
    n = 0
    for g, recs in sorted(byg.items()):
        for rec, fails in judge(ctx, recs, "%s_g%d" % (tag, g)):
            n += 1
            if fails:
                what = ("result of the real Assembler violates %s (variants %s): expected %s; got rings=%s runs=%s" % (
                    sorted(fails), rec["variants"][:4], json.dumps({k: v for k, v in rec["exp"].items() if k != "region"}),
                    json.dumps(rec["rings"], separators=(",", ":"))[:500], json.dumps(rec["runs"], separators=(",", ":"))[:700]))
                case = next(c for c in cases if c["id"] == rec["id"])
                grp = [c for c in cases if c["grp"] == rec["grp"]] if "invariance" in fails else [case]
                ctx.violation(signature(rec, fails), {"cases": grp, "variants": rec["variants"], "fails": sorted(fails)}, what)
    return n


def tile_cases(ctx, raw, prefix):
    """a motif exported with its chain lengths -> one case per (motif drawing, chain length)"""
    quick = ctx.tier == "quick"
    cases, seen = [], set()
    motifs = {}
    for c in raw:
        ident = json.dumps([c["ways"], c["roles"]])
        if ident in seen:
            continue
        seen.add(ident)
        mk = seg_key(c)
        motifs.setdefault(mk, 0)
        motifs[mk] += 1
        tiles = sorted(c["tiles"], key=lambda t: t["n"])
        if quick:
            # every motif with its longest chain once, the other drawings with short chains
            tiles = [tiles[-1], tiles[1 % len(tiles)]] if motifs[mk] == 1 else tiles[:2]
        for t in tiles:
            cases.append({"id": "%s-%d" % (prefix, len(cases)), "grp": "%s-%d" % (prefix, len(cases)), "G": c["G"], "ways": c["ways"],
                          "roles": c["roles"], "exp": c["exp"], "mut": c["mut"], "style": c["style"], "nrings": len(c["rings"]),
                          "tile": {"n": t["n"], "dx": t["dx"], "ntouch": t["ntouch"]},
                          "variants": ["rel/pr/a/s", "rel/def/c/u", "rel/ne/b/s", "mgr/def/e/s"]})
    return cases


def run(ctx):
    quick = ctx.tier == "quick"
    with ThreadPoolExecutor(max_workers=1) as bex:
        bfut = bex.submit(lambda: vlib.build("area_replay", "area_replay.cpp", opt="-O0"))      # compile while TLC runs
        exports = run_tlc_jobs(ctx)
        bfut.result()
    allcases = []
    for tag, raw in sorted(exports.items()):
        if tag.startswith("tile"):
            allcases += tile_cases(ctx, raw, tag)
            continue
        cases = decorate(ctx, raw, tag)
        for k, c in enumerate(cases):
            c["variants"] = variants_for(c, k, not quick and k % 10 == 0)
        allcases += cases
    nrec = process(ctx, allcases, "main")
    ctx.traces = len(allcases)
    ctx.evaluations = nrec
    ctx.nontrivial = len(set(json.dumps([c["G"], c["ways"], c["roles"], c.get("tile")]) for c in allcases))
    kl = {}
    for c in allcases:
        k = ("tiled/" if "tile" in c else "") + klass(c)
        kl[k] = kl.get(k, 0) + 1
    ctx.extra["cases_by_expected_class"] = kl
    ctx.extra["groups"] = len(set(c["grp"] for c in allcases))
    ctx.extra["real_runs"] = sum(len(c["variants"]) for c in allcases)
    ctx.extra["max_touching_points"] = max([c["tile"]["ntouch"] for c in allcases if "tile" in c] + [0])
    ctx.extra["with_inner_rings"] = ctx.extra.get("with_inner_rings", 0)
    ctx.rule = ("a case = (ways as point paths, member roles[, chain length]) exported by TLC with its expected verdict; distinct by "
                "that tuple; evaluations = distinct observed ring sets judged by TLC (each with all runs that produced it)")
    seen = set()
    for c in allcases:
        k = ("tiled/" if "tile" in c else "") + klass(c)
        if k not in seen:
            seen.add(k)
            ctx.sample({k2: c[k2] for k2 in ("G", "ways", "roles", "exp", "variants", "tile") if k2 in c}, cap=10)
    ctx.assumptions = [
        "grid 0..G (G=4, thorough also 5; G=7 for chains of up to 4 nested rectangles), <= 3 (4) catalogue rings and <= 26 segments "
        "per case; scripted family 'hole over island' (G=7, thorough also 8): outer ring with subdivided edges, hole, non-rectangular "
        "island in it, second hole over the island, under the 8 symmetries of the grid, <= 48 (54) segments; embeddings into Locations are affine with "
        "positive factors (1e-3 degree steps, 3x7 units below +2^29, unit steps above -2^29, the whole +-2^29 range, around 0/0)",
        "region equality and 'inner inside outer' are evaluated on 2G x 2G generic sample points (exact per point); together with "
        "'ring segments = input segments' this decides region equality exactly for the catalogue's shapes",
        "a segment end in the interior of another segment (no node there) counts as crossing, as in the library",
        "problem counts (intersections = crossing/overlapping pairs, open ring ends = odd points, touching points = points of degree >= 4, "
        "wrong roles) are compared exactly; which of several copies of a segment survives is left open (range for wrong roles)",
        "tiled cases: chains of up to 101 copies of a TLC-chosen motif (<= 100 touching points), judged copy by copy (TileTheorem)"]


def selftest(ctx):
    """Binding of the oracle: observations of the real assembler are spoiled one field at a time and TLC must name the
    violated requirement; the unspoiled observation must be accepted."""
    import copy
    nj, nw = par_jvms()
    r = vlib.tlc_ok(vlib.tlc("AreaGrid", "GenAreaGrid7N.cfg", workers=nw, simulate=max(1, 120 // nw), depth=600, seed=ctx.seed,
                             timeout=600, tag="selftest_gen", keep_out=False), "selftest export")
    cases = decorate(ctx, r.cases, "st")
    for k, c in enumerate(cases):
        c["variants"] = ["rel/pr/a/s", "rel/def/c/u"]
    res = run_real(ctx, cases)
    recs = [x for c in cases for x in records_of(c, res[c["id"]])]
    good = [x for x in recs if x["exp"]["valid"] and x["rings"]]
    nested = [x for x in good if x["rings"][0]["inn"]]
    bad = [x for x in recs if not x["exp"]["valid"] and x["exp"]["ncross"]]
    if not good or not nested or not bad:
        raise vlib.ModelFailure("selftest: export lacks a plain, a nested or a crossing case")
    out, want = [], {}

    def add(rec, name, f, expect):
        rec = copy.deepcopy(rec)
        f(rec)
        rec["id"] = rec["grp"] = name
        out.append(rec)
        want[name] = expect
    g, n, b = good[0], nested[0], bad[0]
    add(g, "unspoiled", lambda x: None, None)
    add(n, "unspoiled-nested", lambda x: None, None)
    add(b, "unspoiled-crossing", lambda x: None, None)
    add(g, "outer-reversed", lambda x: x["rings"][0]["pts"].reverse(), "orient")
    add(n, "inner-reversed", lambda x: x["rings"][0]["inn"][0].reverse(), "orient")
    add(g, "ring-not-closed", lambda x: x["rings"][0]["pts"].pop(), "closed")
    add(g, "point-repeated", lambda x: x["rings"][0]["pts"].insert(1, x["rings"][0]["pts"][1]), "duppoint")
    add(n, "inner-dropped", lambda x: x["rings"][0]["inn"].pop(), "region")
    add(n, "inner-made-outer", lambda x: x["rings"].append({"pts": x["rings"][0]["inn"].pop()[::-1], "inn": []}), "region")
    add(g, "no-rings", lambda x: x.update(rings=[]), "not_assembled")
    add(g, "returned-false", lambda x: x["runs"][0].update(ret=False), "not_assembled")
    add(g, "touching-miscounted", lambda x: x["runs"][0]["st"].update(touching_rings=x["runs"][0]["st"]["touching_rings"] + 1), "count_touch")
    add(b, "area-from-crossing-ways", lambda x: x.update(rings=g["rings"]), "wrong_area")
    add(b, "intersections-miscounted", lambda x: x["runs"][0]["st"].update(intersections=0), "count_intersections")
    rc = 0
    for rec, fails in judge(ctx, out, "selftest"):
        w = want[rec["id"]]
        ok = (fails == []) if w is None else (w in fails)
        vlib.log("selftest %-26s TLC says %-40s %s" % (rec["id"], fails, "ok" if ok else "UNEXPECTED (wanted %s)" % w))
        if not ok:
            rc = 2
    return rc


def replay(ctx, path):
    with open(path) as fh:
        d = json.load(fh)
    cases = d["case"]["cases"] if "cases" in d["case"] else [d["case"]["case"]]       # a group of cases / one case the harness failed on
    n = process(ctx, cases, "replay")
    ctx.traces = len(cases)
    ctx.evaluations = n
    ctx.nontrivial = max(2, len(cases))
    ctx.sample({k: cases[0][k] for k in ("G", "ways", "roles", "exp")})
