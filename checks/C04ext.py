"""C04, extension part (called from checks/C04.py).  Spec: specs/BufferExt.tla (+ MCBufferExt.tla).
Adds to C04: Area objects (AreaBuilder / OuterRingBuilder / InnerRingBuilder, ring structure seen through
Area::num_rings / is_multipolygon / outer_rings / inner_rings) with growth at every builder call, CallbackBuffer
(possibly_flush / flush / read / set_callback), the nested-buffer chain of auto_grow::internal kept in place
(get_last_nested as an action, set_removed / purge_removed in all growth modes and on nested buffers), and
add_buffer / push_back / full members / move round trips interleaved with open builders.
Design check (TLC) -> behaviour export (directed scripts over every capacity, all bounded histories, simulation)
-> replay on the real classes by harness/bufferext_replay.cpp, compared after every call.
Violations are recorded with signatures starting "ext:"."""
import collections
import hashlib
import json
import os
import vlib

MODULE = "MCBufferExt"


def harness_name():
    # a scratch tree (VERIF_REPO) must not evict the binary built for /repo (concurrent checks)
    if vlib.REPO == "/repo":
        return "bufferext_replay"
    return "bufferext_replay_" + hashlib.sha256(vlib.REPO.encode()).hexdigest()[:8]


def build():
    return vlib.build(harness_name(), "bufferext_replay.cpp")


def sig_of(case, res):
    k = res.get("step", -1)
    steps = case["steps"]
    upto = steps[:k + 1] if isinstance(k, int) and k >= 0 else steps
    ops = " ".join("%s%s" % (s["a"], json.dumps(s["args"], sort_keys=True, separators=(",", ":"))) for s in upto[-6:])
    head = "mode=%s cap=%s pre=%s" % (case["mode"], case["cap"], case["pre"])
    if case.get("wrap"):
        head += " wrap cbmax=%s cb0=%s" % (case["cbmax"], int(bool(case["cb0"])))
    return "%s ... %s" % (head, ops)


def plan(ctx):
    """(design-check jobs, export jobs); each job = dict(cfg, label, kwargs, tag)."""
    quick = ctx.tier == "quick"
    t = "" if quick else "T"
    design = [
        dict(cfg="MCBufferExtA%s.cfg" % t, label="ext design check A: one area, all ring/tag builders, every bounded history"),
        dict(cfg="MCBufferExtB%s.cfg" % t, label="ext design check B: buffer operations with the nested chain in place, purge in all modes"),
        dict(cfg="MCBufferExtCb%s.cfg" % t, label="ext design check Cb: CallbackBuffer, conservation and firing rule"),
    ]
    nsim = 120 if quick else 2500
    export = [
        dict(cfg="GenBufferExtS1.cfg", tag="S1", label="ext export: scripted multipolygon (27 calls) x 28 capacities 64..280 x {yes, internal} x pre {0,1}"),
        dict(cfg="GenBufferExtS2.cfg", tag="S2", label="ext export: scripted odd areas (inner before outer, empty rings, move with open builder) x 28 capacities x 2 modes x pre {0,1}"),
        dict(cfg="GenBufferExtS3.cfg", tag="S3", label="ext export: scripted internal-growth history with removed items (nested buffer purged, purge while nested, sources with open builders) x 28 capacities"),
        dict(cfg="GenBufferExtA%s.cfg" % t, tag="A", label="ext export: all area-builder histories of bounded depth"),
        dict(cfg="GenBufferExtB%s.cfg" % t, tag="B", label="ext export: all buffer-operation histories of bounded depth (nested chain in place)"),
        dict(cfg="GenBufferExtCb%s.cfg" % t, tag="Cb", label="ext export: all CallbackBuffer histories of bounded depth"),
        dict(cfg="GenBufferExtSim.cfg", tag="S", sim=(nsim, 37), label="ext export: simulated builder histories (node/way/relation/area, 25 capacities, yes/internal)"),
        dict(cfg="GenBufferExtSimB.cfg", tag="SB", sim=(nsim, 25), label="ext export: simulated full-vocabulary histories (25 capacities, 3 modes)"),
        dict(cfg="GenBufferExtSimCb.cfg", tag="SC", sim=(nsim, 31), label="ext export: simulated CallbackBuffer histories (7 max sizes)"),
    ]
    return design, export


# what the exported behaviours must contain for the replay not to be vacuous (checked in both tiers)
NEED_ACTIONS = ["OpenObject", "SetUser", "OpenSub", "AddTag", "AddNodeRef", "AddMember", "CloseSub", "CloseObject", "OthOpen",
                "OthClose", "Commit", "Rollback", "Clear", "AddBuffer", "PushBack", "SetRemoved", "Purge", "TakeNested",
                "Swap", "Move", "CbPossiblyFlush", "CbFlush", "CbRead", "CbSetCallback"]
NEED_GROWTH = ["OpenObject:area", "SetUser", "OpenSub:taglist", "OpenSub:outer", "OpenSub:inner", "AddTag",
               "AddNodeRef:outer", "AddNodeRef:inner", "AddMember", "AddBuffer", "PushBack"]


def stats_of(cases):
    acts = collections.Counter()
    grow = collections.Counter()
    misc = collections.Counter()
    for c in cases:
        sub = None
        opened = False
        for s in c["steps"]:
            a = s["a"]
            acts[a] += 1
            lab = a
            if a == "OpenSub":
                sub = s["args"]["k"]
                lab = a + ":" + sub
            elif a == "AddNodeRef":
                lab = a + ":" + str(sub)
            elif a == "OpenObject":
                lab = a + ":" + s["args"]["k"]
                opened = True
            elif a == "CloseObject":
                opened = False
            if s.get("g"):
                grow[lab] += 1
                if s["g"] == 2:
                    grow[lab + "/grow_internal"] += 1
            if a == "Move" and opened:
                misc["move_with_open_builder"] += 1
            if a == "Purge" and s["plog"]:
                misc["purge_with_moves_mode_" + c["mode"]] += 1
                if s["exp"]["hn"]:
                    misc["purge_with_moves_while_nested"] += 1
            if a == "TakeNested" and s["args"]["purge"] and s["plog"]:
                misc["nested_buffer_purged_with_moves"] += 1
            if a in ("AddBuffer", "PushBack", "AddMember") and s["exp"]["opb"] > 0:
                misc["copy_from_source_with_open_builder"] += 1
            if s["fired"]:
                misc["callback_fired_by_" + a] += 1
            elif a in ("CbPossiblyFlush", "CbFlush"):
                misc["no_callback_by_" + a] += 1
            if s["exp"]["out"] == "full":
                misc["buffer_is_full"] += 1
            if s["exp"]["out"] == "thrown":
                misc["callback_threw_%d_in_%s" % (s["args"]["th"], a)] += 1
        if c["fin"]:
            misc["nested_left_at_end"] += 1
        last = c["steps"][-1]["exp"]["cur"]
        if any(it["t"] == "area" and it["mp"] for it in last):
            misc["multipolygon_committed"] += 1
        if any(it["t"] == "area" and it["nr"][1] > sum(len(r["inn"]) for r in it["rings"]) for it in last):
            misc["inner_ring_before_first_outer"] += 1
    return acts, grow, misc


def gen_cases(ctx, binary_thunk):
    """Runs design checks, exports and the harness build concurrently.  Returns (cases, binary)."""
    design, export = plan(ctx)
    capped = bool(os.environ.get("VERIF_TLC_WORKERS"))
    per_job_workers = 3 if ctx.tier == "quick" else 4
    results = {}

    def run_job(j):
        def thunk():
            kw = dict(workers=per_job_workers, timeout=3000, java_opts=["-Xmx4g"], tag="ext_" + j["cfg"][:-4])
            if "sim" in j:
                kw.update(simulate=j["sim"][0], depth=j["sim"][1], seed=ctx.seed)
            r = vlib.tlc_ok(vlib.tlc(MODULE, j["cfg"], **kw), j["label"])
            results[j["cfg"]] = r
            return r
        return thunk

    if os.environ.get("VERIF_DEV_SKIP_DESIGN"):      # development only: the design checks do not depend on the C++ tree
        design = []
    thunks = [binary_thunk] + [run_job(j) for j in design + export]
    out = vlib.parallel(*thunks, max_workers=(2 if capped else 6))
    binary = out[0]
    cases = []
    for j in design:
        ctx.add_tlc(results[j["cfg"]], j["label"])
    for j in export:
        r = results[j["cfg"]]
        ctx.add_tlc(r, j["label"])
        if not r.cases:
            raise vlib.ModelFailure("%s: TLC exported no behaviour" % j["cfg"])
        for i, c in enumerate(r.cases):
            c["id"] = "x%s-%d" % (j["tag"], i)
            cases.append(c)
    return cases, binary


def run_cases(ctx, binary, cases):
    res = vlib.replay_cases(binary, cases, timeout=1500, env={"VH_CASE_TIMEOUT": "30"})
    byid = {c["id"]: c for c in cases}
    if len(res) != len(cases):
        raise vlib.ModelFailure("ext replay returned %d results for %d cases" % (len(res), len(cases)))
    for r in res:
        if r.get("ok"):
            continue
        c = byid[r["id"]]
        if "crash" in r:
            what = "real Buffer/CallbackBuffer/builders %s while replaying a BufferExt.tla history: %s" % (
                r["crash"], r.get("stderr", "")[-700:])
            sig = "ext:crash " + sig_of(c, r)
        else:
            what = "projection differs from BufferExt.tla at step %s (%s): exp=%s got=%s" % (
                r.get("step"), r.get("note", ""), json.dumps(r.get("exp"))[:300], json.dumps(r.get("got"))[:300])
            sig = "ext:mismatch " + sig_of(c, r)
        ctx.violation(sig, {"case": c, "result": r, "ext": True}, what)


def run_part(ctx):
    import time
    t0 = time.time()
    cases, binary = gen_cases(ctx, build)
    vlib.log("[C04ext] design checks + export of %d histories + harness build: %.1fs" % (len(cases), time.time() - t0))
    acts, grow, misc = stats_of(cases)
    missing = [a for a in NEED_ACTIONS if not acts[a]] + ["growth during " + g for g in NEED_GROWTH if not grow[g]]
    for m in ("move_with_open_builder", "purge_with_moves_mode_internal", "purge_with_moves_while_nested",
              "nested_buffer_purged_with_moves", "copy_from_source_with_open_builder", "callback_fired_by_CbPossiblyFlush",
              "no_callback_by_CbPossiblyFlush", "callback_fired_by_CbFlush", "multipolygon_committed",
              "callback_threw_1_in_CbFlush", "callback_threw_2_in_CbFlush", "callback_threw_1_in_CbPossiblyFlush",
              "callback_threw_2_in_CbPossiblyFlush",
              "inner_ring_before_first_outer", "nested_left_at_end"):
        if not misc[m]:
            missing.append(m)
    if missing:
        raise vlib.ModelFailure("BufferExt export is vacuous for: %s" % missing)
    t1 = time.time()
    run_cases(ctx, binary, cases)
    vlib.log("[C04ext] replay: %.1fs" % (time.time() - t1))
    distinct = set()
    for c in cases:
        distinct.add((c["mode"], c["cap"], c["pre"], c["wrap"], c["cbmax"], c["cb0"],
                      tuple((s["a"], json.dumps(s["args"], sort_keys=True)) for s in c["steps"])))
    ctx.traces += len(cases)
    ctx.evaluations += sum(len(c["steps"]) for c in cases)
    ctx.nontrivial += len(distinct)
    ctx.rule += ("; extension: a case = (growth mode, initial capacity, pre-committed nodes, CallbackBuffer wrapping with "
                 "max size / initial callback, history of API calls), distinct by that tuple, compared after each call")
    for c in (cases[0], cases[-1]):
        ctx.sample({"ext": True, "mode": c["mode"], "cap": c["cap"], "pre": c["pre"], "wrap": c["wrap"], "cbmax": c["cbmax"],
                    "calls": [[s["a"], s["args"]] for s in c["steps"]], "expected_after_last": c["steps"][-1]["exp"]})
    ctx.extra["ext_histories_replayed"] = len(cases)
    ctx.extra["ext_calls_by_action"] = dict(sorted(acts.items()))
    ctx.extra["ext_calls_during_which_the_buffer_grew"] = dict(sorted(grow.items()))
    ctx.extra["ext_situations_covered"] = dict(sorted(misc.items()))
    ctx.assumptions += [
        "ext: which committed items sit in the current memory block and which in nested buffers under auto_grow::internal "
        "follows the code's documented policy (freeze the committed part when a reservation does not fit, then double); "
        "the partition is observed only through has_nested_buffers(), get_last_nested() and set_removed on the current block",
        "ext: purge_removed acts on the current memory block only; removed items already frozen into a nested buffer stay "
        "until that buffer is taken out and purged itself (modelled as the code behaves, judged consistent with the property)",
        "ext: CallbackBuffer::flush()/possibly_flush()/read() hand over the whole internal buffer; data written but not "
        "committed at that moment leaves with it and is not visible to the receiver (modelled as the code behaves)",
        "ext: add_buffer/push_back/swap with builders open on the destination are forbidden by documented preconditions and "
        "not exercised; builders open on the source buffer and move round trips with open builders are",
    ]


def replay_case(ctx, d):
    c = d["case"]["case"]
    run_cases(ctx, build(), [c])
    ctx.evaluations = len(c["steps"])
    ctx.nontrivial = 2
    ctx.states = ctx.transitions = 1
    ctx.sample({"ext": True, "mode": c["mode"], "cap": c["cap"], "pre": c["pre"], "wrap": c["wrap"],
                "calls": [[s["a"], s["args"]] for s in c["steps"]]})
