"""C20, extension of the specification sideways (called from C20.run() after handler dispatch and diff iteration):
the second family of "which objects / which tags get through" machinery, the rule-list filters.

  specs/TagRules.tla   osmium::tags::KeyFilter / KeyValueFilter / KeyPrefixFilter (tags/filter.hpp), osmium::TagsFilter
                       (tags/tags_filter.hpp), osmium::TagMatcher (tags/matcher.hpp), osmium::StringMatcher
                       (util/string_matcher.hpp), the filter iterator (memory/collection.hpp) and match_any_of /
                       match_all_of / match_none_of (tags/taglist.hpp).
                       A = "the first rule whose matcher matches decides, otherwise the default", matching defined on
                       strings as sequences; the filter iterator yields exactly the tags that pass, in order.
                       I = the rule loop with its early return, advance()/operator++ of the iterator, the rule records,
                       TagMatcher's members, StringMatcher's constructors + variant dispatch, strcmp / compare / strstr /
                       any_of loops on NUL terminated strings.
One TLC run per configuration checks I => A on every state and exports every case with the values the spec computed;
harness/tagrules_replay.cpp builds the real filters and a real TagList in a Buffer and compares the boolean per tag,
the filtered sequence (++it and it++), the count, the three quantifiers, every rule's matcher on every tag and on the
whole list and every StringMatcher on every key and value.  Violations carry signatures starting with "ext:"."""
import hashlib
import json
import os
import random
import threading
import time
from concurrent.futures import ThreadPoolExecutor

import vlib

MOD = "MCTagRules"
SRC = "tagrules_replay.cpp"

# (cfg, label, export, coverage)
GEN_Q = [
    ("GenTagRulesTiny.cfg", "complete product: rule lists <= 3 x tag lists <= 3, four families, 2 templates each, 3 tags", True, False),
    ("GenTagRulesLegacy.cfg", "KeyFilter/KeyValueFilter/KeyPrefixFilter, 3 templates each: <=3 rules x 1 tag of 10, <=2 x <=2 of 4, <=1 x <=3 of 6", True, False),
    ("GenTagRulesEq.cfg", "TagsFilter, equal/true/false matchers (const char*, std::string, bool, classes), value matcher, invert; shapes as above", True, False),
    ("GenTagRulesPre.cfg", "TagsFilter, prefix and substring matchers (empty, longer than the string, at the very end); shapes as above", True, False),
    ("GenTagRulesList.cfg", "TagsFilter, list matchers (vector, add_string, empty list, list with the empty string); shapes as above", True, False),
    ("GenTagRulesRe.cfg", "TagsFilter, regex matchers (anchors, wildcard, empty pattern); shapes as above", True, False),
    ("GenTagRulesWide.cfg", "TagsFilter, all 29 TagMatcher templates: <=1 rule x every single tag of 49 and x tag lists <= 2 over 6 tags", True, True),
]
GEN_T = [
    ("GenTagRulesMix.cfg", "TagsFilter, one rule of each kind: <=3 rules x 1 tag of 10, <=2 x <=2 of 4, <=1 x <=3 of 6", True, False),
    ("GenTagRulesTinyT.cfg", "complete product: rule lists <= 3 x tag lists <= 3, four families, 2 templates each, 4 tags", True, False),
    ("GenTagRulesLegacyT.cfg", "legacy filters, 3-5 templates: <=3 rules x 1 tag of 15, <=2 x <=2 of 6, <=1 x <=3 of 6", True, False),
    ("GenTagRulesEqT.cfg", "TagsFilter, 7 equal/true/false templates: <=3 rules x 1 tag of 10, <=2 x <=2 of 6, <=1 x <=3 of 6", True, False),
    ("GenTagRulesPreT.cfg", "TagsFilter, 7 prefix/substring templates: shapes as above", True, False),
    ("GenTagRulesListT.cfg", "TagsFilter, 6 list templates: shapes as above", True, False),
    ("GenTagRulesReT.cfg", "TagsFilter, 6 regex templates: shapes as above", True, False),
    ("GenTagRulesWideT.cfg", "TagsFilter, all 29 templates: <=2 rules x 1 tag of 10 in addition", True, False),
]
MC_T = [
    ("MCTagRulesSmall33.cfg", "design check only: complete product rule lists <= 3 x tag lists <= 3 over 6 tags, four families, 2 templates each", False, False),
    ("MCTagRulesLegacy33.cfg", "design check only: complete product <= 3 x <= 3 over 4 tags, legacy filters with 3 templates each", False, False),
    ("MCTagRulesPre33.cfg", "design check only: complete product <= 3 x <= 3 over 6 tags, TagsFilter prefix/substring templates", False, False),
    ("MCTagRulesRe33.cfg", "design check only: complete product <= 3 x <= 3 over 6 tags, TagsFilter regex templates", False, False),
    ("MCTagRulesLegacyT.cfg", "design check only: legacy filters with 3-5 templates, <=3 rules x every single tag of 49", False, False),
    ("MCTagRulesEqT.cfg", "design check only: 7 equal/true/false templates, <=3 rules x every single tag of 49", False, False),
    ("MCTagRulesPreT.cfg", "design check only: 7 prefix/substring templates, <=3 rules x every single tag of 49", False, False),
    ("MCTagRulesListT.cfg", "design check only: 6 list templates, <=3 rules x every single tag of 49", False, False),
    ("MCTagRulesReT.cfg", "design check only: 6 regex templates, <=3 rules x every single tag of 49", False, False),
]
BIG = ("GenTagRulesTiny.cfg", "GenTagRulesTinyT.cfg", "MCTagRulesSmall33.cfg")       # get more workers
ACTIONS = ["ChooseFilter", "ChooseTags", "Construct", "Advance", "RuleStep", "Incr", "Finish"]
BATCH = 12000
# every way of making a StringMatcher the spec knows must occur in what is replayed (vacuity of the binding)
NEED_SM = ["default/false", "bool/true", "bool/false", "cstr/equal", "string/equal", "vector/list", "list_add/list", "regex/regex",
           "class/false", "class/true", "class/equal", "class/prefix", "class/substring", "class/regex", "class/list"]
NEED_TMC = ["default", "key", "kv", "kvi"]
POSTINC_SIG = "ext:filter-iterator post-increment (it++) does not compile"


# ------------------------------------------------------------------------------------------------ harness builds

def _builds(tier):
    b = [dict(name="tagrules_replay", src=SRC, flags=["-DC20X_POSTINC"])]
    if tier != "quick":
        # the other implementation of StringMatcher's variant (std::variant instead of boost::variant) and libosmium's
        # assertions enabled (the filter iterator asserts it is not at the end when dereferenced / incremented)
        b.append(dict(name="tagrules_replay_17a", src=SRC, flags=["-DC20X_POSTINC", "-std=c++17"], ndebug=False))
    return b


_early = {}


def _build_all(tier):
    """-> (binaries, postinc_error or None).  If the harness does not build because of it++ on the filter iterator, that
    one traversal is left out (reported as a violation by run_part) and everything else is still compared."""
    specs = _builds(tier)
    try:
        return vlib.build_many(specs), None
    except vlib.BuildFailure as ex:
        if "operator++(int)" not in ex.out or "collection.hpp" not in ex.out:
            raise
        err = ex.out
    for s in specs:
        s["name"] += "_nopi"
        s["flags"] = [f for f in s["flags"] if f != "-DC20X_POSTINC"]
    return vlib.build_many(specs), err


def start_prebuild(ctx):
    """Optional: C20.run() calls this first so that the (cold) build runs beside C20's own TLC runs and builds."""
    if "thread" in _early:
        return

    def work():
        try:
            _early["result"] = _build_all(ctx.tier)
        except Exception as ex:      # re-raised by _bins() on the caller's thread
            _early["error"] = ex
    _early["thread"] = threading.Thread(target=work)
    _early["thread"].start()


def _bins(ctx):
    start_prebuild(ctx)
    _early["thread"].join()
    if "error" in _early:
        raise _early["error"]
    return _early["result"]


# ------------------------------------------------------------------------------------------------ cases

def _key(c):
    return json.dumps({k: c[k] for k in c if k != "id"}, sort_keys=True)


def _rule_txt(fam, r):
    def sm(m):
        arg = {"list": "{" + ",".join(m["ss"]) + "}", "regex": "/" + ("^" if m["as"] else "") + m["s"] + ("$" if m["ae"] else "") + "/",
               "true": "", "false": ""}.get(m["k"], "'" + m["s"] + "'")
        return "%s.%s%s" % (m["c"], m["k"], arg)
    if fam != "TF":
        return "%s:%s%s" % ("T" if r["res"] else "F", r["key"], "" if r["ign"] else "=" + r["val"])
    t = {"default": "TagMatcher{}", "key": sm(r["km"])}.get(r["tmc"])
    if t is None:
        t = sm(r["km"]) + ("!=" if r["inv"] else "=") + sm(r["vm"]) + ("(inv arg)" if r["tmc"] == "kvi" else "")
    return "%s:%s" % ("T" if r["res"] else "F", t)


def describe(c):
    return "%s dflt=%s rules=[%s] tags=[%s]" % (c["fam"], "T" if c["dflt"] else "F", " ; ".join(_rule_txt(c["fam"], r) for r in c["rules"]),
                                                 ",".join("%s=%s" % (t["k"], t["v"]) for t in c["tags"]))


def _evals(c, postinc=True):
    n, nr = len(c["tags"]), len(c["rules"])
    per_filter = 2 + n + 1 + (len(c["out"]) + 1) * (2 if postinc else 1) + 2 + 3
    if c["fam"] != "TF":
        return 2 * per_filter + nr * (n + 1)
    e = 3 * per_filter
    for r in c["rules"]:
        e += 1 + 2 * n + 1
        if r["tmc"] != "default":
            e += 2 * n * (2 if r["tmc"] in ("kv", "kvi") else 1)
    return e


def _order_sensitive(c):
    """some tag is matched by two rules with different results (the order of the rules decides)"""
    for i in range(len(c["tags"])):
        rs = set(c["rules"][j]["res"] for j in range(len(c["rules"])) if c["mm"][j][i])
        if len(rs) == 2:
            return True
    return False


class Sink:
    """Receives batches of exported cases while TLC runs, replays them on the binaries and keeps only statistics."""

    def __init__(self, ctx):
        self.ctx = ctx
        self.lock = threading.Lock()
        self.pool = ThreadPoolExecutor(max_workers=2)
        self.futs = []
        self.seen = set()
        self.n = self.evals = self.nontrivial = self.duplicates = 0
        self.st = {"families": {}, "string_matchers": {}, "tag_matcher_ctors": {}, "filtering_proper_subset": 0, "order_sensitive": 0,
                   "default_decides": 0, "rules_3": 0, "tags_3": 0, "empty_taglist": 0, "no_rules": 0}
        self.pool_sample = []        # (hash, case) for the sensitivity guard and the samples
        self.samples = {}
        self.postinc = True
        self.replay_s = 0.0

    def submit(self, batch):
        self.futs.append(self.pool.submit(self._work, batch))

    def _work(self, batch):
        bins, err = _bins(self.ctx)
        self.postinc = err is None
        t0 = time.time()
        results = []
        for b in bins:
            res = vlib.replay_cases(b, batch, nproc=8, timeout=1500)
            if len(res) != len(batch):
                raise vlib.ModelFailure("ext replay returned %d results for %d cases" % (len(res), len(batch)))
            results.append(res)
        with self.lock:
            self.replay_s += time.time() - t0
            for res in results:
                handle_results(self.ctx, batch, res)
            for c in batch:
                self._account(c)

    def _account(self, c):
        key = _key(c)
        h = hashlib.blake2b(key.encode(), digest_size=8).digest()
        if h in self.seen:
            self.duplicates += 1
            return
        self.seen.add(h)
        self.n += 1
        self.evals += _evals(c, self.postinc)
        st = self.st
        n, nr = len(c["tags"]), len(c["rules"])
        if n and nr:
            self.nontrivial += 1
        st["families"][c["fam"]] = st["families"].get(c["fam"], 0) + 1
        if c["fam"] == "TF":
            for r in c["rules"]:
                st["tag_matcher_ctors"][r["tmc"]] = st["tag_matcher_ctors"].get(r["tmc"], 0) + 1
                for m in ([r["km"]] if r["tmc"] in ("default", "key") else [r["km"], r["vm"]]):
                    k = "%s/%s" % (m["c"], m["k"])
                    st["string_matchers"][k] = st["string_matchers"].get(k, 0) + 1
        if 0 < len(c["out"]) < n:
            st["filtering_proper_subset"] += 1
        osens = _order_sensitive(c)
        st["order_sensitive"] += osens
        if nr and n and any(not any(c["mm"][j][i] for j in range(nr)) for i in range(n)):
            st["default_decides"] += 1
        st["rules_3"] += nr == 3
        st["tags_3"] += n == 3
        st["empty_taglist"] += n == 0
        st["no_rules"] += nr == 0
        hv = int.from_bytes(h, "big")
        if hv % 997 == self.ctx.seed % 997 and len(self.pool_sample) < 400:
            self.pool_sample.append((hv, c))
        wanted = {
            "legacy_order": lambda: c["fam"] == "KVF" and osens and nr == 3,
            "prefix_filter": lambda: c["fam"] == "KPF" and n == 3 and 0 < len(c["out"]) < 3,
            "tagsfilter_invert": lambda: c["fam"] == "TF" and nr >= 2 and osens and any(r["inv"] for r in c["rules"]),
            "tagsfilter_regex": lambda: c["fam"] == "TF" and n >= 2 and 0 < len(c["out"]) < n and any(r["km"]["k"] == "regex" for r in c["rules"]),
            "tagsfilter_list": lambda: c["fam"] == "TF" and nr == 3 and osens and any(r["km"]["k"] == "list" and r["km"]["ss"] for r in c["rules"]),
        }
        for name, pred in wanted.items():
            if name not in self.samples and pred():
                self.samples[name] = {k: c[k] for k in c if k != "id"}

    def drain(self):
        for f in self.futs:
            f.result()
        self.pool.shutdown()


def _sig(c, r):
    return "ext:%s step=%s" % (describe(c), r.get("step", "?") if "crash" not in r else "crash=%s" % r["crash"])


def handle_results(ctx, cases, res):
    byid = {c["id"]: c for c in cases}
    for r in res:
        if r.get("ok"):
            continue
        c = byid[r["id"]]
        if r.get("step") == -2:
            raise vlib.ModelFailure("ext harness can not run an exported case (%s): %s" % (describe(c), json.dumps(r)[:400]))
        if "crash" in r:
            what = "real filter %s at step %s: %s" % (r["crash"], r.get("step"), r.get("stderr", "")[:700])
        else:
            what = "real rule-list filter differs from the spec: %s: expected %s, got %s [%s]" % (
                r.get("note", ""), json.dumps(r.get("exp"))[:200], json.dumps(r.get("got"))[:200], describe(c))
        if ctx.violation(_sig(c, r), {"ext": True, "case": c, "result": r}, what):
            hist = ctx.extra.setdefault("violation_classes", {})
            cls = "ext:%s step=%s" % (c["fam"], r.get("step"))
            hist[cls] = hist.get(cls, 0) + 1


# ------------------------------------------------------------------------------------------------ sensitivity guard

def _corrupt(c, rng):
    """A copy of the case with one expected value changed -> must be rejected by the harness."""
    c = json.loads(json.dumps(c))
    n, nr = len(c["tags"]), len(c["rules"])
    ways = ["any", "all", "none", "cnt"]
    if n:
        ways += ["res", "out"]
    if n and nr:
        ways += ["mm"]
        if c["fam"] == "TF":
            if any(r["tmc"] != "default" for r in c["rules"]):
                ways += ["km"]
            if any(r["tmc"] in ("kv", "kvi") for r in c["rules"]):
                ways += ["vm"]
    if nr:
        ways += ["tl"]
    how = rng.choice(ways)
    if how in ("any", "all", "none"):
        c[how] = not c[how]
    elif how == "cnt":
        c["cnt"] += 1
    elif how == "out":
        if c["out"] and rng.random() < 0.5:
            c["out"].pop(rng.randrange(len(c["out"])))
        else:
            missing = [i for i in range(1, n + 1) if i not in c["out"]]
            c["out"] = sorted(c["out"] + [missing[0]]) if missing else c["out"][:-1]
    elif how == "res":
        i = rng.randrange(n)
        c["res"][i] = not c["res"][i]
    elif how == "tl":
        j = rng.randrange(nr)
        c["tl"][j] = not c["tl"][j]
    else:
        ok = [j for j in range(nr) if how == "mm" or (how == "km" and c["rules"][j]["tmc"] != "default") or
              (how == "vm" and c["rules"][j]["tmc"] in ("kv", "kvi"))]
        j, i = rng.choice(ok), rng.randrange(n)
        c[how][j][i] = not c[how][j][i]
    c["id"] = "corrupt-%s-%s" % (how, c["id"])
    return c


def sensitivity_guard(ctx, sink):
    rng = random.Random(ctx.seed + 20)
    pick = [c for _, c in sorted(sink.pool_sample, key=lambda x: x[0])][:80]
    if len(pick) < 20:
        raise vlib.ModelFailure("ext: too few cases kept for the sensitivity guard (%d)" % len(pick))
    bad = [_corrupt(c, rng) for c in pick]
    binary = _bins(ctx)[0][0]
    res = vlib.replay_cases(binary, bad, nproc=4, timeout=600)
    accepted = [r["id"] for r in res if r.get("ok")]
    if accepted or len(res) != len(bad):
        raise vlib.ModelFailure("ext: the replay harness accepted corrupted expectations: %s" % accepted[:5])
    return len(bad)


# ------------------------------------------------------------------------------------------------ entry points

def run_part(ctx):
    quick = ctx.tier == "quick"
    t0 = time.time()
    start_prebuild(ctx)
    sink = Sink(ctx)
    # TLC runs alive at the same time (VERIF_TLC_JOBS lowers it on a shared machine)
    par = int(os.environ.get("VERIF_TLC_JOBS", "0") or "0") or (2 if os.environ.get("VERIF_TLC_WORKERS") else (8 if quick else 5))
    nw = 3 if quick else 5

    def one(spec):
        cfg, label, export, cov = spec
        batch = []
        count = [0]

        def cb(p):
            p["id"] = "%s-%d" % (cfg[11:-4], count[0])
            count[0] += 1
            batch.append(p)
            if len(batch) >= BATCH:
                sink.submit(list(batch))
                del batch[:]
        r = vlib.tlc(MOD, cfg, workers=nw + 3 if cfg in BIG else nw, coverage=cov, deadlock=True, timeout=2400, keep_out=True,
                     case_cb=cb if export else None, tag="C20x_" + cfg[:-4])
        if batch:
            sink.submit(batch)
        return r, count[0]

    order = GEN_Q if quick else MC_T + GEN_T + GEN_Q          # the big runs first
    with ThreadPoolExecutor(max_workers=par) as pool:
        futs = [(s, pool.submit(one, s)) for s in order]
        per = {}
        for (cfg, label, export, cov), f in futs:
            r, n = f.result()
            vlib.tlc_ok(r, "ext " + label)
            ctx.add_tlc(r, "ext %s: %s" % (cfg[:-4], label))
            if cov:
                vlib.require_actions(r, ACTIONS, "TagRules.tla")
            if export:
                if not n:
                    raise vlib.ModelFailure("ext %s exported no case" % cfg)
                per[cfg[:-4]] = n
    t1 = time.time()
    sink.drain()
    bins, postinc_err = _bins(ctx)
    vlib.log("[C20ext] %d TLC runs %.1fs (slowest: %s), %d distinct cases replayed on %d binar%s (replay %.1fs of it after TLC had finished %.1fs)" % (
        len(order), t1 - t0, ", ".join("%s %.0fs" % (d["label"].split(":")[0][4:], d["wall_s"]) for d in sorted(ctx.tlc_runs[-len(order):], key=lambda d: -d["wall_s"])[:3]),
        sink.n, len(bins), "y" if len(bins) == 1 else "ies", sink.replay_s, time.time() - t1))
    if postinc_err is not None:
        ctx.violation(POSTINC_SIG, {"ext": True, "static": "postinc", "compiler": postinc_err[-3000:]},
                      "osmium::memory::CollectionFilterIterator (the iterator type of every tag filter, a forward iterator) can not be "
                      "post-incremented: the harness step that walks the filtered tags with it++ (spec action Incr) does not compile: " +
                      " ".join(l.strip() for l in postinc_err.splitlines() if "error" in l)[:600])
    # vacuity of the binding
    st = sink.st
    missing = [k for k in NEED_SM if not st["string_matchers"].get(k)] + [k for k in NEED_TMC if not st["tag_matcher_ctors"].get(k)] + \
              [k for k in ("KF", "KVF", "KPF", "TF") if not st["families"].get(k)] + \
              [k for k in ("filtering_proper_subset", "order_sensitive", "default_decides", "rules_3", "tags_3", "empty_taglist", "no_rules") if not st[k]]
    if missing:
        raise vlib.ModelFailure("ext: never replayed: %s" % missing)
    if not ctx.violations:
        ctx.extra["ext_corrupted_expectations_rejected"] = sensitivity_guard(ctx, sink)
    ctx.traces += sink.n
    ctx.evaluations += sink.evals * len(bins)
    ctx.nontrivial += sink.nontrivial
    ctx.rule += ("; ext: a case = (filter family, default result, rule list, tag list) with the values computed by the spec; distinct by "
                 "content (duplicates between configurations removed); nontrivial = at least one rule and one tag; evaluations = values of "
                 "the real filters compared with the spec (per filter object: count, empty, one boolean per tag, begin==end, every yielded "
                 "tag + end for ++it and it++, distance, count_if, three quantifiers; per rule: its matcher on every tag and on the list, "
                 "its StringMatchers on every key and value through both call operators)")
    ctx.extra["ext"] = {"cases_per_config": per, "distinct_cases": sink.n, "duplicates_between_configs": sink.duplicates,
                        "binaries": [os.path.basename(b).rsplit("-", 1)[0] for b in bins], "coverage_of_replayed_cases": st,
                        "samples": sink.samples}
    for s in list(sink.samples.values())[:2]:
        ctx.sample(s, cap=8)
    ctx.assumptions += [
        "ext/TagRules: strings are sequences over two characters (plus the terminating NUL in the I-layer); keys and values up to "
        "length 3 including the empty string; the regular expressions are literals over these characters with '.', '^' and '$' "
        "(std::regex itself is not modelled: the I-layer tries every start position, the harness checks that std::regex_search agrees)",
        "ext/TagRules: StringMatcher::substring is modelled as the code and the unit tests have it (the stored string occurs in the test "
        "string); its doc comment says the opposite",
        "ext/TagRules: Filter<> instantiations other than the three named aliases (e.g. Filter<const char*>, which compares pointers) "
        "and TagsFilterBase<TResult> with a result type other than bool are not driven; a tags/regex_filter.hpp does not exist in this tree",
    ]


def replay_part(ctx, d):
    p = d["case"]
    ctx.traces = 1
    ctx.states = ctx.transitions = 1
    ctx.nontrivial = 1
    if p.get("static") == "postinc":
        bins, err = _bins(ctx)
        ctx.evaluations = 1
        ctx.sample({"static": "post-increment of the filter iterator must compile"})
        if err is not None:
            ctx.violation(POSTINC_SIG, p, "it++ on osmium::memory::CollectionFilterIterator still does not compile")
        return
    c = p["case"]
    bins, err = _bins(ctx)
    for b in bins:
        res = vlib.replay_cases(b, [c], nproc=1, timeout=600)
        handle_results(ctx, [c], res)
    ctx.evaluations = _evals(c, err is None)
    ctx.sample({k: c[k] for k in c if k != "id"})
