"""C12 - all id-to-value index implementations behave as one mathematical map.

Specs: IndexMap.tla (A-layer: one partial function id -> value, the "sorted before lookup" contract, what the dumps must
contain), IndexDense.tla / IndexSparse.tla / IndexFlexMem.tla (I-layers EXTENDing it) and NodeLocWays.tla.  TLC checks
I => A exhaustively with small geometry (MC*.cfg / MCT*.cfg) and again on every exported history with the real geometry
(block 2^16, growth step 2^20, dump window 1310720; Gen*.cfg breadth first, Sim*.cfg simulation).
Binding: every exported history is replayed (harness/indexmap_replay.cpp) on every registered map type created through
MapFactory (plus file backed ones on a named file), lookups/dumps/reloads compared with the spec's tables and files."""
import json
import os
import random
import shutil
import threading
import time
from concurrent.futures import ThreadPoolExecutor

import vlib

LEVEL = "model_checking"

H = 1 << 30            # model ids >= H stand for ids >= 2^32 - 1 (harness: HUGE_TAB)
ARRAY_LIMIT = 4194304  # = ArrayLimit of the Gen/Sim configs: dense indexes are only built below it
MIN_DENSE_HOOK = 3     # = MinDense of the FlexMem Gen/Sim configs
GEN_CAP = 300          # thorough: histories replayed per breadth-first export (seeded sample of all exported ones)
NSIM_QUICK = 40        # simulated behaviours per Sim config (TLC runs this number per worker)
NSIM_THOROUGH = 150

DENSE_TYPES = ["dense_mem_array", "dense_mmap_array", "dense_file_array", "dense_file_array@"]
SPARSE_TYPES = ["sparse_mem_array", "sparse_mmap_array", "sparse_file_array", "sparse_file_array@", "sparse_mem_map"]
FLEX = ["flex_mem"]

MC_RUNS = [  # (module, quick cfg, thorough cfg, label, actions that must have been taken)
    ("IndexDense", "MCIndexDense.cfg", "MCTIndexDense.cfg", "dense over std::vector / anonymous mmap / file mmap, growth step 3",
     ["Set", "Sort", "Reload", "Reopen", "Reserve", "Finish"]),
    ("IndexSparse", "MCIndexSparse.cfg", "MCTIndexSparse.cfg", "sparse over std::vector / anonymous mmap / file mmap / std::map, growth step 1, dump window 3",
     ["Set", "Sort", "Reload", "Reopen", "DumpArray", "Finish"]),
    ("IndexFlexMem", "MCIndexFlexMem.cfg", "MCTIndexFlexMem.cfg", "FlexMem, block 4, MinDense 3", ["Set", "Sort", "ForceDense", "Finish"]),
    ("NodeLocWays", "MCNodeLocWays.cfg", "MCTNodeLocWays.cfg", "NodeLocationsForWays over two sort-needing stores", ["Node", "Way", "Finish"]),
]

GEN_RUNS = [  # (module, cfg suffix, family)
    ("IndexDense", "IndexDense_growth", "dense"),
    ("IndexDense", "IndexDense_block", "dense"),
    ("IndexSparse", "IndexSparse_window", "sparse"),
    ("IndexSparse", "IndexSparse_huge", "sparse"),
    ("IndexSparse", "IndexSparse_block", "sparse"),
    ("IndexFlexMem", "IndexFlexMem_small", "flex"),
    ("IndexFlexMem", "IndexFlexMem_block", "flex"),
    ("NodeLocWays", "NodeLocWays", "nlw"),
]

NLW_STORES = [["sparse_mem_array", "sparse_mem_array"], ["sparse_mmap_array", "sparse_file_array"], ["flex_mem", "flex_mem"],
              ["sparse_mem_map", "sparse_mem_array"], ["sparse_file_array@", "flex_mem"]]
NLW_STORES_SMALL_IDS = [["dense_mmap_array", "dense_mem_array"], ["dense_file_array", "sparse_mmap_array"]]


CHEAP = ["dense_mem_array", "sparse_mem_array", "sparse_mem_map", "flex_mem"]
DENSE_MM = ["dense_mmap_array", "dense_file_array", "dense_file_array@"]
SPARSE_MM = ["sparse_mmap_array", "sparse_file_array", "sparse_file_array@"]


def types_for(steps, idx, every):
    """Map types a history is replayed on.  Every `every`-th history runs on all ten variants; the others on the four
    heap based ones plus one dense and one sparse mmap/file variant in rotation (each mmap based index starts with a
    2^20-element mapping, which dominates the cost of a case)."""
    ids = [s["id"] for s in steps if s["a"] == "set"]
    mx = max(ids) if ids else 0
    if idx % every == 0:
        t = DENSE_TYPES + SPARSE_TYPES + FLEX
    else:
        t = CHEAP + [DENSE_MM[idx % 3], SPARSE_MM[(idx // 3) % 3]]
    if mx >= ARRAY_LIMIT:
        t = [x for x in t if not x.startswith("dense_")]
    if mx >= H + 4:          # FlexMem in dense mode allocates one vector header per 2^16 ids below the largest id
        t = [x for x in t if x != "flex_mem"]
    return t


def compact(steps):
    out = []
    for s in steps:
        d = {k: v for k, v in s.items() if k not in ("flist", "farr")}
        for k in ("flist", "farr"):
            if k in s and s[k]["kind"] != "none":
                d[k] = {"n": s[k]["n"], "vals": s[k]["vals"]}
        out.append(d)
    return out


def make_case(payload, family, cid, rng, idx, every):
    steps = payload["steps"]
    if family == "nlw":
        ids = [abs(s["id"]) for s in steps if s["a"] == "node"]
        stores = list(NLW_STORES)
        if max(ids) < ARRAY_LIMIT:
            stores += NLW_STORES_SMALL_IDS
        if idx % every != 0:
            stores = [stores[idx % len(stores)], stores[(idx // 2 + 1) % len(stores)]]
        return {"id": cid, "kind": "nlw", "family": family, "ignore": rng.random() < 0.5, "stores": stores, "steps": steps}
    steps = compact(steps)
    return {"id": cid, "kind": "map", "family": family, "types": types_for(steps, idx, every), "steps": steps}


def tlc_jobs(ctx):
    """All TLC runs of the tier, executed on a small thread pool (each TLC with few workers)."""
    quick = ctx.tier == "quick"
    jobs = []
    for mod, qcfg, tcfg, label, acts in MC_RUNS:
        jobs.append(dict(kind="mc", mod=mod, cfg=qcfg if quick else tcfg, label=label, acts=acts))
    for mod, suffix, fam in GEN_RUNS:
        if not quick:
            jobs.append(dict(kind="gen", mod=mod, cfg="Gen%s.cfg" % suffix, label="Gen" + suffix, fam=fam))
        jobs.append(dict(kind="sim", mod=mod, cfg="Sim%s.cfg" % suffix, label="Sim" + suffix, fam=fam))
    nsim = NSIM_QUICK if quick else NSIM_THOROUGH

    def run(j):
        if j["kind"] == "mc":
            r = vlib.tlc(j["mod"], j["cfg"], workers=3 if quick else 4, coverage=True, timeout=1500, tag="C12_" + j["cfg"][:-4], keep_out=True)
        elif j["kind"] == "gen":
            r = vlib.tlc(j["mod"], j["cfg"], workers=2, timeout=900, tag="C12_" + j["cfg"][:-4], keep_out=True)
        else:
            r = vlib.tlc(j["mod"], j["cfg"], workers=2, simulate=nsim, depth=40, seed=ctx.seed, timeout=900, tag="C12_" + j["cfg"][:-4], keep_out=True)
        return j, r

    t0 = time.time()
    # TLC runs alive at the same time (VERIF_TLC_JOBS lowers it on a shared machine)
    par = int(os.environ.get("VERIF_TLC_JOBS", "0") or "0") or (6 if quick else 4)
    with ThreadPoolExecutor(max_workers=par) as ex:
        out = list(ex.map(run, jobs))
    vlib.log("[C12] %d TLC runs in %.1fs (slowest: %s)" % (len(out), time.time() - t0,
             ", ".join("%s %.0fs" % (j["cfg"], r.wall) for j, r in sorted(out, key=lambda x: -x[1].wall)[:4])))
    return out


def gen_cases(ctx):
    quick = ctx.tier == "quick"
    rng = random.Random(ctx.seed)
    cases = []
    per_gen = {}
    for j, r in tlc_jobs(ctx):
        vlib.tlc_ok(r, j["label"])
        if j["kind"] == "mc":
            vlib.require_actions(r, j["acts"], j["label"])
            ctx.add_tlc(r, "I => A exhaustive: " + j["label"] + " (" + j["cfg"] + ")")
            continue
        ctx.add_tlc(r, ("all histories (breadth first) " if j["kind"] == "gen" else "simulated histories ") + j["cfg"] + ", real geometry, invariants checked on every state")
        if not r.cases:
            raise vlib.ModelFailure("%s exported no history" % j["cfg"])
        payloads = r.cases
        if j["kind"] == "gen":
            cap = GEN_CAP
            if len(payloads) > cap:
                payloads = [payloads[i] for i in sorted(rng.sample(range(len(payloads)), cap))]
        # simulation may export the same history twice
        seen = set()
        n = 0
        for p in payloads:
            key = json.dumps(p, sort_keys=True)
            if key in seen:
                continue
            seen.add(key)
            cases.append(make_case(p, j["fam"], "%s-%d" % (j["label"], n), rng, n, 8 if quick else 4))
            n += 1
        per_gen[j["label"]] = {"exported": len(r.cases), "replayed": n}
    ctx.extra["histories_per_config"] = per_gen
    return cases


def sig_of(c, r):
    k = r.get("step", -1)
    st = c["steps"][:k + 1] if isinstance(k, int) and k >= 0 else c["steps"]
    note = r.get("note", "")
    typ = note.split(" ")[0] if note.startswith(("type=", "pos=")) else ""
    return "%s %s %s" % (c["kind"], typ, " ".join("%s(%s)" % (s["a"], s["id"]) for s in st[-10:]))


def run_cases(ctx, cases, real_threshold=False):
    binary = vlib.build("indexmap_replay" + ("_real" if real_threshold else ""), "indexmap_replay.cpp", flags=build_flags(real_threshold))
    tmp = os.path.join(vlib.BUILD, "c12tmp.%d.%d" % (os.getpid(), threading.get_ident()))
    shutil.rmtree(tmp, ignore_errors=True)
    os.makedirs(tmp)
    stats = os.path.join(tmp, "stats.ndjson")
    try:
        t0 = time.time()
        res = vlib.replay_cases(binary, cases, timeout=3000, env={"VH_TMPDIR": tmp, "VH_STATS": stats},
                                nproc=min(vlib.NCPU, 4) if real_threshold else None)
        vlib.log("[C12] %d cases replayed in %.1fs" % (len(cases), time.time() - t0))
        sw = {"flex_objects": 0, "switched_to_dense": 0, "model_and_code_agree_on_switch_step": 0, "flex_family_objects": 0, "bulk_switch_steps": []}
        if os.path.exists(stats):
            with open(stats) as fh:
                for line in fh:
                    try:
                        d = json.loads(line)
                    except ValueError:
                        continue
                    sw["flex_objects"] += 1
                    sw["switched_to_dense"] += 1 if d["switched_at"] >= 0 else 0
                    if d["family"] == "bulk":
                        sw["bulk_switch_steps"].append(d["switched_at"])
                    if d["family"] == "flex":
                        sw["flex_family_objects"] += 1
                        sw["model_and_code_agree_on_switch_step"] += 1 if d["agree"] else 0
    finally:
        shutil.rmtree(tmp, ignore_errors=True)
    byid = {c["id"]: c for c in cases}
    if len(res) != len(cases):
        raise vlib.ModelFailure("replay returned %d results for %d cases" % (len(res), len(cases)))
    for r in res:
        if r.get("ok"):
            continue
        c = byid[r["id"]]
        if "crash" in r:
            what = "real index %s at step %s: %s" % (r["crash"], r.get("step"), r.get("stderr", "")[:700])
        else:
            what = "result differs from the spec at step %s (%s): exp=%s got=%s" % (
                r.get("step"), r.get("note", ""), json.dumps(r.get("exp"))[:300], json.dumps(r.get("got"))[:300])
        ctx.violation(sig_of(c, r), {"case": c, "result": r, "real_threshold": real_threshold}, what)
    return sw


def bulk_cases(ctx):
    """Thorough tier: the real 0xffffff threshold.  TLC chooses the pattern at unit granularity (one model id = 2^20
    consecutive real ids, MinDense = 16 units); the harness expands it (about 17-20 million entries per index)."""
    r = vlib.tlc_ok(vlib.tlc("IndexFlexMem", "SimIndexFlexMem_bulk.cfg", workers=2, simulate=150, depth=60, seed=ctx.seed, timeout=900,
                             tag="C12_bulk"), "bulk pattern")
    ctx.add_tlc(r, "bulk patterns: FlexMem at unit granularity (unit = 2^20 ids, MinDense = 16 units)")
    cases = []
    seen = set()
    switch_steps = set()
    for i, p in enumerate(r.cases):
        key = json.dumps(p, sort_keys=True)
        if key in seen:
            continue
        seen.add(key)
        # keep patterns in which the model switches to dense, each at a different step of the history
        sw = [k for k, s in enumerate(p["steps"]) if s["x"] == 1]
        if not sw or sw[0] in switch_steps or len(switch_steps) >= 3:
            continue
        switch_steps.add(sw[0])
        steps = [{k: s[k] for k in ("a", "id", "v", "def", "tab", "x")} for s in p["steps"]]
        for t in (["flex_mem", "sparse_mmap_array"], ["dense_mmap_array", "sparse_mem_array"], ["sparse_file_array", "dense_file_array"]):
            cases.append({"id": "bulk-%d-%s" % (i, t[0]), "kind": "bulk", "family": "bulk", "S": 1 << 20,
                          "hole_mod": 0 if len(switch_steps) % 2 == 1 else 4099, "hole_rem": 17, "types": t, "steps": steps})
    if not cases:
        raise vlib.ModelFailure("no simulated bulk pattern switches to dense")
    return cases


def build_flags(real_threshold):
    return [] if real_threshold else ["-DOSMIUM_VERIF_FLEXMEM_MIN_DENSE=%d" % MIN_DENSE_HOOK]


def run(ctx):
    import C12ext                   # MemoryMapping / mmap_vector / multimap layers (see C12ext.py), run after the map families
    C12ext.start_prebuild()
    # the (cold) harness build runs while TLC works
    err = []

    def prebuild():
        try:
            vlib.build("indexmap_replay", "indexmap_replay.cpp", flags=build_flags(False))
            if ctx.tier == "thorough":
                vlib.build("indexmap_replay_real", "indexmap_replay.cpp", flags=build_flags(True))
        except Exception as ex:      # re-raised on the main thread
            err.append(ex)
    bt = threading.Thread(target=prebuild)
    bt.start()
    try:
        cases = gen_cases(ctx)
    finally:
        bt.join()
    if err:
        raise err[0]
    sw = run_cases(ctx, cases)
    ctx.extra["flexmem_switch"] = sw
    if sw["switched_to_dense"] == 0 and not ctx.violations and not ctx.known_hits:
        # (a case stops at its first divergence, so a failing run may never reach its FlexMem object)
        raise vlib.ModelFailure("no FlexMem object switched to dense in any replayed history (hook not effective?)")
    if ctx.tier == "thorough":
        b = bulk_cases(ctx)
        swb = run_cases(ctx, b, real_threshold=True)
        ctx.extra["flexmem_switch_real_threshold"] = swb
        if swb["switched_to_dense"] == 0 and not ctx.violations and not ctx.known_hits:
            raise vlib.ModelFailure("no FlexMem object crossed the real 0xffffff threshold in the bulk histories")
        cases += b
    ctx.traces = len(cases)
    n_obj = 0
    evals = 0
    for c in cases:
        k = len(c.get("types", [])) or 2 * len(c.get("stores", []))
        n_obj += k
        for s in c["steps"]:
            evals += k * (len(s.get("tab", [])) * 2 + 1 + len(s.get("refs", [])) + len(s.get("irefs", [])))
    ctx.evaluations = evals
    distinct = set((c["kind"], json.dumps(c["steps"], sort_keys=True)) for c in cases)
    ctx.nontrivial = len(distinct)
    ctx.rule = ("a case = one history (set/sort/reserve/reload/dump_array/reopen/switch_to_dense, or node/way) replayed on every "
                "applicable map type; distinct by the history; evaluations = lookups (get and get_noexcept), node references and "
                "steps compared with the spec, summed over the map types")
    ctx.extra["index_objects_driven"] = n_obj
    seen = set()
    for c in cases:
        if c["family"] not in seen:
            seen.add(c["family"])
            ctx.sample({k: c[k] for k in c if k != "id"})
    ctx.assumptions = [
        "ids of one history are distinct; lookups are compared only when the spec says they are defined (after sort(), or ids inserted in ascending order)",
        "model ids >= 2^30 stand for 2^32-1, 2^32, 2^32+1, 2^32+65537, 2^40, 2^62+1.. (order preserving); dense types are only driven with ids < %d, "
        "dump_as_array only below that id" % ARRAY_LIMIT,
        "FlexMem's sparse-to-dense threshold is lowered to %d entries by the OSMIUM_VERIF_FLEXMEM_MIN_DENSE hook (spec constant MinDense = %d); "
        "the thorough tier additionally crosses the real 0xffffff threshold with bulk histories whose pattern TLC chose at 2^20-id granularity"
        % (MIN_DENSE_HOOK, MIN_DENSE_HOOK),
        "size()/used_memory()/is_dense() are not compared (not stated by the property); the step at which FlexMem switches is recorded as evidence only",
    ]
    C12ext.run_part(ctx)            # adds to ctx.traces / evaluations / nontrivial / assumptions; violations "ext:..."


def replay(ctx, path):
    with open(path) as fh:
        d = json.load(fh)
    if d["case"].get("ext"):
        import C12ext
        return C12ext.replay_part(ctx, d)
    c = d["case"]["case"]
    run_cases(ctx, [c], real_threshold=bool(d["case"].get("real_threshold")))
    ctx.traces = 1
    ctx.evaluations = len(c["steps"])
    ctx.nontrivial = 1
    ctx.states = ctx.transitions = 1
    ctx.sample({k: c[k] for k in c if k != "id"})
