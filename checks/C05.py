"""C05 - Reader delivers each selected object exactly once and in file order.
Spec: specs/ReaderPipeline.tla (shared with C07).  Design check: for every configuration (blocks x nested buffers x
entity selection x consumer script x queue bounds x pool/no pool x fd mode), under every interleaving of read thread,
parser, pool workers and consumer, the consumer log is Expected(cfg): the blocks of the file in file order, nested
buffers oldest first, blocks of unselected types skipped, end-of-data marker, then failing reads.
Binding: (1) mock decompressor/parser runs with nested buffers and out-of-order pool completion, log compared with
Expected(cfg) and trace validated against ReaderPipelineTrace.tla; (2) real PBF files read through the real PBF parser
(trace validated as well); (3) real XML/OPL/PBF files written by the library with every entity selection, read_meta
on/off, buffers_type any/single, pool sizes and queue bounds: flattened object sequence == selected objects of
Expected(cfg) in order."""
import random

import rpipe
import vlib

LEVEL = "model_checking"


def run(ctx):
    quick = ctx.tier == "quick"
    rnd = random.Random(ctx.seed + 5)
    nofault = lambda c: c["cfg"]["fault"]["k"] == "none"
    if quick:
        mcs = [("MCRP_q2.cfg", "safety: n=2 chunks, nested buffers, all faults, long scripts, bound 1, pool, fd", True),
               ("MCRP_skip.cfg", "safety: n<=2, every entity selection (skip sets), no faults", False)]
    else:
        mcs = [("MCRP_quick.cfg", "safety: n<=2, scripts<=2 + long, bounds 1/2, pool, fd", True),
               ("MCRP_skipT.cfg", "safety: n<=3, every entity selection (skip sets)", False),
               ("MCRP_n3.cfg", "safety: n=3 chunks, long scripts", False)]
    _, mock, mockfd, pbf, text = rpipe.parallel(lambda: rpipe.design(ctx, mcs, workers_each=4),
                                                lambda: rpipe.export(ctx, "mock"), lambda: rpipe.export(ctx, "mockfd"),
                                                lambda: rpipe.export(ctx, "realpbf"), lambda: rpipe.export(ctx, "realtext"))
    cases = []
    nseeds = 2 if quick else 4
    deep = lambda c: nofault(c) and c["cfg"]["n"] >= 1 and any(op in ("read", "readall") for op in c["cfg"]["script"])
    for i, c in enumerate(rpipe.sample(mock, 90 if quick else 2000, rnd, pred=deep,
                                       key=lambda c: (str(c["cfg"]["nest"]), c["cfg"]["pool"]))):
        cases.append(rpipe.mk_case(i, "mock", c, rnd, nseeds))
    for i, c in enumerate(rpipe.sample(mockfd, 40 if quick else 800, rnd, pred=deep,
                                       key=lambda c: (str(c["cfg"]["nest"]), c["cfg"]["pool"]))):
        cases.append(rpipe.mk_case(i, "mockfd", c, rnd, nseeds))
    okpbf = lambda c: nofault(c) and rpipe.mask_of(c["cfg"]) and rpipe.literal_reads_ok(c)
    for i, c in enumerate(rpipe.sample(pbf, 60 if quick else 800, rnd, pred=okpbf, key=lambda c: (str(c["cfg"]["skip"]), c["cfg"]["pool"]))):
        cases.append(rpipe.mk_case(i, "realpbf", c, rnd, nseeds, format="pbf", R=rnd.choice([3, 40]),
                                   mask=rpipe.mask_of(c["cfg"]), meta=True, single=False))
    # API level only: real parsers of all formats the library can write, large blocks (nested buffers inside PBF blobs,
    # XML/OPL buffers beyond the parser's buffer size in the thorough tier)
    def lit_reads(c):
        sc = c["cfg"]["script"]
        return len([k for k, op in enumerate(sc) if op == "read" and "readall" not in sc[:k] and "close" not in sc[:k]])
    # text formats deliver a small file in one buffer: at most one literal read() before readall/close can be aligned with the model
    okreal = lambda c: rpipe.mask_of(c["cfg"]) and rpipe.literal_reads_ok(c) and lit_reads(c) <= 1
    fmts = ["xml", "opl", "pbf", "pbf,pbf_dense_nodes=false", "pbf,pbf_compression=none"]
    for i, c in enumerate(rpipe.sample(text, 150 if quick else 1500, rnd, pred=okreal, key=lambda c: (str(c["cfg"]["skip"]), c["cfg"]["n"]))):
        cc = dict(c)
        cc["cfg"] = dict(c["cfg"], pool=rnd.choice([True, False]))
        # big files: a real read() delivers less than a model buffer, so only scripts without literal partial reads
        sc = c["cfg"]["script"]
        no_literal = not [k for k, op in enumerate(sc) if op == "read" and "readall" not in sc[:k]]
        big = (not quick) and i % 10 == 0 and no_literal
        cases.append(rpipe.mk_case(i, "real", cc, rnd, 1, format=fmts[i % len(fmts)],
                                   R=(rnd.choice([9000, 20000]) if big else rnd.choice([1, 30, 400])),
                                   mask=rpipe.mask_of(c["cfg"]), meta=rnd.choice([True, False]), single=rnd.choice([True, False]),
                                   # history files: every third object is a deleted version; its visible flag must arrive
                                   # with and without read_meta
                                   history=(i % 2 == 1)))
    nexec, nvalid = rpipe.run_cases(ctx, cases)
    import C07
    C07.finish(ctx, cases, nexec, nvalid)
    ctx.assumptions.append("real-format runs compare the flattened (type,id) sequence, the visible flag (history files with deleted versions) and "
                           "presence of metadata/tags with the model's file; "
                           "o5m is read-only in libosmium and is covered by C02/C06, not here")


def replay(ctx, path):
    import C07
    C07.replay(ctx, path)
