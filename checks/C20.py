"""C20 - handler dispatch and diff iteration visit each object once with the right context.
Specs: specs/Dispatch.tla (apply(): A-layer ExpectedLog, I-layer loop nest of apply_impl over the filtering
ItemIterator / InputIterator, pack expansion, flush) and specs/DiffIter.tla (DiffIterator's three cursors,
set_diff, apply_diff's handler recursion).  One TLC run per configuration does both jobs: it checks
I => A (invariants Refines, TypeOK/Cursors, NoThrow/AShape, deadlock = every behaviour reaches "done") and
exports every case with the log the spec computed.  Binding: harness/dispatch_replay.cpp runs every case
on the real osmium::apply / apply_diff / DiffIterator with real handler objects (static handlers with
const / non-const / both overloads, DynamicHandler, closures, ChainHandler) and compares the complete log
of callback invocations.
Extension (checks/C20ext.py, specs/TagRules.tla, harness/tagrules_replay.cpp): the rule-list filters over tags
(tags::Filter family, TagsFilter, TagMatcher, StringMatcher, filter iterator, match_*_of); signatures "ext:..."."""
import json
import os
import random
from concurrent.futures import ThreadPoolExecutor

import vlib

LEVEL = "model_checking"

# (module, cfg, label) - every Gen cfg lists the design-check invariants AND the Export operator
DISPATCH_Q = [
    ("MCDispatch", "GenDispatchS1.cfg", "single handlers (14 kinds) x 9 containers x all 13 item types + 4 removed items, length <= 1"),
    ("MCDispatch", "GenDispatchS2.cfg", "single handlers x 9 containers x sequences of length <= 2 over 7 item kinds"),
    ("MCDispatch", "GenDispatchP.cfg", "all 36 ordered pairs of 6 handler kinds x 4 containers x sequences of length <= 2"),
    ("MCDispatch", "GenDispatchM.cfg", "9 handler lists of length 3 and 4 x 3 containers x sequences of length <= 2"),
    ("MCDispatch", "GenDispatchR.cfg", "single handlers x real Reader x sequences of length <= 3 over node/way/relation/changeset"),
    ("MCDispatch", "GenDispatchC.cfg", "input iterators: every cut of sequences of length <= 2 into <= 3 buffers (empty buffers included)"),
]
DISPATCH_T = [
    ("MCDispatch", "GenDispatchS2T.cfg", "single handlers x 9 containers x sequences of length <= 2 over all 17 item symbols, <= 2 buffers"),
    ("MCDispatch", "GenDispatchS3T.cfg", "single handlers x 9 containers x sequences of length <= 3 over 7 item kinds"),
    ("MCDispatch", "GenDispatchPT.cfg", "36 handler pairs x 4 containers x sequences of length <= 2 over all 13 item types, <= 2 buffers"),
    ("MCDispatch", "GenDispatchP3T.cfg", "36 handler pairs x 4 containers x sequences of length <= 3 over 7 item kinds"),
    ("MCDispatch", "GenDispatchMT.cfg", "9 longer handler lists x 3 containers x sequences of length <= 2 over all 13 item types"),
    ("MCDispatch", "GenDispatchM3T.cfg", "9 longer handler lists x 3 containers x sequences of length <= 3 over 7 item kinds"),
    ("MCDispatch", "GenDispatchRT.cfg", "single handlers x real Reader x sequences of length <= 4 over node/way/relation/changeset"),
    ("MCDispatch", "GenDispatchCT.cfg", "input iterators: every cut of sequences of length <= 3 into <= 3 buffers (empty buffers included)"),
]
DIFF_Q = [
    ("MCDiffIter", "GenDiffIterI.cfg", "DiffIterator by hand: 5 keys x 0..2 versions, noise none/all, buffer/const buffer/input iterator with cuts"),
    ("MCDiffIter", "GenDiffIterA.cfg", "apply_diff: 4 keys x 0..2 versions, 5 handler lists, Buffer&/const Buffer&/iterators/source/Reader"),
]
DIFF_T = [
    ("MCDiffIter", "GenDiffIterIT.cfg", "DiffIterator by hand: 5 keys x 0..3 versions, 4 noise patterns, buffer/const buffer/input iterator with cuts"),
    ("MCDiffIter", "GenDiffIterAT.cfg", "apply_diff: 5 keys x 0..2 versions, 4 noise patterns, 5 handler lists, 5 sources"),
]
# design check only (no export), larger bounds, thorough tier
MC_T = [
    ("MCDispatch", "MCDispatchS3.cfg", "design check only: single handlers x 9 containers x all sequences of length <= 3 over all 13 item types"),
    ("MCDispatch", "MCDispatchP3.cfg", "design check only: 36 handler pairs x 4 containers x all sequences of length <= 3 over all 13 item types"),
    ("MCDiffIter", "MCDiffIter.cfg", "design check only: 3 keys x 0..3 versions, all cuts into <= 3 buffers of every sequence"),
]
DISPATCH_ACTIONS = ["Refill", "Seek", "ApplyItem", "NextItem", "Flush"]
DIFF_ACTIONS = ["Construct", "Deref", "Call", "Advance"]


def parallel_jobs(tier):
    """Independent TLC runs (small models, JVM start dominates) and the harness build run side by side.  When the
    development cap VERIF_TLC_WORKERS is set (shared machine) at most two processes are started at a time."""
    if os.environ.get("VERIF_TLC_WORKERS"):
        return 2
    return 6 if tier == "quick" else 5


def builds():
    return [dict(name="dispatch_replay_p1", src="dispatch_replay.cpp", flags=["-DC20_PART=1"], opt="-O0"),
            dict(name="dispatch_replay_p2", src="dispatch_replay.cpp", flags=["-DC20_PART=2"], opt="-O0")]


def builds_assert():
    # thorough tier: the same harness with libosmium's assertions enabled (the shipped tests build with -DNDEBUG)
    return [dict(name="dispatch_replay_p1a", src="dispatch_replay.cpp", flags=["-DC20_PART=1"], opt="-O0", ndebug=False),
            dict(name="dispatch_replay_p2a", src="dispatch_replay.cpp", flags=["-DC20_PART=2"], opt="-O0", ndebug=False)]


def build_all(with_assert):
    bins = vlib.build_many(builds())                      # two compilers side by side
    if with_assert:
        bins += vlib.build_many(builds_assert())
    return bins


def part_of(c):
    return 0 if c["kind"] == "diff" or len(c["hl"]) == 1 else 1   # index into builds(): p1 = singles and diff, p2 = longer lists


def gen_cases(ctx, pool):
    quick = ctx.tier == "quick"
    runs = (DISPATCH_Q + DIFF_Q) if quick else (DISPATCH_Q + DISPATCH_T + DIFF_Q + DIFF_T)
    mcs = [] if quick else MC_T
    nw = 4 if quick else 6

    def one(spec):
        mod, cfg, lab = spec
        cov = cfg in ("GenDispatchC.cfg", "GenDiffIterA.cfg")      # vacuity guard on one small run per spec
        return vlib.tlc(mod, cfg, workers=nw, coverage=cov, deadlock=True, timeout=3000, keep_out=True)

    futs = [(s, pool.submit(one, s)) for s in runs + mcs]
    cases = []
    seen = set()
    for (mod, cfg, lab), f in futs:
        r = vlib.tlc_ok(f.result(), lab)
        ctx.add_tlc(r, "%s: %s" % (cfg[:-4], lab))
        if cfg == "GenDispatchC.cfg":
            vlib.require_actions(r, DISPATCH_ACTIONS, "Dispatch.tla")
        if cfg == "GenDiffIterA.cfg":
            vlib.require_actions(r, DIFF_ACTIONS, "DiffIter.tla")
        if cfg.startswith("MC"):
            continue
        if not r.cases:
            raise vlib.ModelFailure("%s exported no case" % cfg)
        kind = "dispatch" if mod == "MCDispatch" else "diff"
        for c in r.cases:
            key = json.dumps(c, sort_keys=True)
            if key in seen:          # the quick configurations are contained in / overlap with the thorough ones
                continue
            seen.add(key)
            c["kind"] = kind
            c["id"] = "%s-%d" % (cfg[3:-4], len(cases))
            cases.append(c)
    return cases


def describe(c):
    if c["kind"] == "dispatch":
        return "cont=%s hl=%s items=%s chunks=%s" % (
            c["cont"], ",".join(c["hl"]), ",".join(i["t"] + ("*" if i["rm"] else "") for i in c["items"]),
            "+".join(str(x) for x in c["chunks"]))
    return "mode=%s hl=%s raw=%s chunks=%s" % (
        c["mode"], ",".join(c["hl"]), ",".join("%s%d.%d" % (i["t"][0], i["id"], i["v"]) for i in c["raw"]),
        "+".join(str(x) for x in c["chunks"]))


def classify(c, r):
    """-> (signature, what)"""
    d = describe(c)
    if "crash" in r:
        return "%s %s crash=%s" % (c["kind"], d, r["crash"]), \
               "real code %s: %s" % (r["crash"], r.get("stderr", "")[:700])
    exp, got = r.get("exp"), r.get("got")
    if c["kind"] == "dispatch" and isinstance(exp, list) and isinstance(got, list):
        rest = [e for e in exp if e.get("cb") != "call_Item"]
        if len(rest) != len(exp) and rest == got:
            # the ONLY difference: the closure taking const memory::Item& was not called (finding F13)
            return "dispatch-LI-only " + d, \
                   "function object taking const osmium::memory::Item& is never called (hidden by wrapper_handler's fallback)"
    k = r.get("step", -1)
    e1 = exp[k] if isinstance(exp, list) and isinstance(k, int) and 0 <= k < len(exp) else None
    g1 = got[k] if isinstance(got, list) and isinstance(k, int) and 0 <= k < len(got) else None
    if not isinstance(exp, list):
        e1, g1 = exp, got
    return "%s %s entry=%s exp=%s got=%s" % (c["kind"], d, k, json.dumps(e1, sort_keys=True), json.dumps(g1, sort_keys=True)), \
           "log of the real code differs from the spec at entry %s (%s): expected %s, got %s; full got log: %s" % (
               k, r.get("note", ""), json.dumps(e1), json.dumps(g1), json.dumps(got)[:600])


def replay_all(bins, cases):
    parts = [[], []]
    for c in cases:
        parts[part_of(c)].append(c)
    res = []
    for binary, part in zip(bins, parts):
        if part:
            res += vlib.replay_cases(binary, part, timeout=2400)
    return res


def run_cases(ctx, bins, cases):
    res = replay_all(bins, cases)
    if len(res) != len(cases):
        raise vlib.ModelFailure("replay returned %d results for %d cases" % (len(res), len(cases)))
    byid = {c["id"]: c for c in cases}
    for r in res:
        if r.get("ok"):
            continue
        c = byid[r["id"]]
        if r.get("step") == -2:
            raise vlib.ModelFailure("harness can not run an exported case (%s): %s" % (describe(c), json.dumps(r)[:400]))
        sig, what = classify(c, r)
        if ctx.violation(sig, {"case": c, "result": r}, what):
            cls = "%s %s %s" % (sig.split(" ", 1)[0], c.get("cont") or c.get("mode"), ",".join(c["hl"]))
            hist = ctx.extra.setdefault("violation_classes", {})
            hist[cls] = hist.get(cls, 0) + 1


def corrupt(c, rng):
    """A copy of the case whose expected log is wrong in one small way (harness sensitivity guard)."""
    c = json.loads(json.dumps(c))
    log = c["log"]
    how = rng.randrange(4)
    if how == 0 and len(log) >= 2 and log[0] != log[1]:
        log[0], log[1] = log[1], log[0]
    elif how == 1 and log:
        log.pop()
    elif how == 2 and log:
        e = log[rng.randrange(len(log))]
        if "q" in e:
            e["i"] = e["i"] + 1
        else:
            e["first"] = not e["first"]
    else:
        log.append(dict(log[-1]) if log else ({"h": 10, "cb": "flush", "i": 0, "q": ""} if c["kind"] == "dispatch" else
                                               {"h": 0, "cb": "visit", "p": 1, "c": 1, "n": 1, "first": True, "last": True, "et": 0}))
    c["id"] = "corrupt-" + c["id"]
    return c


def sensitivity_guard(ctx, bins, cases):
    rng = random.Random(ctx.seed)
    good = [c for c in cases if "LI" not in c["hl"]]       # (the LI cases are rejected anyway: known finding F20c)
    pick = rng.sample(good, min(60, len(good)))
    bad = [corrupt(c, rng) for c in pick]
    res = replay_all(bins, bad)
    accepted = [r["id"] for r in res if r.get("ok")]
    if accepted or len(res) != len(bad):
        raise vlib.ModelFailure("the replay harness accepted corrupted expected logs: %s" % accepted[:5])
    ctx.extra["corrupted_expectations_rejected"] = len(bad)


def run(ctx):
    import C20ext                   # rule-list filters (specs/TagRules.tla); its harness builds beside the work below
    C20ext.start_prebuild(ctx)
    with ThreadPoolExecutor(max_workers=parallel_jobs(ctx.tier)) as pool:
        fb = pool.submit(build_all, ctx.tier != "quick")
        cases = gen_cases(ctx, pool)
        bins = fb.result()
    run_cases(ctx, bins[:2], cases)
    if len(bins) > 2:
        run_cases(ctx, bins[2:], cases)
        ctx.extra["cases_replayed_again_with_assertions_enabled"] = len(cases)
    bins = bins[:2]
    if not ctx.violations:      # (with violations present a corrupted expectation may happen to describe the broken code)
        sensitivity_guard(ctx, bins, cases)
    ctx.traces = len(cases)
    ctx.evaluations = sum(len(c["log"]) + 1 for c in cases)
    ctx.nontrivial = sum(1 for c in cases if c["log"])
    ctx.exhaustive = True
    ctx.rule = ("a case = (container or diff mode, handler list, item sequence, buffer cuts) with the complete callback log "
                "computed by the spec; cases are distinct by construction (duplicates between configurations removed); "
                "nontrivial = expected log not empty; evaluations = log entries compared + one end-of-log comparison per case")
    st = {"dispatch": 0, "diff": 0, "diff_with_throw": 0, "dispatch_multi_buffer": 0, "diff_multi_buffer": 0, "real_reader": 0}
    conts = {}
    for c in cases:
        st[c["kind"]] += 1
        key = c.get("cont") or c.get("mode")
        conts[key] = conts.get(key, 0) + 1
        if key in ("reader", "ad_reader"):
            st["real_reader"] += 1
        if len(c["chunks"]) != 1:
            st["dispatch_multi_buffer" if c["kind"] == "dispatch" else "diff_multi_buffer"] += 1
        if c["kind"] == "diff" and any(e["cb"] == "throw" for e in c["log"]):
            st["diff_with_throw"] += 1
    ctx.extra["cases"] = st
    ctx.extra["cases_per_container"] = conts
    wanted = [
        lambda c: c["kind"] == "dispatch" and c["cont"] == "item" and len(c["hl"]) == 1 and len(c["items"]) == 2 and c["items"][0]["t"] == "tag_list",
        lambda c: c["kind"] == "dispatch" and "CH" in c["hl"] and len(c["hl"]) == 2 and len(c["log"]) >= 5,
        lambda c: c["kind"] == "dispatch" and len(c["hl"]) >= 3 and c["cont"] == "citem" and len(c["log"]) >= 6,
        lambda c: c["kind"] == "dispatch" and c["cont"] == "in_ent" and len(c["chunks"]) == 3 and len(c["log"]) >= 4,
        lambda c: c["kind"] == "diff" and c["mode"] == "it_input" and len(c["chunks"]) >= 2 and len(c["log"]) >= 4,
        lambda c: c["kind"] == "diff" and c["mode"] == "ad_cbuf" and len(c["hl"]) == 2 and len(c["log"]) >= 4 and c["log"][-1]["cb"] == "throw",
    ]
    for w in wanted:
        for c in cases:
            if w(c):
                ctx.sample({k: c[k] for k in c if k != "id"})
                break
    ctx.assumptions = [
        "removed items are dispatched like any other item: none of the iterators skips them (the spec ignores the flag)",
        "named deviations modelled as the code has them: handlers inside DynamicHandler and ChainHandler get only node/way/relation/"
        "area/changeset and flush (no osm_object, no sub-item callbacks); ChainHandler and handlers with only T& callbacks need a "
        "non-const container; wrapped function objects are offered the five entity types only; apply_diff has no flush and throws "
        "unknown_type at the first area",
        "handler lists: every kind alone, all ordered pairs of 6 kinds, 9 lists of length 3 and 4 (template combinations are "
        "instantiated at compile time); item identity = address of the item in the buffer (type,id,version for the real Reader)",
        "Reader cases are limited to what a file can deliver (node, way, relation, changeset; OPL, in memory)",
    ]
    C20ext.run_part(ctx)            # adds to ctx.traces / evaluations / nontrivial / rule / assumptions / extra


def replay(ctx, path):
    with open(path) as fh:
        d = json.load(fh)
    if str(d.get("signature", "")).startswith("ext:"):
        import C20ext
        return C20ext.replay_part(ctx, d)
    c = d["case"]["case"]
    bins = [None, None]
    bins[part_of(c)] = vlib.build(**builds()[part_of(c)])       # only the binary this case needs
    run_cases(ctx, bins, [c])
    ctx.evaluations = len(c["log"]) + 1
    ctx.nontrivial = 1
    ctx.traces = 1
    ctx.states = ctx.transitions = 1
    ctx.sample({k: c[k] for k in c if k != "id"})


def selftest(ctx):
    """Harness sensitivity only (the mutation runs on a copy of the headers are described in DESIGN.md)."""
    with ThreadPoolExecutor(max_workers=parallel_jobs(ctx.tier)) as pool:
        fb = pool.submit(build_all, False)
        cases = gen_cases(ctx, pool)
        bins = fb.result()
    sensitivity_guard(ctx, bins, cases)
    vlib.log("selftest: %d corrupted expectations rejected" % ctx.extra["corrupted_expectations_rejected"])
    return 0
