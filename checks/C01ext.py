"""C01, extension part (called from checks/C01.py): what sits UPSTREAM of the option vector of RoundTrip.tla, and
the checksum as a second observer of the round trip.

  specs/FileSpec.tla        osmium::io::File: (file name, format string) -> [filename, format, compression, history,
                            options] or check() error.  A-layer = the documented scheme (longest [TYPE.][FORMAT.][COMPRESSION]
                            tail, option map with later-wins, history override, URL default, stdin/stdout); I-layer = the
                            parser as written (constructor, parse_format, the three blocks of detect_format_from_suffix
                            on the suffix vector, option loop, setters, check()).  TLC: I => A on the documented domain,
                            the named deviations N1-N3/F1/F2 outside it (vacuity: they must show), every case exported.
  specs/FileSpecMd.tla      osmium::metadata_options: field set vs bit mask, string meaning, &= |= set_x, to_string law.
  specs/FileSpecHeader.tla  osmium::io::Header / osmium::Options / Box::extend: option map, boxes, box(), joined_boxes().
  specs/FileSpecCrc.tla     osmium::CRC<>: the checksum input is AFeed(content) for every physical layout of the object
                            (sub-item order, absent/empty lists, which memory, which builder) and AFeed(CProject(o, content))
                            after a PBF/XML/OPL round trip; blind spots K1-K4 stated and checked.
Binding: replay by harness/filespec_replay.cpp on the real classes - every accessor after every call, exception class
and message of check() and of metadata_options, the byte stream CRC<> feeds to its policy class (recorded) against the
spec's feed, CRC_zlib against zlib's crc32 of that feed.  Violations carry signatures starting with "ext:"."""
import collections
import hashlib
import json
import os
import shutil
import threading
import time

import vlib

_early = {}


def harness_name():
    # a scratch tree (VERIF_REPO) must not evict the binary built for /repo (concurrent checks)
    if vlib.REPO == "/repo":
        return "filespec_replay"
    return "filespec_replay_" + hashlib.sha256(vlib.REPO.encode()).hexdigest()[:8]


def build():
    return vlib.build(harness_name(), "filespec_replay.cpp")


def start_prebuild():
    """Optional: C01.run() calls this first so that a cold build of the extension's harness runs beside C01's own work.
    run_part() works without it."""
    if "thread" in _early:
        return

    def bg():
        try:
            _early["bin"] = build()
        except Exception as ex:  # re-raised by _binary()
            _early["err"] = ex

    _early["thread"] = threading.Thread(target=bg, daemon=True)
    _early["thread"].start()


def _binary():
    t = _early.get("thread")
    if t is not None:
        t.join()
        if "err" in _early:
            raise _early["err"]
        return _early["bin"]
    return build()


# ------------------------------------------------------------------------------------------ plan

FILE_ACTIONS = ["Choose", "Ctor", "Parse", "DComp", "DFmt", "DType", "Opt", "Hist", "Constructed", "Setter", "Check"]
MD_ACTIONS = ["Begin", "BeginDefault", "Keyword", "Attr", "AttrEnd", "Constructed", "Thrown", "SetField", "AndAssign", "OrAssign", "Reparse", "Finish"]
HDR_ACTIONS = ["Construct", "Set", "SetBool", "SetData", "AddBox", "SetBoxes", "SetMulti", "Finish"]
CRC_ACTIONS = ["Choose", "UpdFixed", "UpdTags", "UpdBody", "UpdRing", "RingsEnd", "Finish", "RoundTrip"]


def plan(ctx):
    """jobs: dict(module, cfg, label, kind=None|file|md|header|crc, tag, fail=None|<invariant>, cov=None|[actions], workers)"""
    q = ctx.tier == "quick"
    T = "Q" if q else "T"
    jobs = [
        # ---- osmium::io::File: exhaustive design checks (no export), then the export configurations (same invariants)
        dict(module="FileSpec", cfg="MCFileSpecFmt%s.cfg" % T, workers=3,
             label="File: format part = every sequence of <= 3 tokens over %d tokens x <= 1 option x %d name classes x both constructors" % ((7, 6) if q else (16, 6))),
        dict(module="FileSpec", cfg="MCFileSpecOpts%s.cfg" % T, workers=3,
             label="File: 7 heads x every sequence of <= 3 option parts over %d parts (history, add_metadata spellings, overrides, empty part)" % (8 if q else 24)),
        dict(module="FileSpec", cfg="MCFileSpecSet%s.cfg" % T, workers=2, cov=FILE_ACTIONS,
             label="File: constructor then <= %d setter calls over 16 setters, then check()" % (2 if q else 3)),
        dict(module="FileSpec", cfg="MCFileSpecDeviation.cfg", fail="NoDeviation", workers=2,
             label="File vacuity: with the whole name space the implementation-shaped layer must differ from the documented scheme somewhere (N1-N3)"),
        dict(module="FileSpec", cfg="GenFileSpecNames%s.cfg" % T, kind="file", tag="N", workers=3,
             label="File: every name of <= 4 '.'-separated tokens over %d tokens (keywords, unknown, empty, URL stems), no format string: "
                   "I => A on the domain, check() verdict, termination; exported" % (12 if q else 15)),
        dict(module="FileSpec", cfg="GenFileSpecFmtQ.cfg", kind="file", tag="F", workers=2,
             label="File export: every format part of <= 3 tokens over 7 tokens x 0/1 option x 5 name classes x both constructors"),
        dict(module="FileSpec", cfg="GenFileSpecOpts%s.cfg" % T, kind="file", tag="O", workers=2,
             label="File export: 7 heads x every sequence of <= %d option parts over 12 parts" % (2 if q else 3)),
        dict(module="FileSpec", cfg="GenFileSpecSet%s.cfg" % T, kind="file", tag="S", workers=2,
             label="File export: constructor, <= %d setter calls, check()" % (1 if q else 2)),
        # ---- osmium::metadata_options
        dict(module="FileSpecMd", cfg="MCFileSpecMd.cfg", workers=3, cov=MD_ACTIONS,
             label="metadata_options: 834 attribute strings x <= 2 operations (set_x, &=, |= with all 32 sets, reparse): mask = set, text law"),
        dict(module="FileSpecMd", cfg="GenFileSpecMd%s.cfg" % T, kind="md", tag="M", workers=2,
             label="metadata_options export: every attribute string; %s" % ("8 starting points x every sequence of <= 2 operations" if q else "5 starting points x every sequence of <= 3 operations")),
        # ---- osmium::io::Header
        dict(module="FileSpecHeader", cfg="MCFileSpecHeader%s.cfg" % T, workers=3, cov=HDR_ACTIONS,
             label="Header: all histories of <= %d calls:" % (3 if q else 4) + " option map, joined_boxes = bounding box of the valid corners"),
        dict(module="FileSpecHeader", cfg="GenFileSpecHeader%s.cfg" % T, kind="header", tag="H", workers=2,
             label="Header export: all histories of <= %d calls" % (2 if q else 3)),
        # ---- osmium::CRC
        dict(module="FileSpecCrc", cfg="GenFileSpecCrc%s.cfg" % T, kind="crc", tag="C", workers=2, cov=CRC_ACTIONS,
             label="CRC: feed = AFeed(content) for every layout x 7 physical variants of 99 contents, feed injective up to K1-K4, round trips "
                   "over %d option vectors (checked and exported)" % (21 if q else 108)),
    ]
    if not q:
        jobs.append(dict(module="FileSpec", cfg="GenFileSpecFmtT.cfg", kind="file", tag="FT", workers=3,
                         label="File export: every format part of <= 3 tokens over all 16 tokens (every format keyword) x 5 name classes x both constructors"))
        jobs.insert(0, dict(module="FileSpec", cfg="MCFileSpecNamesT.cfg", workers=4,
                            label="File: every name of <= 4 '.'-separated tokens over 24 tokens (keywords, unknown, empty, URL stems, '-'), no format "
                                  "string: I => A on the domain, check() verdict, termination"))
        jobs.append(dict(module="FileSpecCrc", cfg="MCFileSpecCrc.cfg", workers=2, label="CRC: the same without history variable, 108 round-trip option vectors"))
    else:
        for j in jobs:
            j["workers"] = 2
    return jobs


# ------------------------------------------------------------------------------------------ TLC + export to files

class Gen:
    """cases of one export job, streamed to an NDJSON file (the thorough tier exports several 100000 of them)"""

    def __init__(self, job, dirpath):
        self.job = job
        self.path = os.path.join(dirpath, "%s.ndjson" % job["tag"])
        self.n = 0
        self.fh = open(self.path, "w")
        self.stats = collections.Counter()
        self.samples = []

    def add(self, payload):
        c = payload
        c["id"] = "%s-%d" % (self.job["tag"], self.n)
        c["k"] = self.job["kind"]
        if c["k"] == "crc":
            c["n"] = self.n
        self.n += 1
        observe(c, self.stats)
        if len(self.samples) < 2 or (self.n % 997 == 0 and len(self.samples) < 4):
            self.samples.append(c)
        self.fh.write(json.dumps(c, separators=(",", ":")) + "\n")

    def close(self):
        self.fh.close()

    def chunks(self, size=15000):
        with open(self.path) as fh:
            buf = []
            for line in fh:
                buf.append(json.loads(line))
                if len(buf) >= size:
                    yield buf
                    buf = []
            if buf:
                yield buf


def observe(c, st):
    """what the exported cases contain (vacuity guards and evidence)"""
    k = c["k"]
    if k == "file":
        st["file_cases"] += 1
        st["file_dom_in" if c["dom"] else "file_dom_out"] += 1
        st["file_ctor_" + c["ctor"]] += 1
        first = c["steps"][0]["exp"]
        st["file_format_" + first["format"]] += 1
        st["file_compression_" + first["compression"]] += 1
        if first["multi"]:
            st["file_history"] += 1
        if first["view"]["md"] == ["error"]:
            st["file_add_metadata_error"] += 1
        if first["view"]["fmt"] == "xmlchange":
            st["file_xml_change"] += 1
        chk = c["steps"][-1]["exp"]
        st["file_check_ok" if chk["ok"] else "file_check_error"] += 1
        if not chk["ok"]:
            st["file_check_error_%s_%s" % ("fs" if chk["withfs"] else "nofs", "stdio" if chk["stdio"] else "named")] += 1
        st["file_steps"] += len(c["steps"])
        for s in c["steps"]:
            if s["a"] == "setter":
                st["file_setter_" + s["x"]["op"]] += 1
    elif k == "md":
        st["md_cases"] += 1
        st["md_steps"] += len(c["steps"])
        if "error" in c["steps"][0]["exp"]:
            st["md_error"] += 1
        for s in c["steps"][1:]:
            st["md_op_" + s["a"]] += 1
    elif k == "header":
        st["header_cases"] += 1
        st["header_steps"] += len(c["steps"])
        for s in c["steps"]:
            st["header_op_" + s["a"]] += 1
        j = c["steps"][-1]["exp"]["joined"]
        st["header_joined_undefined" if j["bl"]["x"] == 99 else "header_joined_defined"] += 1
        if len(c["steps"][-1]["exp"]["boxes"]) >= 2:
            st["header_two_or_more_boxes"] += 1
    elif k == "crc":
        st["crc_cases"] += 1
        st["crc_%s_%s" % (c["kind"], c["c"]["t"])] += 1
        if c["kind"] == "layout":
            st["crc_mem_" + c["mem"]] += 1
            kinds = [s["kind"] for s in c["subs"]]
            if kinds and kinds[0] != "tags" and "tags" in kinds:
                st["crc_tags_not_first"] += 1
            if any(not s["data"] for s in c["subs"]):
                st["crc_empty_subitem_present"] += 1
        else:
            st["crc_rt_" + c["opt"]["fmt"]] += 1
            if c["feed"] != c["feed0"]:
                st["crc_rt_changes_feed"] += 1
            else:
                st["crc_rt_keeps_feed"] += 1


NEED = {
    "file": ["file_dom_in", "file_dom_out", "file_ctor_name", "file_ctor_buffer", "file_check_ok", "file_history", "file_add_metadata_error",
             "file_xml_change", "file_check_error_fs_stdio", "file_check_error_fs_named", "file_check_error_nofs_stdio", "file_check_error_nofs_named",
             "file_compression_none", "file_compression_gzip", "file_compression_bzip2"]
            + ["file_format_" + f for f in ("unknown", "xml", "pbf", "opl", "o5m")]
            + ["file_setter_" + s for s in ("set_format", "set_compression", "set_multi", "filename", "set", "set_bool", "set_data")],
    "md": ["md_error", "md_op_set", "md_op_and", "md_op_or", "md_op_reparse"],
    "header": ["header_joined_undefined", "header_joined_defined", "header_two_or_more_boxes"] + ["header_op_" + a for a in
               ("construct", "set", "set_bool", "set_data", "add_box", "boxes", "set_multi")],
    "crc": ["crc_tags_not_first", "crc_empty_subitem_present", "crc_rt_changes_feed", "crc_rt_keeps_feed", "crc_rt_pbf", "crc_rt_xml", "crc_rt_opl"]
           + ["crc_mem_" + m for m in ("plain", "grow", "offset", "copy", "dirty", "attr", "revset")]
           + ["crc_layout_" + t for t in ("node", "way", "relation", "area", "changeset")],
}
NEED_THOROUGH = ["file_format_" + f for f in ("json", "debug", "blackhole", "ids")]


def run_tlc(ctx, dirpath, binary_thunk):
    jobs = plan(ctx)
    capped = bool(os.environ.get("VERIF_TLC_WORKERS"))
    gens = {}

    def thunk(j):
        def go():
            kw = dict(workers=j["workers"], timeout=2400, java_opts=["-Xmx4g"], extra=["-noGenerateSpecTE"],
                      coverage=bool(j.get("cov")), keep_out=True, tag="C01ext_" + j["cfg"][:-4])
            if j.get("kind"):
                g = gens[j["cfg"]] = Gen(j, dirpath)
                kw["case_cb"] = g.add
            r = vlib.tlc(j["module"], j["cfg"], **kw)
            if j.get("kind"):
                gens[j["cfg"]].close()
            return r
        return go

    res = vlib.parallel(binary_thunk, *[thunk(j) for j in jobs], max_workers=(3 if capped else 6))
    binary = res[0]
    for j, r in zip(jobs, res[1:]):
        if j.get("fail"):
            if r.error:
                raise vlib.ModelFailure("%s: TLC error: %s" % (j["cfg"], r.error[:2000]))
            if not r.violation or ("Invariant %s is violated" % j["fail"]) not in r.violation:
                raise vlib.ModelFailure("%s: %s must be violated (vacuity guard), TLC said: %s" % (j["cfg"], j["fail"], (r.violation or "no violation")[:400]))
            ctx.add_tlc(r, j["label"] + " - violated as required")
            continue
        vlib.tlc_ok(r, j["cfg"])
        if j.get("cov"):
            vlib.require_actions(r, j["cov"], j["cfg"])
        ctx.add_tlc(r, j["label"])
        if j.get("kind") and gens[j["cfg"]].n == 0:
            raise vlib.ModelFailure("%s: TLC exported no case" % j["cfg"])
    return binary, [gens[j["cfg"]] for j in jobs if j.get("kind")]


# ------------------------------------------------------------------------------------------ replay

def _join(toks, sep):
    return sep.join(toks)


def fs_text(fs):
    out = []
    for p in fs:
        if p["t"] == "fmt":
            out.append(".".join(p["sfx"]))
        else:
            out.append(p["k"] + ("=" + "+".join(p["v"]) if p["eq"] else ""))
    return ",".join(out)


def describe(c):
    k = c["k"]
    if k == "file":
        s = "file ctor=%s name='%s' fs='%s'" % (c["ctor"], ".".join(c["name"]), fs_text(c["fs"]))
        sets = [st["x"] for st in c["steps"] if st["a"] == "setter"]
        if sets:
            s += " setters=" + json.dumps(sets, sort_keys=True, separators=(",", ":"))
        return s
    if k == "md":
        return "md " + " ".join("%s(%s)" % (s["a"], "+".join(s["x"]) if isinstance(s["x"], list) else json.dumps(s["x"], sort_keys=True, separators=(",", ":")))
                                for s in c["steps"])
    if k == "header":
        return "header " + " ".join("%s%s" % (s["a"], json.dumps(s["x"], sort_keys=True, separators=(",", ":"))) for s in c["steps"])
    h = hashlib.sha256(json.dumps(c["c"], sort_keys=True).encode()).hexdigest()[:8]
    if c["kind"] == "layout":
        return "crc layout type=%s content=%s mem=%s subs=%s" % (c["c"]["t"], h, c["mem"], ",".join(s["kind"] + ("" if s["data"] else "(empty)") for s in c["subs"]) or "-")
    o = c["opt"]
    return "crc roundtrip type=%s content=%s fmt=%s md=%s hist=%s low=%s" % (c["c"]["t"], h, o["fmt"], "+".join(sorted(o["md"])) or "none",
                                                                          str(o["hist"]).lower(), str(o["low"]).lower())


def signature(c, r):
    if "crash" in r:
        what = "crash=%s step=%s" % (r["crash"], r.get("step"))
    else:
        what = "step=%s %s" % (r.get("step"), r.get("note", "")[:90])
    return "ext:%s %s" % (describe(c), what)


def judge(ctx, c, r, crcs):
    if r.get("skipped"):
        return
    if r.get("ok"):
        if c["k"] == "crc":
            crcs[json.dumps(c["feed"], sort_keys=True)].add(r["info"]["crc"])
        return
    if "crash" in r:
        what = "real class %s while replaying %s: %s" % (r["crash"], describe(c), r.get("stderr", "")[-800:])
    else:
        what = "%s - step %s (%s): expected %s got %s" % (describe(c), r.get("step"), r.get("note", ""),
                                                          json.dumps(r.get("exp"))[:300], json.dumps(r.get("got"))[:300])
    ctx.violation(signature(c, r), {"case": c, "result": r, "ext": True}, what)


def replay_gens(ctx, binary, gens, tmp):
    crcs = collections.defaultdict(set)
    n = 0
    for g in gens:
        nproc = max(2, vlib.NCPU // 2)
        for chunk in g.chunks():
            res = vlib.replay_cases(binary, chunk, nproc=nproc, timeout=1800, args=[tmp])
            if len(res) != len(chunk):
                raise vlib.ModelFailure("ext replay returned %d results for %d cases" % (len(res), len(chunk)))
            byid = {c["id"]: c for c in chunk}
            for r in res:
                judge(ctx, byid[r["id"]], r, crcs)
            n += len(chunk)
    # the checksum is a function of the feed and (sanity on this small set, not a collision claim) injective on it
    multi = [f for f, s in crcs.items() if len(s) > 1]
    for f in multi[:3]:
        ctx.violation("ext:crc one feed, several checksums feed=%s" % hashlib.sha256(f.encode()).hexdigest()[:10], {"feed": json.loads(f), "crcs": sorted(crcs[f]), "ext": True, "aggregate": True},
                      "objects with the same checksum input have different checksums: %s" % sorted(crcs[f]))
    byval = collections.defaultdict(list)
    for f, s in crcs.items():
        for v in s:
            byval[v].append(f)
    for v, fl in byval.items():
        if len(fl) > 1:
            ctx.violation("ext:crc distinct contents of the distinguishing set share the checksum %d" % v, {"feeds": [json.loads(f) for f in fl[:2]], "crc": v, "ext": True, "aggregate": True},
                          "two contents of the distinguishing set with different checksum inputs have the same CRC32 %d" % v)
    return n, len(crcs)


def run_part(ctx):
    t0 = time.time()
    base = os.path.join(vlib.BUILD, "tmp", "C01ext_%d" % os.getpid())
    shutil.rmtree(base, ignore_errors=True)
    os.makedirs(os.path.join(base, "scratch"))
    try:
        binary, gens = run_tlc(ctx, base, _binary)
        st = collections.Counter()
        for g in gens:
            st.update(g.stats)
        missing = [k for kind in NEED for k in NEED[kind] if not st[k]]
        if ctx.tier != "quick":
            missing += [k for k in NEED_THOROUGH if not st[k]]
        if missing:
            raise vlib.ModelFailure("C01ext: the export is vacuous for: %s" % missing)
        total = sum(g.n for g in gens)
        vlib.log("[C01ext] design checks + export of %d cases + harness build: %.1fs" % (total, time.time() - t0))
        t1 = time.time()
        n, nfeeds = replay_gens(ctx, binary, gens, os.path.join(base, "scratch"))
        vlib.log("[C01ext] replay of %d cases: %.1fs" % (n, time.time() - t1))
        ctx.traces += total
        ctx.evaluations += st["file_steps"] + st["md_steps"] + st["header_steps"] + st["crc_cases"]
        ctx.nontrivial += total          # TLC's states are distinct, every exported case is a different (arguments, call history)
        ctx.rule += ("; extension: a case = (File constructor arguments, setter calls) | (metadata_options string, operations) | "
                     "(Header call history) | (object content, physical layout or round-trip option vector); distinct by that tuple; "
                     "evaluations = API calls after which every accessor is compared + checksums compared")
        for g in gens:
            for c in g.samples[-1:]:
                d = {"ext": True, "what": describe(c)}
                if "steps" in c:
                    d["expected_last"] = c["steps"][-1]["exp"]
                else:
                    d["feed_items"] = len(c["feed"])
                ctx.sample(d, cap=12)
        ctx.extra["ext_cases_per_family"] = {g.job["tag"] + ":" + g.job["cfg"][:-4]: g.n for g in gens}
        ctx.extra["ext_export_contains"] = dict(sorted(st.items()))
        ctx.extra["ext_crc_distinct_feeds_with_one_checksum_each"] = nfeeds
        ctx.assumptions += [
            "ext: strings are token sequences (file name '.', format string ',', option value '+'); the harness joins them; character-level "
            "behaviour of std::getline / find_first_of is modelled per token (GetlineSplit drops one trailing empty item, the protocol is the text "
            "before the first ':' of the first token) and confirmed by the replay of the real parser on the joined strings",
            "ext: File's A-layer (documented scheme) is claimed on the domain ADom only; outside it (N1 stem read as a suffix, N2 trailing '.', "
            "N3 a file called http/https, F1 junk in front of a known format tail, F2 empty parts) the implementation-shaped layer is the oracle",
            "ext: the blob compression option (pbf_compression) and pbf_compression_level are parsed by the PBF output format, not by File: not in WView",
            "ext: CRC - the feed is the one crc.hpp documents (K1 changeset id of objects not fed, Changeset id fed as 64 bit); 'different contents "
            "give different checksums' is checked on the 99-content distinguishing set as a sanity check, not as a collision claim; little-endian host",
            "ext: round trips for the checksum use one object per file and the value tokens 0/a/b (ids 0, 0x0102030405060708, -2; valid coordinates)",
        ]
    finally:
        shutil.rmtree(base, ignore_errors=True)


def replay_case(ctx, d):
    payload = d["case"]
    ctx.states = ctx.transitions = 1
    ctx.traces = 1
    ctx.nontrivial = 1
    if payload.get("aggregate"):
        # a cross-case finding (two cases, one checksum): re-run the whole CRC family
        ctx.tier = d.get("tier", "quick")
        base = os.path.join(vlib.BUILD, "tmp", "C01ext_%d" % os.getpid())
        shutil.rmtree(base, ignore_errors=True)
        os.makedirs(os.path.join(base, "scratch"))
        try:
            job = [j for j in plan(ctx) if j.get("kind") == "crc"][0]
            g = Gen(job, base)
            vlib.tlc_ok(vlib.tlc(job["module"], job["cfg"], workers=2, extra=["-noGenerateSpecTE"], case_cb=g.add, tag="C01ext_replay"), job["cfg"])
            g.close()
            n, _ = replay_gens(ctx, build(), [g], os.path.join(base, "scratch"))
            ctx.evaluations = n
        finally:
            shutil.rmtree(base, ignore_errors=True)
        return
    c = payload["case"]
    tmp = os.path.join(vlib.BUILD, "tmp", "C01ext_%d" % os.getpid())
    shutil.rmtree(tmp, ignore_errors=True)
    os.makedirs(tmp)
    try:
        res = vlib.replay_cases(build(), [c], nproc=1, timeout=600, args=[tmp])
        crcs = collections.defaultdict(set)
        for r in res:
            judge(ctx, c, r, crcs)
    finally:
        shutil.rmtree(tmp, ignore_errors=True)
    ctx.evaluations = len(c.get("steps", [1]))
    ctx.sample({"ext": True, "what": describe(c)})


def selftest(ctx):
    """Binding of the extension's replay itself: doctored expectations have to be reported, the undoctored cases accepted
    (no tree is touched)."""
    import copy
    picks = []
    for module, cfg, kind, tag in (("FileSpec", "GenFileSpecSetQ.cfg", "file", "tS"), ("FileSpecMd", "GenFileSpecMdQ.cfg", "md", "tM"),
                                   ("FileSpecHeader", "GenFileSpecHeaderQ.cfg", "header", "tH"), ("FileSpecCrc", "GenFileSpecCrcQ.cfg", "crc", "tC")):
        got = []
        vlib.tlc_ok(vlib.tlc(module, cfg, workers=2, extra=["-noGenerateSpecTE"], case_cb=got.append, tag="C01ext_selftest_" + tag), cfg)
        got.sort(key=lambda c: json.dumps(c, sort_keys=True))
        for i, c in enumerate(got):
            c["id"] = "%s-%d" % (tag, i)
            c["k"] = kind
            c["n"] = i
        picks.append(got)
    files, mds, hdrs, crcs = picks
    f1 = next(c for c in files if c["steps"][0]["exp"]["multi"] and len(c["steps"]) == 3)
    f2 = next(c for c in files if not c["steps"][-1]["exp"]["ok"])
    m1 = next(c for c in mds if len(c["steps"]) == 3 and "error" not in c["steps"][0]["exp"])
    h1 = next(c for c in hdrs if c["steps"][-1]["exp"]["joined"]["bl"]["x"] != 99)
    c1 = next(c for c in crcs if c["kind"] == "layout" and c["c"]["t"] == "way" and c["mem"] == "grow")
    c2 = next(c for c in crcs if c["kind"] == "roundtrip" and c["opt"]["fmt"] == "opl" and c["feed"] != c["feed0"])

    def doctor(c, fn, name):
        d = copy.deepcopy(c)
        d["id"] = "doctored-" + name
        fn(d)
        return d

    def flip_multi(d):
        d["steps"][0]["exp"]["multi"] = False
        d["steps"][0]["exp"]["view"]["hist"] = False

    def accept_unknown(d):
        d["steps"][-1]["exp"]["ok"] = True

    def other_text(d):
        d["steps"][-1]["exp"]["str"] = ["version"] if d["steps"][-1]["exp"]["str"] != ["version"] else ["uid"]

    def move_corner(d):
        d["steps"][-1]["exp"]["joined"]["tr"]["x"] = -2 if d["steps"][-1]["exp"]["joined"]["tr"]["x"] != -2 else 2

    def drop_feed_item(d):
        d["feed"] = d["feed"][:1] + d["feed"][2:]

    def keep_everything(d):
        d["feed"] = d["feed0"]

    doctored = [doctor(f1, flip_multi, "file-multi"), doctor(f2, accept_unknown, "file-check"), doctor(m1, other_text, "md-text"),
                doctor(h1, move_corner, "header-joined"), doctor(c1, drop_feed_item, "crc-feed"), doctor(c2, keep_everything, "crc-roundtrip")]
    plain = [f1, f2, m1, h1, c1, c2]
    tmp = os.path.join(vlib.BUILD, "tmp", "C01ext_%d" % os.getpid())
    shutil.rmtree(tmp, ignore_errors=True)
    os.makedirs(tmp)
    try:
        cases = doctored + plain
        res = vlib.replay_cases(build(), cases, nproc=2, timeout=600, args=[tmp])
        byid = {c["id"]: c for c in cases}
        crcmap = collections.defaultdict(set)
        for r in res:
            judge(ctx, byid[r["id"]], r, crcmap)
    finally:
        shutil.rmtree(tmp, ignore_errors=True)
    reported = set(v[1]["case"]["id"] for v in ctx.violations)
    ok = reported == set(d["id"] for d in doctored) and len(res) == len(cases)
    vlib.log("selftest (extension): %d doctored expectations reported, %d undoctored cases accepted: %s"
             % (len(reported & set(d["id"] for d in doctored)), len(plain) - len(reported & set(c["id"] for c in plain)), "OK" if ok else "FAILED"))
    for v in ctx.violations:
        vlib.log("  reported: " + v[0][:170])
    ctx.violations = []
    return 0 if ok else 2
