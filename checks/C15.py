"""C15 - id sets, relation maps and the item stash match their set/map models.
Specs: IdSetDense.tla, IdSetSmall.tla, RelationsMap.tla, ItemStash.tla (each with I- and A-layer, I => A checked by
TLC).  Binding: histories exported by TLC (BFS + simulation) are replayed on the real containers
(harness/containers_replay.cpp), every return value / size / iteration / lookup compared."""
import json
import vlib

LEVEL = "model_checking"


def gen_cases(ctx):
    quick = ctx.tier == "quick"
    cases = []
    nsim = 400 if quick else 8000
    mcs = (("IdSetDense", "MCIdSetDense.cfg", "IdSetDense I=>A, 12 boundary ids, all histories to depth 7"),
           ("IdSetSmall", "MCIdSetSmall.cfg", "IdSetSmall I=>A, all histories to depth 7"),
           ("RelationsMap", "MCRelationsMap.cfg", "RelationsMap I=>A, all stashes of <= 3 pairs x 3 builders"),
           ("ItemStash", "MCItemStash.cfg", "ItemStash I=>A, all histories to depth 10, automatic GC reachable"))
    jobs = [(lambda m=m, c=c: vlib.tlc(m, c, timeout=1500, workers=6)) for m, c, _ in mcs]
    jobs += [lambda: vlib.tlc("IdSetDense", "GenIdSetDense.cfg", workers=4, simulate=nsim, depth=13, seed=ctx.seed),
             lambda: vlib.tlc("IdSetSmall", "GenIdSetSmall.cfg", workers=4, simulate=nsim, depth=13, seed=ctx.seed),
             lambda: vlib.tlc("RelationsMap", "GenRelationsMap.cfg", workers=6),
             lambda: vlib.tlc("ItemStash", "GenItemStash.cfg", workers=4, simulate=nsim // 2, depth=15, seed=ctx.seed),
             lambda: vlib.build("containers_replay", "containers_replay.cpp", flags=["-DOSMIUM_VERIF_STASH_GC_MIN=2"])]
    res = vlib.parallel(*jobs)
    for (mod, cfg, lab), r in zip(mcs, res[:4]):
        ctx.add_tlc(vlib.tlc_ok(r, lab), lab)
    # IdSetDense: simulated histories, replayed on several instantiations
    r = vlib.tlc_ok(res[4], "dense export")
    ctx.add_tlc(r, "IdSetDense simulated histories (depth 12)")
    for i, c in enumerate(r.cases):
        variants = ["u32low", "u64low", "u32mid"]
        if i % (8 if quick else 16) == 0:      # 4 MiB chunks: every walk over one costs ~10 ms (thorough: 2000 of 32000 histories)
            variants += ["u32top", "u64big"]
        for v in variants:
            cases.append(dict(c, id="dense-%d-%s" % (i, v), kind="dense", variant=v))
    r = vlib.tlc_ok(res[5], "small export")
    ctx.add_tlc(r, "IdSetSmall simulated histories (depth 12)")
    for i, c in enumerate(r.cases):
        cases.append(dict(c, id="small-%d" % i, kind="small"))
    r = vlib.tlc_ok(res[6], "relmap export")
    ctx.add_tlc(r, "RelationsMap: every stash of <= 3 pairs over 6 ids (3 beyond the 32 bit border) x 3 builders")
    for i, c in enumerate(r.cases):
        cases.append(dict(c, id="relmap-%d" % i, kind="relmap"))
    r = vlib.tlc_ok(res[7], "stash export")
    ctx.add_tlc(r, "ItemStash simulated histories (depth 14)")
    for i, c in enumerate(r.cases):
        cases.append(dict(c, id="stash-%d" % i, kind="stash"))
    return cases


def sig_of(c, r):
    k = r.get("step", -1)
    if c["kind"] == "relmap":
        return "relmap phase=%s pairs=%s note=%s" % (c["phase"], json.dumps([s["x"] for s in c["steps"] if s["a"] == "add"]), r.get("note", "")[:80])
    st = c["steps"][:k + 1] if isinstance(k, int) and k >= 0 else c["steps"]
    return "%s%s %s" % (c["kind"], "/" + c.get("variant", "") if c.get("variant") else "",
                        " ".join("%s(%s)" % (s["a"], s["x"]) for s in st[-8:]))


def run_cases(ctx, cases):
    binary = vlib.build("containers_replay", "containers_replay.cpp", flags=["-DOSMIUM_VERIF_STASH_GC_MIN=2"])
    res = vlib.replay_cases(binary, cases, timeout=2400, env={"VH_CASE_TIMEOUT": "30"})
    byid = {c["id"]: c for c in cases}
    if len(res) != len(cases):
        raise vlib.ModelFailure("replay returned %d results for %d cases" % (len(res), len(cases)))
    for r in res:
        if r.get("ok"):
            continue
        c = byid[r["id"]]
        if "crash" in r:
            what = "real container %s at step %s: %s" % (r["crash"], r.get("step"), r.get("stderr", "")[:700])
        else:
            what = "result differs from the spec at step %s (%s): exp=%s got=%s" % (
                r.get("step"), r.get("note", ""), json.dumps(r.get("exp"))[:300], json.dumps(r.get("got"))[:300])
        ctx.violation(sig_of(c, r), {"case": c, "result": r}, what)


def run(ctx):
    import C15ext                   # value semantics, nwr_array, border ids, real GC thresholds (see C15ext.py), run after the base part
    C15ext.start_prebuild()         # its (cold) harness builds run beside the TLC runs below
    cases = gen_cases(ctx)
    run_cases(ctx, cases)
    ctx.traces = len(cases)
    ctx.evaluations = sum(max(1, len(c["steps"])) + len(c.get("probes", [])) for c in cases)
    distinct = set((c["kind"], c.get("variant"), json.dumps(c["steps"], sort_keys=True), c.get("phase")) for c in cases)
    ctx.nontrivial = len(distinct)
    ctx.rule = ("a case = (container, instantiation, history of calls [, index builder]); distinct by that tuple; "
                "evaluations = calls and lookups compared")
    seen = set()
    for c in cases:
        if c["kind"] not in seen:
            seen.add(c["kind"])
            ctx.sample({k: c[k] for k in c if k != "id"})
    kinds = {}
    for c in cases:
        kinds[c["kind"]] = kinds.get(c["kind"], 0) + 1
    ctx.extra["cases_per_container"] = kinds
    ctx.assumptions = ["model geometry is scaled down (16 ids per chunk, 6 bit ids, 3 bit '32 bit' border, 64 KiB units); the "
                       "harness embeds model ids border-preservingly: first/last byte of a chunk, last chunk of the uint32 range, "
                       "ids beyond 2^32 sharing their low word",
                       "ItemStash automatic GC threshold lowered to 2 removals by the OSMIUM_VERIF_STASH_GC_MIN hook in the quick tier"]
    C15ext.run_part(ctx)            # adds to ctx.traces / evaluations / nontrivial / assumptions; violations "ext:..."


def replay(ctx, path):
    with open(path) as fh:
        d = json.load(fh)
    if d["case"].get("ext"):
        import C15ext
        return C15ext.replay_part(ctx, d)
    c = d["case"]["case"]
    run_cases(ctx, [c])
    ctx.evaluations = len(c["steps"])
    ctx.nontrivial = 2
    ctx.states = ctx.transitions = 1
    ctx.sample({k: c[k] for k in c if k != "id"})
